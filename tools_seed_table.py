#!/usr/bin/env python3
"""Prints the markdown table of seeded changes (from seeded/*/meta.json): tools_seed_table.py [r2]"""
import json, glob, os, sys
rnd = sys.argv[1] if len(sys.argv) > 1 else 'r1'
print('| seed | breaks | needs (short) | caught by | by its own check |')
print('|---|---|---|---|---|')
for d in sorted(glob.glob('/verif/seeded/*/')):
    n = os.path.basename(d.rstrip('/'))
    tag = 'r6' if '-r6' in n else 'r5' if '-r5' in n else 'r4' if '-r4' in n else ('r3' if '-r3' in n else ('r2' if '-r2' in n else 'r1'))
    if tag != rnd:
        continue
    m = json.load(open(d + 'meta.json'))
    p = m['breaks_property']
    cb = m.get('caught_by', [])
    print('| %s | %s | %s | %s | %s |' % (n, p, (m.get('needs_to_manifest') or '')[:150].replace('|', '/'), ', '.join(cb), 'yes' if p in cb else 'NO'))
