#!/usr/bin/env python3
import json, jsonschema, glob, sys
jsonschema.validate(json.load(open('/verif/MANIFEST.json')), json.load(open('/root/.vp/MANIFEST.schema.json')))
es = json.load(open('/root/.vp/EVIDENCE.schema.json'))
m = json.load(open('/verif/MANIFEST.json'))
ok = True
for c in m['checks']:
    try:
        jsonschema.validate(json.load(open(c['evidence_file'])), es)
    except Exception as e:
        ok = False
        print("EVIDENCE INVALID", c['property_id'], str(e)[:300])
print("manifest ok; evidence", "ok" if ok else "BAD")
