package backends

// Added through the build overlay only (never committed): a fault-injecting
// decorator around the configured cache backend, driven by the environment.
//   VERIF_BACKEND_LOG=<file>      append "<op> <path>" per backend operation
//   VERIF_BACKEND_FAULT=<op>#<n>:<mode>  fail the n-th operation of kind op
//     modes: err (fail before doing anything), late (Set: consume the content, store nothing, fail;
//            Get: return a reader that fails after half of the content), miss (Get/Exists: pretend absent)

import (
	"context"
	"errors"
	"fmt"
	"grog/internal/config"
	"io"
	"os"
	"strconv"
	"strings"
	"sync"
)

type verifFaulty struct {
	inner  CacheBackend
	mu     sync.Mutex
	counts map[string]int
	log    *os.File
	op     string
	nth    int
	mode   string
}

func (f *verifFaulty) TypeName() string { return f.inner.TypeName() }

func (f *verifFaulty) hit(op, path string) string {
	f.mu.Lock()
	defer f.mu.Unlock()
	f.counts[op]++
	if f.log != nil {
		f.log.WriteString(op + " " + path + "\n")
	}
	if f.op == op && f.counts[op] == f.nth {
		return f.mode
	}
	return ""
}

var errInjected = errors.New("injected storage fault")

type failingReader struct {
	r    io.ReadCloser
	left int
}

func (fr *failingReader) Read(p []byte) (int, error) {
	if fr.left <= 0 {
		return 0, errInjected
	}
	if len(p) > fr.left {
		p = p[:fr.left]
	}
	n, err := fr.r.Read(p)
	fr.left -= n
	if err == io.EOF {
		return n, errInjected
	}
	return n, err
}
func (fr *failingReader) Close() error { return fr.r.Close() }

func (f *verifFaulty) Get(ctx context.Context, path, key string) (io.ReadCloser, error) {
	switch f.hit("get", path) {
	case "err":
		return nil, fmt.Errorf("get %s/%s: %w", path, key, errInjected)
	case "miss":
		return nil, os.ErrNotExist
	case "late":
		r, err := f.inner.Get(ctx, path, key)
		if err != nil {
			return nil, err
		}
		return &failingReader{r: r, left: 1}, nil
	}
	return f.inner.Get(ctx, path, key)
}

func (f *verifFaulty) Set(ctx context.Context, path, key string, content io.Reader) error {
	switch f.hit("set", path) {
	case "err":
		return fmt.Errorf("set %s/%s: %w", path, key, errInjected)
	case "late":
		io.Copy(io.Discard, content)
		return fmt.Errorf("set %s/%s: %w", path, key, errInjected)
	}
	return f.inner.Set(ctx, path, key, content)
}

func (f *verifFaulty) Delete(ctx context.Context, path string, key string) error {
	if f.hit("delete", path) == "err" {
		return errInjected
	}
	return f.inner.Delete(ctx, path, key)
}

func (f *verifFaulty) Exists(ctx context.Context, path string, key string) (bool, error) {
	switch f.hit("exists", path) {
	case "err":
		return false, errInjected
	case "miss":
		return false, nil
	}
	return f.inner.Exists(ctx, path, key)
}

// GetCacheBackend wraps the real constructor (renamed by the overlay).
func GetCacheBackend(ctx context.Context, cacheConfig config.CacheConfig) (CacheBackend, error) {
	var inner CacheBackend
	var err error
	if remoteDir := os.Getenv("VERIF_REMOTE_DIR"); remoteDir != "" {
		// a remote object store faked by a directory, behind the REAL RemoteWrapper
		fs, fsErr := NewFileSystemCache(ctx)
		if fsErr != nil {
			return nil, fsErr
		}
		remote := &verifDirRemote{dir: remoteDir, counts: map[string]int{}}
		if lp := os.Getenv("VERIF_REMOTE_LOG"); lp != "" {
			remote.log, _ = os.OpenFile(lp, os.O_WRONLY|os.O_CREATE|os.O_APPEND, 0o644)
		}
		if spec := os.Getenv("VERIF_REMOTE_FAULT"); spec != "" {
			i := strings.Index(spec, "#")
			j := strings.LastIndex(spec, ":")
			if i > 0 && j > i {
				remote.op = spec[:i]
				remote.nth, _ = strconv.Atoi(spec[i+1 : j])
				remote.mode = spec[j+1:]
			}
		}
		inner = NewRemoteWrapper(fs, remote)
	} else {
		inner, err = verifOrigGetCacheBackend(ctx, cacheConfig)
		if err != nil {
			return nil, err
		}
	}
	spec := os.Getenv("VERIF_BACKEND_FAULT")
	logPath := os.Getenv("VERIF_BACKEND_LOG")
	if spec == "" && logPath == "" {
		return inner, nil
	}
	f := &verifFaulty{inner: inner, counts: map[string]int{}}
	if logPath != "" {
		f.log, _ = os.OpenFile(logPath, os.O_WRONLY|os.O_CREATE|os.O_APPEND, 0o644)
	}
	if spec != "" {
		// <op>#<n>:<mode>
		i := strings.Index(spec, "#")
		j := strings.LastIndex(spec, ":")
		if i > 0 && j > i {
			f.op = spec[:i]
			f.nth, _ = strconv.Atoi(spec[i+1 : j])
			f.mode = spec[j+1:]
		}
	}
	return f, nil
}

// verifDirRemote is an object store faked by a directory (objects are written
// atomically, like a real object store's PUT).
type verifDirRemote struct {
	dir    string
	mu     sync.Mutex
	counts map[string]int
	log    *os.File
	op     string
	nth    int
	mode   string
}

func (r *verifDirRemote) TypeName() string { return "verif-dir-remote" }

func (r *verifDirRemote) hit(op, path, key string) string {
	r.mu.Lock()
	defer r.mu.Unlock()
	r.counts[op]++
	if r.log != nil {
		r.log.WriteString(op + " " + path + " " + key + "\n")
	}
	if r.op == op && r.counts[op] == r.nth {
		return r.mode
	}
	return ""
}

func (r *verifDirRemote) file(path, key string) string {
	return r.dir + "/" + strings.Trim(path, "/") + "/" + strings.Trim(key, "/")
}

func (r *verifDirRemote) Get(ctx context.Context, path, key string) (io.ReadCloser, error) {
	mode := r.hit("get", path, key)
	switch mode {
	case "err":
		return nil, fmt.Errorf("remote get %s/%s: %w", path, key, errInjected)
	case "miss":
		return nil, os.ErrNotExist
	}
	f, err := os.Open(r.file(path, key))
	if err != nil {
		return nil, err
	}
	if mode == "late" {
		return &failingReader{r: f, left: 1}, nil
	}
	return f, nil
}

func (r *verifDirRemote) Set(ctx context.Context, path, key string, content io.Reader) error {
	mode := r.hit("set", path, key)
	switch mode {
	case "err":
		return fmt.Errorf("remote set %s/%s: %w", path, key, errInjected)
	case "late":
		io.Copy(io.Discard, content)
		return fmt.Errorf("remote set %s/%s: %w", path, key, errInjected)
	case "ignore-body":
		// fails without reading the body at all
		return fmt.Errorf("remote set %s/%s: %w", path, key, errInjected)
	}
	p := r.file(path, key)
	dir := p[:strings.LastIndex(p, "/")]
	if err := os.MkdirAll(dir, 0o755); err != nil {
		return err
	}
	tmp, err := os.CreateTemp(dir, "tmp-*")
	if err != nil {
		return err
	}
	if _, err := io.Copy(tmp, content); err != nil {
		tmp.Close()
		os.Remove(tmp.Name())
		return err
	}
	tmp.Close()
	return os.Rename(tmp.Name(), p)
}

func (r *verifDirRemote) Delete(ctx context.Context, path string, key string) error {
	if r.hit("delete", path, key) == "err" {
		return errInjected
	}
	err := os.Remove(r.file(path, key))
	if os.IsNotExist(err) {
		return nil
	}
	return err
}

func (r *verifDirRemote) Exists(ctx context.Context, path string, key string) (bool, error) {
	switch r.hit("exists", path, key) {
	case "err":
		return false, errInjected
	case "miss":
		return false, nil
	}
	_, err := os.Stat(r.file(path, key))
	if err == nil {
		return true, nil
	}
	if os.IsNotExist(err) {
		return false, nil
	}
	return false, err
}
