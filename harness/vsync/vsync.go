// Package vsync replaces "sync" in instrumented repo files. When no scheduler
// is active every type behaves exactly like its sync counterpart; under the
// scheduler blocking is made visible (a goroutine blocked on a real sync.Mutex
// is not "durably blocked" for testing/synctest and would wedge the explorer).
package vsync

import (
	"sync"

	"grog/internal/zverif/vs"
)

type (
	Map    = sync.Map
	Pool   = sync.Pool
	Locker = sync.Locker
	Cond   = sync.Cond
)

func NewCond(l Locker) *Cond { return sync.NewCond(l) }

type Mutex struct {
	real sync.Mutex
	held bool
}

func (m *Mutex) Lock() {
	if !vs.Active() {
		m.real.Lock()
		return
	}
	vs.Point("Mutex.Lock")
	for {
		ok := false
		vs.Locked(func() {
			if !m.held {
				m.held = true
				ok = true
			}
		})
		if ok {
			vs.NoteAcquire(m)
			return
		}
		vs.BlockOn(m, "Mutex.Lock(blocked)")
	}
}

func (m *Mutex) TryLock() bool {
	if !vs.Active() {
		return m.real.TryLock()
	}
	ok := false
	vs.Locked(func() {
		if !m.held {
			m.held = true
			ok = true
		}
	})
	return ok
}

func (m *Mutex) Unlock() {
	if !vs.Active() {
		m.real.Unlock()
		return
	}
	was := false
	vs.Locked(func() { was = m.held; m.held = false })
	if !was {
		panic("vsync: unlock of unlocked mutex")
	}
	vs.NoteRelease(m)
	vs.WakeAll(m)
}

type RWMutex struct {
	real    sync.RWMutex
	writer  bool
	readers int
}

func (m *RWMutex) Lock() {
	if !vs.Active() {
		m.real.Lock()
		return
	}
	vs.Point("RWMutex.Lock")
	for {
		ok := false
		vs.Locked(func() {
			if !m.writer && m.readers == 0 {
				m.writer = true
				ok = true
			}
		})
		if ok {
			vs.NoteAcquire(m)
			return
		}
		vs.BlockOn(m, "RWMutex.Lock(blocked)")
	}
}

func (m *RWMutex) Unlock() {
	if !vs.Active() {
		m.real.Unlock()
		return
	}
	vs.Locked(func() { m.writer = false })
	vs.NoteRelease(m)
	vs.WakeAll(m)
}

func (m *RWMutex) RLock() {
	if !vs.Active() {
		m.real.RLock()
		return
	}
	vs.Point("RWMutex.RLock")
	for {
		ok := false
		vs.Locked(func() {
			if !m.writer {
				m.readers++
				ok = true
			}
		})
		if ok {
			vs.NoteAcquire(m)
			return
		}
		vs.BlockOn(m, "RWMutex.RLock(blocked)")
	}
}

func (m *RWMutex) RUnlock() {
	if !vs.Active() {
		m.real.RUnlock()
		return
	}
	vs.Locked(func() { m.readers-- })
	vs.NoteRelease(m)
	vs.WakeAll(m)
}

func (m *RWMutex) RLocker() Locker { return (*rlocker)(m) }

type rlocker RWMutex

func (r *rlocker) Lock()   { (*RWMutex)(r).RLock() }
func (r *rlocker) Unlock() { (*RWMutex)(r).RUnlock() }

type Once struct {
	real    sync.Once
	done    bool
	running bool
}

func (o *Once) Do(f func()) {
	if !vs.Active() {
		o.real.Do(f)
		return
	}
	vs.Point("Once.Do")
	for {
		state := 0
		vs.Locked(func() {
			switch {
			case o.done:
				state = 1
			case o.running:
				state = 2
			default:
				o.running = true
			}
		})
		switch state {
		case 1:
			return
		case 2:
			vs.BlockOn(o, "Once.Do(blocked)")
			continue
		}
		defer func() {
			vs.Locked(func() { o.done = true; o.running = false })
			vs.WakeAll(o)
		}()
		f()
		return
	}
}

type WaitGroup struct {
	real sync.WaitGroup
	n    int
}

func (w *WaitGroup) Add(delta int) {
	if !vs.Active() {
		w.real.Add(delta)
		return
	}
	zero := false
	vs.Locked(func() {
		w.n += delta
		if w.n < 0 {
			panic("vsync: negative WaitGroup counter")
		}
		zero = w.n == 0
	})
	if zero {
		vs.WakeAll(w)
	}
}

func (w *WaitGroup) Done() { w.Add(-1) }

func (w *WaitGroup) Go(f func()) {
	w.Add(1)
	vs.Go("WaitGroup.Go", func() {
		defer w.Done()
		f()
	})
}

func (w *WaitGroup) Wait() {
	if !vs.Active() {
		w.real.Wait()
		return
	}
	vs.Point("WaitGroup.Wait")
	for {
		ok := false
		vs.Locked(func() { ok = w.n == 0 })
		if ok {
			return
		}
		vs.BlockOn(w, "WaitGroup.Wait(blocked)")
	}
}

func OnceFunc(f func()) func()                                 { return sync.OnceFunc(f) }
func OnceValue[T any](f func() T) func() T                     { return sync.OnceValue(f) }
func OnceValues[T1, T2 any](f func() (T1, T2)) func() (T1, T2) { return sync.OnceValues(f) }
