#include "textflag.h"

// func verifGetg() uintptr
TEXT ·verifGetg(SB),NOSPLIT,$0-8
	MOVQ (TLS), R14
	MOVQ R14, ret+0(FP)
	RET
