package label

// Added through the build overlay only (never committed to the repository):
// a cheap identity of the current goroutine (address of its runtime g) for the
// verification scheduler. It lives in this leaf package because assembly files
// need a real directory and the scheduler packages are virtual.

func verifGetg() uintptr

// VerifG returns the identity of the calling goroutine.
func VerifG() uintptr { return verifGetg() }
