// Package vs is the controlled scheduler ("bubblesched") used by the schedule
// exploring checks. It runs a harness body and every goroutine it creates
// inside a testing/synctest bubble; synctest is used ONLY as a detector of
// "every other goroutine is durably blocked". Each managed goroutine parks at
// scheduling points on a private grant channel; the scheduler (root goroutine
// of the bubble) picks one parked goroutine per step according to a choice
// sequence, so an execution is a deterministic function of that sequence.
package vs

import (
	"fmt"
	"grog/internal/label"
	"reflect"
	"runtime"
	"runtime/debug"
	"sort"
	"strconv"
	"strings"
	"sync"
	"sync/atomic"
	"testing"
	"testing/synctest"
	"time"
)

type tstate int

const (
	stRunning  tstate = iota // granted; may be durably blocked in a real operation
	stParked                 // waiting at a Point for a grant (enabled)
	stVBlocked               // blocked on a virtual object (mutex, wait group, once)
	stFinished
)

type Thread struct {
	ID        int
	Name      string
	grant     chan struct{}
	state     tstate
	site      string
	blockedOn any
	goid      int64
	crashed   bool
	onExit    []func()
	// enabledAt orders the enabled set: the goroutine that became runnable most
	// recently comes first (it is the causal successor of what just happened)
	enabledAt int
	inEnabled bool
	held      map[any]int // virtual locks currently held (lockset race detection)
	// adopted: an unmanaged goroutine that reached its first scheduling point. Several of them may arrive
	// in an order decided by the Go runtime; rgoid (the runtime's goroutine id, which follows creation
	// order with GOMAXPROCS=1) is used to give them logical ids that do not depend on the arrival order.
	adopted bool
	rgoid   int64
}

// Step is one recorded choice of an execution.
type Step struct {
	N      int    `json:"n"`           // number of alternatives
	Choice int    `json:"c"`           // alternative taken
	Kind   string `json:"k"`           // "sched" or the Choose site
	Who    string `json:"w,omitempty"` // thread granted / choosing
	Site   string `json:"s,omitempty"`
}

type Config struct {
	Prefix []int // choices to replay; afterwards choice 0
	// PrefixN, if non-nil, holds the expected number of alternatives for each
	// prefix position: a mismatch is a replay divergence.
	PrefixN  []int
	Horizon  int // clock advances (1s fake time each) allowed while nothing is enabled
	MaxSteps int
	// NoDrain: do not run the remaining goroutines after the body returned.
	NoDrain bool
	// ClockChoices: how many times per execution "the fake clock advances by 1 s although
	// goroutines are runnable" is offered as an extra alternative (a timer such as a
	// time.After backstop firing early); 0 = timers fire only when nothing else can run.
	ClockChoices int
}

type Result struct {
	Steps      []Step
	Deadlock   bool // body never returned and nothing can run
	StepLimit  bool
	Divergence string // non-empty: replay diverged (check is broken, not a verdict)
	Panics     []string
	Blocked    []string // description of threads that were blocked at the end
	BodyDone   bool
	Races      []string // shared objects accessed by two goroutines without a common lock
	ClockTicks int
	Log        []string
	Leaked     int
}

type Sched struct {
	mu       sync.Mutex
	threads  []*Thread
	numbered int // threads[:numbered] have their final logical ids
	byGoid   map[int64]*Thread
	last     *Thread
	cfg      Config
	pos      int
	res      *Result
	closed   map[uintptr]struct{}
	bodyDone bool
	clock    int
	draining bool
	aborted  bool
	logSeq   int
	// per-execution user data (harness logs)
	events []string
	shared map[string]*sharedState
}

// sharedState is the Eraser lockset state of one named shared object.
type sharedState struct {
	first    *Thread
	shared   bool
	modified bool // written after it became shared
	lockset  map[any]bool
	reported bool
}

var cur atomic.Pointer[Sched]

func Active() bool { return cur.Load() != nil }

// goid identifies the calling goroutine by the address of its runtime g
// (unique among live goroutines; entries are removed when a thread finishes).
func goid() int64 { return int64(label.VerifG()) }

func (s *Sched) self() *Thread {
	g := goid()
	s.mu.Lock()
	th := s.byGoid[g]
	s.mu.Unlock()
	return th
}

// adopt registers the calling (so far unmanaged) goroutine as a thread.
func (s *Sched) adopt(name string) *Thread {
	g := goid()
	s.mu.Lock()
	defer s.mu.Unlock()
	if th := s.byGoid[g]; th != nil {
		return th
	}
	th := &Thread{ID: len(s.threads), Name: name, grant: make(chan struct{}), state: stRunning, goid: g, adopted: true, rgoid: runtimeGoid()}
	s.threads = append(s.threads, th)
	s.byGoid[g] = th
	return th
}

// runtimeGoid parses the goroutine id out of runtime.Stack (slow; only called once per adopted goroutine).
func runtimeGoid() int64 {
	var buf [64]byte
	n := runtime.Stack(buf[:], false)
	f := strings.Fields(string(buf[:n]))
	if len(f) >= 2 {
		if id, err := strconv.ParseInt(f[1], 10, 64); err == nil {
			return id
		}
	}
	return 0
}

// renumber gives the threads registered since the last scheduling step their logical ids: goroutines
// started through Go keep their (deterministic) spawn order and come first, adopted goroutines follow
// in the order of their creation. Called with s.mu held, when every goroutine is blocked or parked.
func (s *Sched) renumber() {
	fresh := s.threads[s.numbered:]
	if len(fresh) > 1 {
		sort.SliceStable(fresh, func(i, j int) bool {
			if fresh[i].adopted != fresh[j].adopted {
				return !fresh[i].adopted
			}
			return fresh[i].adopted && fresh[i].rgoid < fresh[j].rgoid
		})
	}
	for i, th := range fresh {
		th.ID = s.numbered + i
	}
	s.numbered = len(s.threads)
}

func (s *Sched) park(th *Thread, site string) {
	s.mu.Lock()
	if s.aborted {
		s.mu.Unlock()
		// the execution was abandoned: never run again
		select {}
	}
	th.state = stParked
	th.site = site
	s.mu.Unlock()
	<-th.grant
}

// Point is a scheduling point: the calling goroutine yields to the scheduler.
func Point(site string) {
	s := cur.Load()
	if s == nil {
		return
	}
	th := s.self()
	if th == nil {
		th = s.adopt("adopted@" + site)
	}
	s.park(th, site)
}

// Go starts f as a managed goroutine (or as a plain goroutine when no scheduler
// is active). The child's identity is fixed by the parent at spawn time.
func Go(site string, f func()) {
	s := cur.Load()
	if s == nil {
		go f()
		return
	}
	s.mu.Lock()
	th := &Thread{ID: len(s.threads), Name: site, grant: make(chan struct{}), state: stRunning}
	s.threads = append(s.threads, th)
	s.mu.Unlock()
	started := make(chan struct{})
	go func() {
		g := goid()
		s.mu.Lock()
		th.goid = g
		s.byGoid[g] = th
		th.state = stParked
		th.site = "start:" + site
		aborted := s.aborted
		s.mu.Unlock()
		close(started)
		if aborted {
			select {}
		}
		<-th.grant
		defer s.finish(th)
		f()
	}()
	// wait until the child is registered so that the thread table is a
	// deterministic function of the choices made so far
	<-started
}

func (s *Sched) finish(th *Thread) {
	if r := recover(); r != nil {
		if _, ok := r.(abortSignal); !ok {
			s.mu.Lock()
			s.res.Panics = append(s.res.Panics, fmt.Sprintf("thread %d (%s): panic: %v\n%s", th.ID, th.Name, r, trimStack(debug.Stack())))
			s.mu.Unlock()
		}
	}
	s.mu.Lock()
	th.state = stFinished
	delete(s.byGoid, th.goid)
	hooks := th.onExit
	s.mu.Unlock()
	for _, h := range hooks {
		h()
	}
}

// OnThreadExit registers f to run when the calling managed goroutine ends.
func OnThreadExit(f func()) {
	s := cur.Load()
	if s == nil {
		return
	}
	if th := s.self(); th != nil {
		s.mu.Lock()
		th.onExit = append(th.onExit, f)
		s.mu.Unlock()
	}
}

// ThreadID returns the logical id of the calling goroutine (-1 if unmanaged).
func ThreadID() int {
	s := cur.Load()
	if s == nil {
		return -1
	}
	if th := s.self(); th != nil {
		return th.ID
	}
	return -1
}

type abortSignal struct{}

func trimStack(b []byte) string {
	lines := strings.Split(string(b), "\n")
	var out []string
	for _, l := range lines {
		if strings.Contains(l, "grog/internal/") && !strings.Contains(l, "zverif/vs") {
			out = append(out, strings.TrimSpace(l))
			if len(out) >= 8 {
				break
			}
		}
	}
	return strings.Join(out, " <- ")
}

// BlockOn parks the calling thread as blocked on obj until WakeAll(obj).
func BlockOn(obj any, site string) {
	s := cur.Load()
	if s == nil {
		panic("vs.BlockOn without scheduler")
	}
	th := s.self()
	if th == nil {
		th = s.adopt("adopted@" + site)
	}
	s.mu.Lock()
	if s.aborted {
		s.mu.Unlock()
		select {}
	}
	th.state = stVBlocked
	th.blockedOn = obj
	th.site = site
	s.mu.Unlock()
	<-th.grant
}

// WakeAll makes every thread blocked on obj enabled again (they re-check their condition).
func WakeAll(obj any) {
	s := cur.Load()
	if s == nil {
		return
	}
	s.mu.Lock()
	for _, th := range s.threads {
		if th.state == stVBlocked && th.blockedOn == obj {
			th.state = stParked
			th.blockedOn = nil
		}
	}
	s.mu.Unlock()
}

// Locked runs f under the scheduler's internal lock (for shim state).
func Locked(f func()) {
	s := cur.Load()
	if s == nil {
		f()
		return
	}
	s.mu.Lock()
	f()
	s.mu.Unlock()
}

// Choose resolves a data choice with n alternatives (0 is the default).
func Choose(site string, n int) int {
	s := cur.Load()
	if s == nil || n <= 1 {
		return 0
	}
	s.mu.Lock()
	defer s.mu.Unlock()
	if s.draining {
		return 0
	}
	who := ""
	if th := s.byGoid[goid()]; th != nil {
		who = fmt.Sprint(th.ID)
	}
	return s.nextChoice(n, site, who, site)
}

// nextChoice must be called with s.mu held.
func (s *Sched) nextChoice(n int, kind, who, site string) int {
	c := 0
	if s.pos < len(s.cfg.Prefix) {
		c = s.cfg.Prefix[s.pos]
		if s.cfg.PrefixN != nil && s.pos < len(s.cfg.PrefixN) && s.cfg.PrefixN[s.pos] != n {
			if s.res.Divergence == "" {
				s.res.Divergence = fmt.Sprintf("step %d (%s %s): expected %d alternatives, found %d", s.pos, kind, site, s.cfg.PrefixN[s.pos], n)
			}
		}
		if c >= n {
			if s.res.Divergence == "" {
				s.res.Divergence = fmt.Sprintf("step %d (%s %s): choice %d out of range (%d alternatives)", s.pos, kind, site, c, n)
			}
			c = 0
		}
	}
	s.pos++
	s.res.Steps = append(s.res.Steps, Step{N: n, Choice: c, Kind: kind, Who: who, Site: site})
	return c
}

func chanKey(ch any) uintptr {
	v := reflect.ValueOf(ch)
	if v.Kind() != reflect.Chan {
		return 0
	}
	return v.Pointer()
}

// MarkClosed records that ch is about to be closed (select readiness probing).
func MarkClosed(ch any) {
	s := cur.Load()
	if s == nil {
		return
	}
	k := chanKey(ch)
	s.mu.Lock()
	s.closed[k] = struct{}{}
	s.mu.Unlock()
}

func IsClosed(ch any) bool {
	s := cur.Load()
	if s == nil {
		return false
	}
	k := chanKey(ch)
	s.mu.Lock()
	_, ok := s.closed[k]
	s.mu.Unlock()
	return ok
}

// RecvReady / SendReady probe without consuming.
func RecvReady(ch any) bool {
	v := reflect.ValueOf(ch)
	if v.Kind() != reflect.Chan || v.IsNil() {
		return false
	}
	return v.Len() > 0 || IsClosed(ch)
}

func SendReady(ch any) bool {
	v := reflect.ValueOf(ch)
	if v.Kind() != reflect.Chan || v.IsNil() {
		return false
	}
	return v.Len() < v.Cap() || IsClosed(ch)
}

// SelectChoose is called by rewritten select statements with the readiness of
// each case. It returns -1 when fewer than two cases are ready (the original
// select is then executed and is deterministic) or the index of the case to take.
func SelectChoose(site string, ready ...bool) int {
	if cur.Load() == nil {
		return -1
	}
	var idx []int
	for i, r := range ready {
		if r {
			idx = append(idx, i)
		}
	}
	if len(idx) < 2 {
		return -1
	}
	return idx[Choose("select:"+site, len(idx))]
}

// Event appends a line to the per-execution harness log (thread-safe).
func Event(format string, a ...any) {
	s := cur.Load()
	if s == nil {
		return
	}
	s.mu.Lock()
	s.res.Log = append(s.res.Log, fmt.Sprintf(format, a...))
	s.mu.Unlock()
}

// MapOrder returns the keys of m in a scheduler-chosen order: canonical
// (sorted by printed key) by default, any permutation as one deviation.
func MapOrder[M ~map[K]V, K comparable, V any](m M, site string) []K {
	keys := make([]K, 0, len(m))
	for k := range m {
		keys = append(keys, k)
	}
	sort.Slice(keys, func(i, j int) bool { return fmt.Sprint(keys[i]) < fmt.Sprint(keys[j]) })
	if cur.Load() == nil || len(keys) < 2 || len(keys) > 5 {
		return keys
	}
	nperm := 1
	for i := 2; i <= len(keys); i++ {
		nperm *= i
	}
	p := Choose("maporder:"+site, nperm)
	// decode permutation index p (factorial number system)
	out := make([]K, 0, len(keys))
	rest := append([]K{}, keys...)
	for i := len(keys); i >= 1; i-- {
		f := 1
		for j := 2; j < i; j++ {
			f *= j
		}
		q := p / f
		p = p % f
		out = append(out, rest[q])
		rest = append(rest[:q], rest[q+1:]...)
	}
	return out
}

// RangeMap iterates m in scheduler-chosen order (range-over-func).
func RangeMap[M ~map[K]V, K comparable, V any](m M, site string) func(yield func(K, V) bool) {
	return func(yield func(K, V) bool) {
		for _, k := range MapOrder(m, site) {
			v, ok := m[k]
			if !ok {
				continue
			}
			if !yield(k, v) {
				return
			}
		}
	}
}

// Run executes body under the scheduler with the given choice prefix.
func Run(t *testing.T, cfg Config, body func()) *Result {
	if cfg.Horizon == 0 {
		cfg.Horizon = 4
	}
	if cfg.MaxSteps == 0 {
		cfg.MaxSteps = 20000
	}
	res := &Result{}
	s := &Sched{byGoid: map[int64]*Thread{}, cfg: cfg, res: res, closed: map[uintptr]struct{}{}}
	func() {
		defer func() {
			// "blocked goroutines remain" at the end of the bubble: goroutines of an
			// abandoned execution stay parked forever; that is expected.
			if r := recover(); r != nil {
				msg := fmt.Sprint(r)
				if !strings.Contains(msg, "blocked goroutines remain") && !strings.Contains(msg, "deadlock") {
					res.Panics = append(res.Panics, "scheduler: "+msg)
				}
			}
		}()
		synctest.Test(t, func(t *testing.T) {
			cur.Store(s)
			defer cur.Store(nil)
			Go("main", func() {
				body()
				s.mu.Lock()
				s.bodyDone = true
				s.mu.Unlock()
			})
			s.loop()
		})
	}()
	cur.Store(nil)
	return res
}

func (s *Sched) loop() {
	ticks := 0
	steps := 0
	earlyTicks := 0
	for {
		synctest.Wait()
		s.mu.Lock()
		s.renumber()
		if s.bodyDone {
			s.res.BodyDone = true
			if s.cfg.NoDrain {
				break
			}
			s.draining = true
		}
		var enabled []*Thread
		for _, th := range s.threads { // ascending ids: newly enabled threads are stamped deterministically
			if th.state == stParked {
				if !th.inEnabled {
					s.clock++
					th.enabledAt = s.clock
					th.inEnabled = true
				}
				enabled = append(enabled, th)
			} else {
				th.inEnabled = false
			}
		}
		if len(enabled) == 0 {
			if s.bodyDone {
				break
			}
			if ticks < s.cfg.Horizon {
				ticks++
				s.res.ClockTicks = ticks
				s.mu.Unlock()
				time.Sleep(time.Second)
				continue
			}
			s.res.Deadlock = true
			break
		}
		steps++
		if steps > s.cfg.MaxSteps {
			s.res.StepLimit = true
			break
		}
		// canonical order: the thread that ran last first (if still enabled), then
		// most recently enabled first (ties cannot occur: stamps are unique)
		sort.SliceStable(enabled, func(i, j int) bool {
			if (enabled[i] == s.last) != (enabled[j] == s.last) {
				return enabled[i] == s.last
			}
			return enabled[i].enabledAt > enabled[j].enabledAt
		})
		c := 0
		if !s.draining {
			n := len(enabled)
			tickOffered := earlyTicks < s.cfg.ClockChoices
			if tickOffered {
				n++
			}
			c = s.nextChoice(n, "sched", fmt.Sprint(enabled[0].ID), enabled[0].site)
			if tickOffered && c == len(enabled) {
				// a timer fires although other goroutines could run: all managed goroutines are parked on
				// their grant channels (durably blocked), so the bubble's clock advances during this sleep
				earlyTicks++
				s.res.Steps[len(s.res.Steps)-1].Who = "clock"
				s.res.Steps[len(s.res.Steps)-1].Site = "clock advances 1s"
				s.mu.Unlock()
				time.Sleep(time.Second)
				continue
			}
			s.res.Steps[len(s.res.Steps)-1].Who = fmt.Sprint(enabled[c].ID)
			s.res.Steps[len(s.res.Steps)-1].Site = enabled[c].site
		}
		th := enabled[c]
		th.state = stRunning
		s.last = th
		s.mu.Unlock()
		th.grant <- struct{}{}
	}
	// abandon whatever is left (s.mu is held here)
	s.aborted = true
	for _, th := range s.threads {
		if th.state != stFinished {
			s.res.Leaked++
			if !s.bodyDone || th.state != stRunning {
				st := map[tstate]string{stRunning: "blocked in a real operation after", stParked: "parked at", stVBlocked: "waiting for"}[th.state]
				s.res.Blocked = append(s.res.Blocked, fmt.Sprintf("thread %d (%s) %s %s", th.ID, th.Name, st, th.site))
			}
		}
	}
	s.mu.Unlock()
}

// NoteAcquire / NoteRelease are called by the vsync shims so that the scheduler
// knows which virtual locks a goroutine holds.
func NoteAcquire(lock any) {
	s := cur.Load()
	if s == nil {
		return
	}
	if th := s.self(); th != nil {
		s.mu.Lock()
		if th.held == nil {
			th.held = map[any]int{}
		}
		th.held[lock]++
		s.mu.Unlock()
	}
}

func NoteRelease(lock any) {
	s := cur.Load()
	if s == nil {
		return
	}
	if th := s.self(); th != nil {
		s.mu.Lock()
		if th.held[lock] > 0 {
			th.held[lock]--
			if th.held[lock] == 0 {
				delete(th.held, lock)
			}
		}
		s.mu.Unlock()
	}
}

// Access records an access to the named shared object (a map of the code under
// test). Lockset discipline (Eraser): the object may be used by one goroutine
// without locks (initialisation) and read by many; as soon as a second goroutine touches it, the set of locks
// held at every further access is intersected; an empty intersection is an
// unsynchronised concurrent access (for a Go map: a fatal runtime error in some
// schedule). It is not a scheduling point: the verdict depends on the locks held, not on the interleaving.
func Access(name string, write bool) {
	s := cur.Load()
	if s == nil {
		return
	}
	th := s.self()
	if th == nil {
		return
	}
	s.mu.Lock()
	defer s.mu.Unlock()
	if s.shared == nil {
		s.shared = map[string]*sharedState{}
	}
	st := s.shared[name]
	if st == nil {
		s.shared[name] = &sharedState{first: th}
		return
	}
	if !st.shared {
		if st.first == th {
			return
		}
		st.shared = true
		st.lockset = map[any]bool{}
		for l := range th.held {
			st.lockset[l] = true
		}
	} else {
		for l := range st.lockset {
			if th.held[l] == 0 {
				delete(st.lockset, l)
			}
		}
	}
	if write {
		st.modified = true
	}
	// concurrent reads are fine for a Go map: only a shared AND modified object needs a common lock
	if st.modified && len(st.lockset) == 0 && !st.reported {
		st.reported = true
		s.res.Races = append(s.res.Races, fmt.Sprintf("%s: accessed by thread %d (%s) at %s while no lock is common to all goroutines that use it (first user: thread %d %s)", name, th.ID, th.Name, th.site, st.first.ID, st.first.Name))
	}
}
