package c17

import (
	"encoding/json"
	"os"
)

type replay struct{ s string }

func replayCase() *replay {
	raw := os.Getenv("VERIF_REPLAY")
	if raw == "" {
		return nil
	}
	var m map[string]string
	if json.Unmarshal([]byte(raw), &m) != nil {
		return nil
	}
	if s, ok := m["label"]; ok {
		return &replay{s}
	}
	if s, ok := m["pattern"]; ok {
		return &replay{s}
	}
	return nil
}
