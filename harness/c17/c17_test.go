// C17: label and pattern algebra. Every token string up to a length bound is
// fed to the real label API and compared with a reference parser/matcher
// written from docs/reference/labels.md.
package c17

import (
	"fmt"
	"sort"
	"strings"
	"testing"

	"grog/internal/label"
	"grog/internal/zverif/vrep"
)

var tokens = []string{"//", "/", ":", "...", ".", "a", "b", "ab", "all"}

var uniPkgs = []string{"", "a", "a/b", "ab", "a/bb", "b", "ab/b", "ab/a/b", "b/a"}
var uniNames = []string{"a", "b", "ab", "all"}

var universe []label.TargetLabel

func init() {
	for _, p := range uniPkgs {
		for _, n := range uniNames {
			universe = append(universe, label.TargetLabel{Package: p, Name: n})
		}
	}
}

// ---- reference (from the documentation only) ----

func isWord(s string) bool {
	if s == "" {
		return false
	}
	for _, c := range s {
		if !(c >= 'a' && c <= 'z') {
			return false
		}
	}
	return true
}

// refPkg: "" or word(/word)*
func refPkg(p string) bool {
	if p == "" {
		return true
	}
	for _, seg := range strings.Split(p, "/") {
		if !isWord(seg) {
			return false
		}
	}
	return true
}

type refLabel struct{ pkg, name string }

// refParseLabel returns (label, documented). cur "." stands for the root package.
func refParseLabel(cur, s string) (refLabel, bool) {
	if cur == "." {
		cur = ""
	}
	if strings.HasPrefix(s, ":") {
		n := s[1:]
		if isWord(n) {
			return refLabel{cur, n}, true
		}
		return refLabel{}, false
	}
	if !strings.HasPrefix(s, "//") {
		return refLabel{}, false
	}
	body := s[2:]
	if i := strings.Index(body, ":"); i >= 0 {
		p, n := body[:i], body[i+1:]
		if refPkg(p) && isWord(n) {
			return refLabel{p, n}, true
		}
		return refLabel{}, false
	}
	if body != "" && refPkg(body) {
		segs := strings.Split(body, "/")
		return refLabel{body, segs[len(segs)-1]}, true
	}
	return refLabel{}, false
}

type refPattern struct {
	prefix    string
	recursive bool
	name      string // "" = any
}

func (p refPattern) matches(l label.TargetLabel) bool {
	if p.recursive {
		if p.prefix != "" && l.Package != p.prefix && !strings.HasPrefix(l.Package, p.prefix+"/") {
			return false
		}
	} else if l.Package != p.prefix {
		return false
	}
	return p.name == "" || l.Name == p.name
}

// refParsePattern accepts only the forms the documentation spells out.
func refParsePattern(cur, s string) (refPattern, bool) {
	nameOf := func(n string) (string, bool) {
		if n == "all" || n == "..." {
			return "", true
		}
		return n, isWord(n)
	}
	if strings.HasPrefix(s, ":") {
		n, ok := nameOf(s[1:])
		if !ok {
			return refPattern{}, false
		}
		return refPattern{prefix: cur, name: n}, true
	}
	if !strings.HasPrefix(s, "//") {
		return refPattern{}, false
	}
	body := s[2:]
	pkgPart, tname, hasColon := body, "", false
	if i := strings.Index(body, ":"); i >= 0 {
		pkgPart, tname, hasColon = body[:i], body[i+1:], true
	}
	if pkgPart == "..." || strings.HasSuffix(pkgPart, "/...") {
		prefix := strings.TrimSuffix(strings.TrimSuffix(pkgPart, "..."), "/")
		if pkgPart != "..." && prefix == "" {
			return refPattern{}, false // "///..." is not documented
		}
		if !refPkg(prefix) {
			return refPattern{}, false
		}
		if !hasColon {
			return refPattern{prefix: prefix, recursive: true}, true
		}
		// documented: //p/...:target_name (a specific name)
		if !isWord(tname) || tname == "all" {
			return refPattern{}, false
		}
		return refPattern{prefix: prefix, recursive: true, name: tname}, true
	}
	if !refPkg(pkgPart) {
		return refPattern{}, false
	}
	if hasColon {
		n, ok := nameOf(tname)
		if !ok {
			return refPattern{}, false
		}
		return refPattern{prefix: pkgPart, name: n}, true
	}
	if pkgPart == "" {
		return refPattern{}, false
	}
	segs := strings.Split(pkgPart, "/")
	last := segs[len(segs)-1]
	if last == "all" {
		// "//x/all" is shorthand for "//x/all:all"; whether that means the
		// target named all or every target is not documented
		return refPattern{}, false
	}
	return refPattern{prefix: pkgPart, name: last}, true
}

func matchSet(f func(label.TargetLabel) bool) string {
	var b strings.Builder
	for _, l := range universe {
		if f(l) {
			b.WriteByte('1')
		} else {
			b.WriteByte('0')
		}
	}
	return b.String()
}

func setLabels(bits string) []string {
	var out []string
	for i, c := range bits {
		if c == '1' {
			out = append(out, universe[i].String())
		}
	}
	return out
}

func safely(f func()) (panicked any) {
	defer func() { panicked = recover() }()
	f()
	return nil
}

func TestVerif(t *testing.T) {
	maxLen := 5
	if vrep.Thorough() {
		maxLen = 6
	}
	maxLen = vrep.EnvInt("VERIF_C17_LEN", maxLen)
	labelCur := []string{"", "a", "a/b", ".", ".a", "a/.b"} // packages whose path starts with a dot: relative labels keep it
	patCur := []string{"", "a", "a/b", ".a"}

	var evals, trans int64
	var strs int64
	idx := make([]int, 0, maxLen)
	var rec func()
	check := func(s string) {
		strs++
		// ---- labels ----
		for _, cur := range labelCur {
			evals++
			var l label.TargetLabel
			var err error
			if p := safely(func() { l, err = label.ParseTargetLabel(cur, s) }); p != nil {
				vrep.Violation("label-parse-panic", fmt.Sprintf("ParseTargetLabel(%q,%q) panicked: %v", cur, s, p), map[string]any{"cur": cur, "label": s})
				continue
			}
			ref, documented := refParseLabel(cur, s)
			if documented {
				vrep.Nontrivial.Add("L|" + cur + "|" + s)
				if err != nil {
					vrep.Violation("label-documented-rejected", fmt.Sprintf("documented label %q (current package %q) rejected: %v", s, cur, err), map[string]any{"cur": cur, "label": s})
					continue
				}
				if l.Package != ref.pkg || l.Name != ref.name {
					vrep.Violation("label-resolution", fmt.Sprintf("label %q in package %q parsed to %s, documentation says //%s:%s", s, cur, l, ref.pkg, ref.name), map[string]any{"cur": cur, "label": s})
				}
			}
			if err != nil {
				vrep.Outcomes.Add("L-reject")
				continue
			}
			vrep.Outcomes.Add("L-ok|" + l.String())
			// parse(print(l)) == l from any current package
			printed := l.String()
			for _, cur2 := range labelCur {
				trans++
				l2, err2 := label.ParseTargetLabel(cur2, printed)
				if err2 != nil || l2 != l {
					vrep.Violation("label-print-parse", fmt.Sprintf("label %q (pkg %q) parsed to {%q,%q}, printed as %q, which re-parses to {%q,%q} err=%v", s, cur, l.Package, l.Name, printed, l2.Package, l2.Name, err2), map[string]any{"cur": cur, "label": s})
					break
				}
			}
			// a label is also a pattern matching exactly itself
			// (a target literally named "all" is excluded: the pattern form //p:all is documented to mean the whole package)
			if documented && l.Name != "all" {
				pat := label.TargetPatternFromLabel(l)
				for _, u := range universe {
					if pat.Matches(u) != (u == l) {
						vrep.Violation("label-as-pattern", fmt.Sprintf("TargetPatternFromLabel(%s).Matches(%s) = %v", l, u, pat.Matches(u)), map[string]any{"cur": cur, "label": s})
						break
					}
				}
			}
		}
		// ---- patterns ----
		for _, cur := range patCur {
			evals++
			var p label.TargetPattern
			var err error
			if pn := safely(func() { p, err = label.ParseTargetPattern(cur, s) }); pn != nil {
				vrep.Violation("pattern-parse-panic", fmt.Sprintf("ParseTargetPattern(%q,%q) panicked: %v", cur, s, pn), map[string]any{"cur": cur, "pattern": s})
				continue
			}
			// the lenient completion parser must never panic either
			if pn := safely(func() { q := label.ParsePartialTargetPattern(cur, s); _ = q.String(); _ = matchSet(q.Matches) }); pn != nil {
				vrep.Violation("partial-pattern-panic", fmt.Sprintf("ParsePartialTargetPattern(%q,%q) panicked: %v", cur, s, pn), map[string]any{"cur": cur, "pattern": s})
			}
			ref, documented := refParsePattern(cur, s)
			var got string
			if err == nil {
				got = matchSet(p.Matches)
				trans += int64(len(universe))
			}
			if documented {
				vrep.Nontrivial.Add("P|" + cur + "|" + s)
				if err != nil {
					vrep.Violation("pattern-documented-rejected", fmt.Sprintf("documented pattern %q (current package %q) rejected: %v", s, cur, err), map[string]any{"cur": cur, "pattern": s})
					continue
				}
				want := matchSet(ref.matches)
				if got != want {
					vrep.Violation(patternSig(ref), fmt.Sprintf("pattern %q (current package %q) matches %v, documentation says %v", s, cur, setLabels(got), setLabels(want)), map[string]any{"cur": cur, "pattern": s})
				}
			}
			if err != nil {
				vrep.Outcomes.Add("P-reject")
				continue
			}
			vrep.Outcomes.Add("P|" + got)
			// print then re-parse preserves the matched set
			printed := p.String()
			p2, err2 := label.ParseTargetPattern(cur, printed)
			trans++
			if err2 != nil {
				vrep.Violation("pattern-print-unparsable", fmt.Sprintf("pattern %q (pkg %q) prints as %q which does not parse: %v", s, cur, printed, err2), map[string]any{"cur": cur, "pattern": s})
			} else if got2 := matchSet(p2.Matches); got2 != got {
				vrep.Violation("pattern-print-parse-set", fmt.Sprintf("pattern %q (pkg %q) matches %v but its printed form %q matches %v", s, cur, setLabels(got), printed, setLabels(got2)), map[string]any{"cur": cur, "pattern": s})
			}
		}
	}
	var sb strings.Builder
	rec = func() {
		if len(idx) > 0 {
			sb.Reset()
			for _, i := range idx {
				sb.WriteString(tokens[i])
			}
			check(sb.String())
		}
		if len(idx) == maxLen {
			return
		}
		for i := range tokens {
			idx = append(idx, i)
			rec()
			idx = idx[:len(idx)-1]
		}
	}
	if rp := replayCase(); rp != nil {
		check(rp.s)
	} else {
		rec()
		if maxLen < 7 {
			// every string of exactly 6 and 7 tokens that is a path of three components, with every suffix
			// form (the shorthand //x/y/z, explicit names, wildcards): deeper than the token bound reaches
			words := []string{"a", "b", "ab", "all"}
			for _, w1 := range words {
				for _, w2 := range words {
					for _, w3 := range words {
						path := "//" + w1 + "/" + w2 + "/" + w3
						for _, suffix := range []string{"", ":" + w3, ":a", ":all", ":...", "/...", "/...:a"} {
							if strings.Count(path+suffix, "/")+strings.Count(suffix, ":") >= 0 {
								check(path + suffix)
							}
						}
					}
				}
			}
		}
	}
	_ = sort.Strings
	vrep.Counts(evals, strs, trans, evals)
	vrep.Sample(map[string]any{"string": "//a/...:b", "as_pattern_in_pkg_a_matches": setLabels(func() string { p, _ := label.ParseTargetPattern("a", "//a/...:b"); return matchSet(p.Matches) }())})
	vrep.Sample(map[string]any{"string": ":ab", "as_label_in_pkg_a/b": func() string { l, _ := label.ParseTargetLabel("a/b", ":ab"); return l.String() }()})
	vrep.Set("max_tokens", maxLen)
	vrep.Set("token_alphabet", tokens)
	vrep.Set("label_universe", len(universe))
	vrep.Done()
}

func patternSig(r refPattern) string {
	switch {
	case r.recursive && r.name == "":
		return "pattern-recursive-set"
	case r.recursive:
		return "pattern-recursive-name-set"
	case r.name == "":
		return "pattern-package-all-set"
	default:
		return "pattern-exact-set"
	}
}
