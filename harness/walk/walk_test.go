// Package walk explores the composition used by Executor.Execute — the real
// dag.Walker whose callback runs the task in the real worker.TaskWorkerPool —
// under every schedule with a bounded number of deviations. One binary serves
// C03 (ordering / once / num_workers), C04 (termination, resolution, no crash),
// C05 (failure containment) and C18 (cancellation); VERIF_PROP selects which
// oracle signatures are reported.
package walk

import (
	"context"
	"errors"
	"fmt"
	"os"
	"sort"
	"strings"
	"sync"
	"testing"
	"time"

	tea "github.com/charmbracelet/bubbletea"
	"go.uber.org/zap"
	"go.uber.org/zap/zapcore"

	"grog/internal/config"
	"grog/internal/console"
	"grog/internal/dag"
	"grog/internal/label"
	"grog/internal/model"
	"grog/internal/worker"
	"grog/internal/zverif/explore"
	"grog/internal/zverif/vrep"
	"grog/internal/zverif/vs"
)

type graphSpec struct {
	Name       string
	N          int
	Edges      [][2]int // dep -> dependant
	Alias      map[int]bool
	Unselected map[int]bool
}

var graphs = []graphSpec{
	{Name: "single", N: 1},
	{Name: "chain2", N: 2, Edges: [][2]int{{0, 1}}},
	{Name: "vee", N: 3, Edges: [][2]int{{0, 2}}},
	{Name: "chain3", N: 3, Edges: [][2]int{{0, 1}, {1, 2}}},
	{Name: "fork", N: 3, Edges: [][2]int{{0, 1}, {0, 2}}},
	{Name: "join", N: 3, Edges: [][2]int{{0, 2}, {1, 2}}},
	{Name: "alias-mid", N: 3, Edges: [][2]int{{0, 1}, {1, 2}}, Alias: map[int]bool{1: true}},
	{Name: "unselected", N: 3, Edges: [][2]int{{0, 1}}, Unselected: map[int]bool{2: true}},
	{Name: "diamond", N: 4, Edges: [][2]int{{0, 1}, {0, 2}, {1, 3}, {2, 3}}},
	{Name: "two-chains", N: 4, Edges: [][2]int{{0, 1}, {2, 3}}},
	{Name: "tri", N: 3, Edges: [][2]int{{0, 1}, {0, 2}, {1, 2}}},
	// fan-in of three: a dependant must wait for ALL of its dependencies, whatever their completion order
	{Name: "join3", N: 4, Edges: [][2]int{{0, 3}, {1, 3}, {2, 3}}},
	// more ready targets than workers: callers park inside the pool's queue
	{Name: "indep3", N: 3},
	{Name: "indep4", N: 4},
	// diamond with a tail below a (possibly failing) root: every descendant must be cancelled exactly once
	{Name: "diamond-tail", N: 5, Edges: [][2]int{{0, 1}, {0, 2}, {1, 3}, {2, 3}, {3, 4}}},
	// a shortcut edge listed BEFORE a sibling: traversals that stop at an already visited node lose t2
	{Name: "shortcut", N: 4, Edges: [][2]int{{0, 1}, {1, 3}, {0, 3}, {0, 2}}},
}

type scenario struct {
	Graph    string `json:"graph"`
	Fail     []int  `json:"fail"` // nodes whose command fails
	FailFast bool   `json:"fail_fast"`
	Workers  int    `json:"workers"`
	Signal   bool   `json:"signal"`   // an external cancel (SIGINT) arrives at an arbitrary point
	ErrKind  string `json:"err_kind"` // "plain" | "canceled" (context.Canceled although nothing was cancelled)
	// Tick: the fake clock may advance by one second at any scheduling point although goroutines could run
	// (one more alternative per point; only for scenarios in which callers wait inside the pool's queue,
	// whose 1 s back-stop timer may fire while commands are still running)
	Tick bool `json:"early_clock_tick,omitempty"`
}

func (s scenario) name() string {
	n := fmt.Sprintf("%s/fail=%v/ff=%v/w=%d/sig=%v/%s", s.Graph, s.Fail, s.FailFast, s.Workers, s.Signal, s.ErrKind)
	if s.Tick {
		n += "/tick"
	}
	return n
}

func specOf(name string) graphSpec {
	for _, g := range graphs {
		if g.Name == name {
			return g
		}
	}
	panic("unknown graph " + name)
}

type event struct {
	kind string // start, end, fail, signal, routine-exit, walk-return
	node int
	seq  int
}

func nodeLabel(i int) label.TargetLabel { return label.TL("p", fmt.Sprintf("t%d", i)) }

var nopLogger = console.NewFromSugared(zap.NewNop().Sugar(), zapcore.ErrorLevel)

func (sc scenario) run(t *testing.T, cfg vs.Config) explore.Exec {
	g := specOf(sc.Graph)
	failing := map[int]bool{}
	for _, f := range sc.Fail {
		failing[f] = true
	}
	var mu sync.Mutex
	var events []event
	seq := 0
	logEv := func(kind string, node int) {
		mu.Lock()
		seq++
		events = append(events, event{kind, node, seq})
		mu.Unlock()
	}
	running, maxRunning := 0, 0
	var completions dag.CompletionMap
	var walkErr error
	walkReturned := false

	res := vs.Run(t, cfg, func() {
		config.Global.DisableNonDeterministicLogging = true
		config.Global.NumWorkers = sc.Workers
		nodes := make([]model.BuildNode, g.N)
		for i := 0; i < g.N; i++ {
			if g.Alias[i] {
				nodes[i] = &model.Alias{Label: nodeLabel(i), IsSelected: !g.Unselected[i]}
			} else {
				nodes[i] = &model.Target{Label: nodeLabel(i), IsSelected: !g.Unselected[i], Command: "true"}
			}
		}
		graph := dag.NewDirectedGraphFromTargets(nodes...)
		for _, e := range g.Edges {
			if err := graph.AddEdge(nodes[e[0]], nodes[e[1]]); err != nil {
				panic(err)
			}
		}
		idx := map[label.TargetLabel]int{}
		for i := range nodes {
			idx[nodes[i].GetLabel()] = i
		}
		rootCtx, cancel := context.WithCancel(console.WithLogger(context.Background(), nopLogger))
		defer cancel()
		pool := worker.NewTaskWorkerPool[dag.CacheResult](nopLogger, sc.Workers, func(tea.Msg) {}, g.N)
		pool.StartWorkers(rootCtx)
		defer pool.Shutdown()
		if sc.Signal {
			vs.Go("signal", func() {
				vs.Point("signal")
				logEv("signal", -1)
				cancel()
			})
		}
		cb := func(ctx context.Context, node model.BuildNode) (dag.CacheResult, error) {
			i := idx[node.GetLabel()]
			vs.OnThreadExit(func() { logEv("routine-exit", i) })
			if _, ok := node.(*model.Target); !ok {
				return dag.CacheHit, nil
			}
			return pool.Run(func(update worker.StatusFunc) (dag.CacheResult, error) {
				// like exec.CommandContext: a command does not start under a cancelled context
				if ctx.Err() != nil {
					return dag.CacheMiss, ctx.Err()
				}
				mu.Lock()
				running++
				if running > maxRunning {
					maxRunning = running
				}
				mu.Unlock()
				logEv("start", i)
				vs.Point(fmt.Sprintf("cmd:t%d", i)) // the command takes any number of other steps
				mu.Lock()
				running--
				mu.Unlock()
				if ctx.Err() != nil {
					logEv("killed", i)
					return dag.CacheMiss, ctx.Err()
				}
				if failing[i] {
					logEv("fail", i)
					if sc.ErrKind == "canceled" {
						return dag.CacheMiss, fmt.Errorf("backend: %w", context.Canceled)
					}
					return dag.CacheMiss, fmt.Errorf("command of t%d failed", i)
				}
				logEv("end", i)
				return dag.CacheMiss, nil
			})
		}
		walker := dag.NewWalker(graph, cb, sc.FailFast)
		completions, walkErr = walker.Walk(rootCtx)
		// snapshot under the harness lock: the map may still be written by node routines
		walkReturned = true
		logEv("walk-return", -1)
	})

	ex := explore.Exec{Res: res}
	add := func(sig, format string, a ...any) {
		ex.Findings = append(ex.Findings, explore.Finding{Sig: sig, Detail: fmt.Sprintf(format, a...)})
	}
	// ---------- oracles ----------
	deps := map[int][]int{}
	dependants := map[int][]int{}
	for _, e := range g.Edges {
		deps[e[1]] = append(deps[e[1]], e[0])
		dependants[e[0]] = append(dependants[e[0]], e[1])
	}
	var transDeps func(i int, acc map[int]bool)
	transDeps = func(i int, acc map[int]bool) {
		for _, d := range deps[i] {
			if !acc[d] {
				acc[d] = true
				transDeps(d, acc)
			}
		}
	}
	var descendants func(i int, acc map[int]bool)
	descendants = func(i int, acc map[int]bool) {
		for _, d := range dependants[i] {
			if !acc[d] {
				acc[d] = true
				descendants(d, acc)
			}
		}
	}
	mu.Lock()
	evs := append([]event{}, events...)
	mu.Unlock()
	started := map[int]int{}
	ended := map[int]int{}
	failedAt := map[int]int{}
	signalAt, walkReturnAt := 0, 0
	routineExit := map[int]int{}
	var trace []string
	for _, e := range evs {
		trace = append(trace, fmt.Sprintf("%s(%d)", e.kind, e.node))
		switch e.kind {
		case "start":
			if started[e.node] != 0 {
				add("C03:target-executed-twice", "t%d started twice; trace %v", e.node, trace)
			}
			started[e.node] = e.seq
			td := map[int]bool{}
			transDeps(e.node, td)
			for d := range td {
				if g.Alias[d] {
					continue
				}
				if ended[d] == 0 {
					add("C03:started-before-dependency-finished", "t%d started although its dependency t%d has not finished successfully; trace %v", e.node, d, trace)
				}
			}
			if g.Unselected[e.node] {
				add("C12:unselected-target-executed", "t%d is not selected but was executed", e.node)
			}
			if signalAt != 0 {
				add("C18:start-after-interrupt", "t%d started after the interrupt was delivered; trace %v", e.node, trace)
			}
		case "end":
			ended[e.node] = e.seq
		case "fail":
			failedAt[e.node] = e.seq
		case "signal":
			signalAt = e.seq
		case "walk-return":
			walkReturnAt = e.seq
		case "routine-exit":
			routineExit[e.node] = e.seq
		}
	}
	if maxRunning > sc.Workers {
		add("C03:more-than-num-workers-running", "%d commands ran at the same time with num_workers=%d", maxRunning, sc.Workers)
	}
	for _, p := range res.Panics {
		add("C04:panic", "%s", p)
	}
	for _, r := range res.Races {
		add("C04:unsynchronised-map-access:"+strings.SplitN(r, ":", 2)[0], "%s (a concurrent map read/write is a fatal runtime error in some schedule)", r)
	}
	if res.Deadlock || !walkReturned {
		if !res.StepLimit && res.Divergence == "" {
			add("C04:walk-never-returns", "Walk did not return: nothing can run any more; blocked: %s; trace %v", strings.Join(res.Blocked, "; "), trace)
		}
	} else {
		// resolution: every selected node is completed, or skipped because an
		// ancestor failed / the build was cancelled
		failedNodes := map[int]bool{}
		for i := 0; i < g.N; i++ {
			if c, ok := completions[nodeLabel(i)]; ok && !c.IsSuccess {
				failedNodes[i] = true
			}
		}
		cancelled := signalAt != 0 || (sc.FailFast && len(failedNodes) > 0) || errors.Is(walkErr, context.Canceled)
		for i := 0; i < g.N; i++ {
			if g.Unselected[i] {
				if _, ok := completions[nodeLabel(i)]; ok {
					add("C12:unselected-target-completed", "t%d is not selected but has a completion", i)
				}
				continue
			}
			c, ok := completions[nodeLabel(i)]
			if ok {
				if c.IsSuccess && !g.Alias[i] && ended[i] == 0 {
					add("C05:success-without-execution", "t%d reported successful but its command did not end successfully; trace %v", i, trace)
				}
				if c.IsSuccess && failing[i] && started[i] != 0 {
					add("C05:failed-target-reported-successful", "t%d failed but is reported successful", i)
				}
				continue
			}
			anc := map[int]bool{}
			transDeps(i, anc)
			skippedByFailure := false
			for a := range anc {
				if failedNodes[a] || (failing[a] && sc.ErrKind == "canceled") {
					skippedByFailure = true
				}
			}
			if !skippedByFailure && !cancelled && !(failing[i] && sc.ErrKind == "canceled") {
				add("C04:selected-target-unresolved", "Walk returned but t%d neither completed nor was skipped because of a failed dependency or a cancellation; completions=%d trace %v", i, len(completions), trace)
			}
		}
		if !cancelled && sc.ErrKind == "plain" {
			// keep-going containment: executed = selected \ (failed ∪ descendants(failed))
			blocked := map[int]bool{}
			for f := range failing {
				if g.Unselected[f] {
					continue
				}
				// a failing node only counts if it could run (no failing ancestor)
				blocked[f] = true
				descendants(f, blocked)
			}
			for i := 0; i < g.N; i++ {
				if g.Unselected[i] || g.Alias[i] {
					continue
				}
				if failing[i] {
					anc := map[int]bool{}
					transDeps(i, anc)
					hasFailingAnc := false
					for a := range anc {
						if failing[a] {
							hasFailingAnc = true
						}
					}
					if !hasFailingAnc && started[i] == 0 {
						add("C05:independent-target-not-built", "t%d has no failed dependency but was never started; trace %v", i, trace)
					}
					if hasFailingAnc && started[i] != 0 {
						add("C05:dependant-of-failed-target-executed", "t%d depends on a failed target but was executed; trace %v", i, trace)
					}
					continue
				}
				if blocked[i] && started[i] != 0 {
					add("C05:dependant-of-failed-target-executed", "t%d transitively depends on a failed target but was executed; trace %v", i, trace)
				}
				if !blocked[i] && ended[i] == 0 {
					add("C05:independent-target-not-built", "t%d does not depend on any failed target but was not built; trace %v", i, trace)
				}
			}
			if len(failedNodes) == 0 && len(sc.Fail) > 0 {
				anySelectedFail := false
				for _, f := range sc.Fail {
					if !g.Unselected[f] {
						anySelectedFail = true
					}
				}
				if anySelectedFail {
					add("C05:failure-not-reported", "targets %v failed but the completion map reports no failure", sc.Fail)
				}
			}
			if len(failedNodes) == 0 && walkErr != nil {
				add("C04:spurious-walk-error", "Walk returned %v although nothing failed or was cancelled", walkErr)
			}
		}
		if sc.FailFast && sc.ErrKind == "plain" && signalAt == 0 {
			// no target starts after the failing node's routine has finished
			// (its completion has been recorded and the walk cancelled by then)
			first := 0
			for f := range failing {
				if x := routineExit[f]; x != 0 && failedAt[f] != 0 && (first == 0 || x < first) {
					first = x
				}
			}
			if first != 0 {
				for i, s := range started {
					if s > first {
						add("C05:start-after-fail-fast", "fail-fast: t%d started after the first failure had been recorded; trace %v", i, trace)
					}
				}
			}
		}
		if signalAt != 0 && walkReturnAt != 0 {
			if walkErr == nil && !(sc.FailFast && len(failedNodes) > 0) {
				// an interrupt before Walk returned must surface as an error unless everything had completed already
				all := true
				for i := 0; i < g.N; i++ {
					if !g.Unselected[i] {
						if _, ok := completions[nodeLabel(i)]; !ok {
							// skipped because a dependency failed counts as resolved
							anc := map[int]bool{}
							transDeps(i, anc)
							skipped := false
							for a := range anc {
								if failedNodes[a] {
									skipped = true
								}
							}
							if !skipped {
								all = false
							}
						}
					}
				}
				if !all && signalAt < walkReturnAt {
					add("C18:interrupt-swallowed", "the build was interrupted with unfinished targets but Walk returned no error; trace %v", trace)
				}
			}
		}
	}
	sort.Strings(trace)
	var ord []string
	for _, e := range evs {
		if e.kind == "start" || e.kind == "fail" || e.kind == "end" || e.kind == "signal" || e.kind == "walk-return" {
			ord = append(ord, fmt.Sprintf("%s%d", e.kind[:1], e.node))
		}
	}
	ex.Outcome = fmt.Sprintf("%s|dead=%v|err=%v|n=%d", strings.Join(ord, ","), res.Deadlock, walkErr != nil, len(completions))
	ex.Nontrivial = len(evs) > 2
	return ex
}

func (sc scenario) scenario() explore.Scenario {
	es := explore.Scenario{Name: sc.name(), Desc: sc, Run: sc.run, Horizon: 3, MaxSteps: 4000}
	if sc.Tick {
		es.ClockChoices = 1
	}
	return es
}

func subsets(n int, maxSize int) [][]int {
	var out [][]int
	for m := 0; m < 1<<n; m++ {
		var s []int
		for i := 0; i < n; i++ {
			if m&(1<<i) != 0 {
				s = append(s, i)
			}
		}
		if len(s) <= maxSize {
			out = append(out, s)
		}
	}
	return out
}

func scenarios(prop string, thorough bool) []scenario {
	var out []scenario
	for _, g := range graphs {
		maxFail := 1
		if thorough {
			maxFail = 2
		}
		for _, fail := range subsets(g.N, maxFail) {
			skip := false
			for _, f := range fail {
				if g.Alias[f] {
					skip = true
				}
			}
			if skip {
				continue
			}
			for _, ff := range []bool{false, true} {
				if ff && len(fail) == 0 {
					continue
				}
				for _, w := range []int{1, 2} {
					if w == 1 && !(g.Name == "fork" || g.Name == "two-chains" || g.Name == "join" || g.Name == "indep3" || g.Name == "indep4" || g.Name == "join3") {
						continue
					}
					switch prop {
					case "C03":
						if len(fail) > 1 || ff {
							continue
						}
					case "C05":
						if len(fail) == 0 {
							continue
						}
					}
					sig := prop == "C18"
					out = append(out, scenario{Graph: g.Name, Fail: fail, FailFast: ff, Workers: w, Signal: sig, ErrKind: "plain"})
				}
			}
		}
	}
	return out
}

func TestVerif(t *testing.T) {
	prop := os.Getenv("VERIF_PROP")
	if prop == "" {
		prop = "C04"
	}
	bound := vrep.EnvInt("VERIF_BOUND", 2)
	budget := time.Duration(vrep.EnvInt("VERIF_BUDGET_S", 60)) * time.Second
	deadline := time.Now().Add(budget)
	if rp := explore.ReplayFromEnv(); rp != nil {
		all := scenarios(prop, true)
		for _, sc := range scenarios(prop, true) {
			sc.Tick = true
			all = append(all, sc)
		}
		for _, sc := range all {
			if sc.name() == rp.Scenario {
				explore.RunReplay(t, sc.scenario(), rp.Choices)
			}
		}
		vrep.Done()
		return
	}
	scs := interleaveByGraph(scenarios(prop, vrep.Thorough()))
	// the early-clock-tick variants (about three times as many schedules per bound) come after all plain
	// scenarios: a wall-clock cap at the highest bound then costs tick variants first
	for _, sc := range scs {
		if sc.Workers == 1 && (sc.Graph == "indep3" || sc.Graph == "indep4" || sc.Graph == "fork") {
			sc.Tick = true
			scs = append(scs, sc)
		}
	}
	only := os.Getenv("VERIF_ONLY")
	var execs, steps int64
	// iterate the bound: every scenario at bound 1, then every scenario at bound
	// 2, ... so that a budget cap always leaves a complete lower bound behind
	completedAll := 0
	for b := 1; b <= bound; b++ {
		done, total := 0, 0
		for _, sc := range scs {
			if only != "" && !strings.Contains(sc.name(), only) {
				continue
			}
			total++
			if time.Now().After(deadline) {
				continue
			}
			st := explore.Explore(t, sc.scenario(), explore.Options{Bound: b, Deadline: deadline})
			execs += st.Execs
			steps += st.Steps
			if !st.Capped {
				done++
			}
		}
		vrep.Set(fmt.Sprintf("scenarios_completed_at_bound_%d", b), fmt.Sprintf("%d of %d", done, total))
		if done == total {
			completedAll = b
		} else {
			vrep.Cap("deviation bound %d completed for %d of %d scenarios within the wall-clock and memory budget (bound %d is complete for all)", b, done, total, completedAll)
			break
		}
	}
	completed := completedAll
	vrep.Counts(execs, execs, steps, execs)
	vrep.Set("deviation_bound", bound)
	vrep.Set("deviation_bound_completed", completed)
	if sh, _ := vrep.Shard(); sh == 0 {
		vrep.AddInt("scenarios", int64(len(scs)))
	}
	if len(scs) > 0 {
		vrep.Sample(map[string]any{"scenario": scs[len(scs)/2], "meaning": "real dag.Walker + real TaskWorkerPool on this graph, all schedules with <= bound deviations"})
	}
	vrep.Done()
}

// interleaveByGraph orders the scenarios round-robin over the graph shapes, so
// that a wall-clock cap at the highest bound still leaves every shape explored
// at that bound for at least its first scenarios.
func interleaveByGraph(scs []scenario) []scenario {
	by := map[string][]scenario{}
	var order []string
	for _, sc := range scs {
		if _, ok := by[sc.Graph]; !ok {
			order = append(order, sc.Graph)
		}
		by[sc.Graph] = append(by[sc.Graph], sc)
	}
	var out []scenario
	for i := 0; len(out) < len(scs); i++ {
		for _, g := range order {
			if i < len(by[g]) {
				out = append(out, by[g][i])
			}
		}
	}
	return out
}
