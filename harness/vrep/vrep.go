// Package vrep is the harness side of the vcheck result protocol: harness test
// binaries print "@@V {json}" lines which the driver merges into the evidence.
package vrep

import (
	"encoding/json"
	"fmt"
	"hash/fnv"
	"os"
	"strconv"
	"sync"
)

var mu sync.Mutex

// out is captured at start-up: harnesses may redirect os.Stdout later to keep
// output of the code under test away from the protocol stream.
var out = os.Stdout

func emit(m map[string]any) {
	b, err := json.Marshal(m)
	if err != nil {
		b, _ = json.Marshal(map[string]any{"t": "broken", "msg": "unmarshalable message: " + err.Error()})
	}
	mu.Lock()
	out.Write(append(append([]byte("@@V "), b...), '\n'))
	mu.Unlock()
}

func Counts(evals, states, transitions, traces int64) {
	emit(map[string]any{"t": "counts", "evals": evals, "states": states, "transitions": transitions, "traces": traces})
}

// KeySet de-duplicates keys locally (by 64-bit hash) and flushes them in batches.
type KeySet struct {
	kind string
	mu   sync.Mutex
	seen map[uint64]struct{}
	buf  []string
}

func NewKeySet(kind string) *KeySet { return &KeySet{kind: kind, seen: map[uint64]struct{}{}} }

func (k *KeySet) Add(key string) {
	h := fnv.New64a()
	h.Write([]byte(key))
	s := h.Sum64()
	k.mu.Lock()
	defer k.mu.Unlock()
	if _, ok := k.seen[s]; ok {
		return
	}
	k.seen[s] = struct{}{}
	k.buf = append(k.buf, strconv.FormatUint(s, 36))
	if len(k.buf) >= 2000 {
		k.flushLocked()
	}
}

func (k *KeySet) Len() int { k.mu.Lock(); defer k.mu.Unlock(); return len(k.seen) }

func (k *KeySet) flushLocked() {
	if len(k.buf) > 0 {
		emit(map[string]any{"t": k.kind, "keys": k.buf})
		k.buf = nil
	}
}

func (k *KeySet) Flush() { k.mu.Lock(); k.flushLocked(); k.mu.Unlock() }

var (
	Nontrivial = NewKeySet("nontrivial")
	Outcomes   = NewKeySet("outcome")
	samples    int
	vioMu      sync.Mutex
	vioSeen    = map[string]int{}
)

func Sample(v any) {
	mu.Lock()
	samples++
	n := samples
	mu.Unlock()
	if n <= 4 {
		emit(map[string]any{"t": "sample", "v": v})
	}
}

// Violation reports a counter-example; at most a few per signature are sent.
func Violation(sig, detail string, replay any) {
	vioMu.Lock()
	vioSeen[sig]++
	n := vioSeen[sig]
	vioMu.Unlock()
	if n <= EnvInt("VERIF_MAXVIOL", 3) {
		emit(map[string]any{"t": "violation", "sig": sig, "detail": detail, "replay": replay})
	}
}

func ViolationCount() int {
	vioMu.Lock()
	defer vioMu.Unlock()
	n := 0
	for _, c := range vioSeen {
		n += c
	}
	return n
}

func Cap(format string, a ...any) { emit(map[string]any{"t": "cap", "msg": fmt.Sprintf(format, a...)}) }
func Broken(format string, a ...any) {
	emit(map[string]any{"t": "broken", "msg": fmt.Sprintf(format, a...)})
}
func Log(format string, a ...any) { emit(map[string]any{"t": "log", "msg": fmt.Sprintf(format, a...)}) }
func Set(k string, v any)         { emit(map[string]any{"t": "set", "k": k, "v": v}) }
func AddInt(k string, n int64)    { emit(map[string]any{"t": "addint", "k": k, "n": n}) }

func Done() {
	Nontrivial.Flush()
	Outcomes.Flush()
	emit(map[string]any{"t": "done"})
}

func Tier() string {
	if t := os.Getenv("VERIF_TIER"); t != "" {
		return t
	}
	return "quick"
}

func Thorough() bool { return Tier() == "thorough" }

func Shard() (int, int) {
	i, _ := strconv.Atoi(os.Getenv("VERIF_SHARD"))
	n, _ := strconv.Atoi(os.Getenv("VERIF_SHARDS"))
	if n < 1 {
		n = 1
	}
	return i, n
}

func EnvInt(name string, def int) int {
	if v, err := strconv.Atoi(os.Getenv(name)); err == nil {
		return v
	}
	return def
}
