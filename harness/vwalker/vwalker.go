// Package vwalker replaces github.com/boyter/gocodewalker in the instrumented
// loading/load.go: it emits the same files, in an order chosen by the
// scheduler (canonical = sorted; any permutation is one deviation), with a
// scheduling point before every send.
package vwalker

import (
	"os"
	"path/filepath"
	"sort"

	"grog/internal/zverif/vs"
)

type File struct {
	Location string
	Filename string
}

type FileWalker struct {
	dirs []string
	ch   chan *File
}

func NewParallelFileWalker(dirs []string, ch chan *File) *FileWalker {
	return &FileWalker{dirs: dirs, ch: ch}
}

func (w *FileWalker) Start() error {
	var files []string
	for _, d := range w.dirs {
		filepath.Walk(d, func(p string, info os.FileInfo, err error) error {
			if err == nil && !info.IsDir() {
				files = append(files, p)
			}
			return nil
		})
	}
	sort.Strings(files)
	byName := map[string]string{}
	for _, f := range files {
		byName[f] = f
	}
	for _, f := range vs.MapOrder(byName, "walk-order") {
		vs.Point("walker.send")
		w.ch <- &File{Location: f, Filename: filepath.Base(f)}
	}
	vs.MarkClosed(w.ch)
	close(w.ch)
	return nil
}
