// Package c16sched runs the real loading.LoadPackages (parallel walk, packages
// merged under a mutex) under the controlled scheduler: every order in which
// the walker can deliver the BUILD files and every interleaving of the loader
// workers with a bounded number of deviations must give the same package set /
// the same accept-reject verdict, without unsynchronised access to the shared
// package map.
package c16sched

import (
	"context"
	"fmt"
	"os"
	"path/filepath"
	"sort"
	"strings"
	"testing"
	"time"

	"go.uber.org/zap"
	"go.uber.org/zap/zapcore"

	"grog/internal/config"
	"grog/internal/console"
	"grog/internal/loading"
	"grog/internal/model"
	"grog/internal/zverif/explore"
	"grog/internal/zverif/vrep"
	"grog/internal/zverif/vs"
)

type scenario struct {
	Name    string            `json:"name"`
	Workers int               `json:"workers"`
	Files   map[string]string `json:"files"`
	Reject  bool              `json:"must_be_rejected"`
}

var nop = console.NewFromSugared(zap.NewNop().Sugar(), zapcore.ErrorLevel)
var scratch string

func tgt(name string) string {
	return fmt.Sprintf(`{"targets":[{"name":%q,"command":"true"}]}`, name)
}

func scenarios() []scenario {
	three := map[string]string{
		"grog.toml":      "",
		"pkg/BUILD.json": tgt("a"),
		"pkg/BUILD.yaml": "targets:\n  - name: b\n    command: \"true\"\n",
		"pkg/Makefile":   "# @grog\n# inputs:\n#   - x\nc:\n\t@true\n",
		"q/BUILD.json":   tgt("q"),
	}
	dup := map[string]string{
		"grog.toml":      "",
		"pkg/BUILD.json": tgt("a"),
		"pkg/BUILD.yaml": "targets:\n  - name: a\n    command: \"true\"\n",
		"pkg/Makefile":   "# @grog\nc:\n\t@true\n",
	}
	aliasDup := map[string]string{
		"grog.toml":      "",
		"pkg/BUILD.json": `{"targets":[{"name":"real","command":"true"}],"aliases":[{"name":"x","actual":":real"}]}`,
		"pkg/BUILD.yaml": "targets:\n  - name: x\n    command: \"true\"\n",
		"pkg/Makefile":   "# @grog\nc:\n\t@true\n",
	}
	var out []scenario
	for _, w := range []int{2, 3} {
		out = append(out, scenario{"three-files-one-package", w, three, false})
		out = append(out, scenario{"duplicate-target-across-files", w, dup, true})
		out = append(out, scenario{"alias-vs-target-across-files", w, aliasDup, true})
	}
	return out
}

func (sc scenario) name() string { return fmt.Sprintf("%s/workers=%d", sc.Name, sc.Workers) }

var firstOutcome = map[string]string{}

func (sc scenario) run(t *testing.T, cfg vs.Config) explore.Exec {
	dir, err := os.MkdirTemp(scratch, "ws")
	if err != nil {
		panic(err)
	}
	defer os.RemoveAll(dir)
	for p, c := range sc.Files {
		os.MkdirAll(filepath.Dir(filepath.Join(dir, p)), 0o755)
		os.WriteFile(filepath.Join(dir, p), []byte(c), 0o644)
	}
	config.Global.WorkspaceRoot = dir
	config.Global.NumWorkers = sc.Workers
	var labels []string
	var loadErr error
	res := vs.Run(t, cfg, func() {
		ctx := console.WithLogger(context.Background(), nop)
		pkgs, err := loading.LoadPackages(ctx, dir)
		if err == nil {
			// the same steps MustLoadGraphForBuild performs after loading
			var nodes model.BuildNodeMap
			nodes, err = model.BuildNodeMapFromPackages(pkgs)
			for l := range nodes {
				labels = append(labels, l.String())
			}
		}
		loadErr = err
	})
	sort.Strings(labels)
	ex := explore.Exec{Res: res}
	add := func(sig, format string, a ...any) {
		ex.Findings = append(ex.Findings, explore.Finding{Sig: sig, Detail: fmt.Sprintf(format, a...)})
	}
	for _, r := range res.Races {
		add("C16:unsynchronised-access-while-merging-packages", "%s", r)
	}
	for _, p := range res.Panics {
		add("C16:panic-while-loading", "%s", p)
	}
	if res.Deadlock {
		add("C16:load-never-returns", "LoadPackages did not return; blocked: %s", strings.Join(res.Blocked, "; "))
	}
	verdict := "accepted:" + strings.Join(labels, ",")
	if loadErr != nil {
		verdict = "rejected"
	}
	if !res.Deadlock {
		if sc.Reject && loadErr == nil {
			add("C16:duplicate-label-accepted-under-some-load-order", "the workspace defines a label twice but was accepted with nodes %v under this walk order / interleaving", labels)
		}
		if !sc.Reject && loadErr != nil {
			add("C16:valid-workspace-rejected-under-some-load-order", "LoadPackages failed: %v", loadErr)
		}
		if first, ok := firstOutcome[sc.name()]; ok && first != verdict {
			add("C16:loaded-graph-depends-on-walk-order-or-interleaving", "this execution gives %q, the canonical schedule gave %q", verdict, first)
		} else if !ok {
			firstOutcome[sc.name()] = verdict
		}
	}
	ex.Outcome = verdict
	ex.Nontrivial = true
	return ex
}

func TestVerif(t *testing.T) {
	base := "/dev/shm"
	if _, err := os.Stat(base); err != nil {
		base = os.TempDir()
	}
	var err error
	scratch, err = os.MkdirTemp(base, "vcheck-c16s-")
	if err != nil {
		vrep.Broken("mkdtemp: %v", err)
		return
	}
	defer os.RemoveAll(scratch)
	devnull, _ := os.OpenFile(os.DevNull, os.O_WRONLY, 0)
	os.Stdout = devnull // LoadPackages prints the first error
	bound := vrep.EnvInt("VERIF_BOUND", 2)
	deadline := time.Now().Add(time.Duration(vrep.EnvInt("VERIF_BUDGET_S", 25)) * time.Second)
	scs := scenarios()
	mk := func(sc scenario) explore.Scenario {
		return explore.Scenario{Name: sc.name(), Desc: map[string]any{"name": sc.Name, "workers": sc.Workers}, Run: sc.run, Horizon: 2, MaxSteps: 4000}
	}
	if rp := explore.ReplayFromEnv(); rp != nil {
		for _, sc := range scs {
			if sc.name() == rp.Scenario {
				explore.RunReplay(t, mk(sc), rp.Choices)
			}
		}
		vrep.Done()
		return
	}
	var execs, steps int64
	completed := 0
	for b := 1; b <= bound; b++ {
		done := 0
		for _, sc := range scs {
			if time.Now().After(deadline) {
				continue
			}
			st := explore.Explore(t, mk(sc), explore.Options{Bound: b, Deadline: deadline})
			execs += st.Execs
			steps += st.Steps
			if !st.Capped {
				done++
			}
		}
		if done == len(scs) {
			completed = b
		} else {
			vrep.Cap("load schedules: deviation bound %d completed for %d of %d scenarios (bound %d complete for all)", b, done, len(scs), completed)
			break
		}
	}
	vrep.Counts(execs, execs, steps, execs)
	vrep.Set("load_schedules_deviation_bound_completed", completed)
	vrep.Done()
}
