// C06: cached outputs are restored exactly, from any workspace state.
//
// Bounded-exhaustive enumeration, in process, through the real output registry
// (WriteOutputs / LoadOutputs incl. target result validation), the real file
// and directory handlers and a real file-system backed CAS:
//
//	for every output case (directory tree | single file | bin_output | several outputs)
//	  materialise it, cache it with Registry.WriteOutputs, snapshot the listing
//	  for every prior destination state derivable from the case
//	    rebuild the workspace, apply the prior state, Registry.LoadOutputs with a fresh target
//	    listing after restore must equal the listing at cache time; Load must return nil
package c06

import (
	"context"
	"crypto/sha256"
	"encoding/json"
	"errors"
	"fmt"
	"io/fs"
	"os"
	"path/filepath"
	"runtime"
	"runtime/debug"
	"sort"
	"strings"
	"syscall"
	"testing"
	"time"

	"go.uber.org/zap"
	"go.uber.org/zap/zapcore"

	"grog/internal/caching"
	"grog/internal/caching/backends"
	"grog/internal/config"
	"grog/internal/console"
	"grog/internal/label"
	"grog/internal/model"
	"grog/internal/output"
	"grog/internal/proto/gen"
	"grog/internal/zverif/vrep"
)

// ---------------------------------------------------------------- case model

// node is one entry of a directory tree (or the single file of a file output).
type node struct {
	K  string  `json:"k"`           // "f" regular file, "d" directory, "l" symlink
	N  string  `json:"n"`           // entry name
	C  string  `json:"c,omitempty"` // file content ("@large" = 70001 patterned bytes)
	X  bool    `json:"x,omitempty"` // executable
	T  string  `json:"t,omitempty"` // symlink target
	Ch []*node `json:"ch,omitempty"`
}

// outSpec is one declared output of the target under test.
type outSpec struct {
	Type string  `json:"type"` // "file" | "dir"
	Path string  `json:"path"` // output identifier, relative to the package
	Bin  bool    `json:"bin,omitempty"`
	File *node   `json:"file,omitempty"`
	Tree []*node `json:"tree,omitempty"`
}

type caseSpec struct {
	Family string    `json:"family"`
	Outs   []outSpec `json:"outs"`
}

// mutation is one prior state of the destination, described as a change
// applied to the workspace as it was at cache time.
type mutation struct {
	State string `json:"state"`
	Out   int    `json:"out"`            // index of the affected output (-1: all)
	Path  string `json:"path,omitempty"` // entry inside a directory output ("" = the output itself)
}

func (o outSpec) kind() string {
	if o.Bin {
		return "bin"
	}
	return o.Type
}

func content(c string) []byte {
	if c == "@large" {
		b := make([]byte, 70001)
		for i := range b {
			b[i] = byte(i*7 + i>>8)
		}
		return b
	}
	return []byte(c)
}

func renderNodes(ns []*node) string {
	var parts []string
	for _, n := range ns {
		parts = append(parts, renderNode(n))
	}
	return "{" + strings.Join(parts, ", ") + "}"
}

func renderNode(n *node) string {
	switch n.K {
	case "f":
		c := n.C
		x := ""
		if n.X {
			x = "+x"
		}
		return fmt.Sprintf("%q:file(%q%s)", n.N, c, x)
	case "l":
		return fmt.Sprintf("%q:link->%q", n.N, n.T)
	}
	return fmt.Sprintf("%q:dir%s", n.N, renderNodes(n.Ch))
}

func (c caseSpec) String() string {
	var parts []string
	for _, o := range c.Outs {
		switch {
		case o.Type == "dir":
			parts = append(parts, fmt.Sprintf("dir::%s %s", o.Path, renderNodes(o.Tree)))
		default:
			x := ""
			if o.File.X {
				x = "+x"
			}
			k := "file"
			if o.Bin {
				k = "bin_output file"
			}
			parts = append(parts, fmt.Sprintf("%s::%s (%q%s)", k, o.Path, o.File.C, x))
		}
	}
	return strings.Join(parts, " + ")
}

// ---------------------------------------------------------------- tree enumeration

var namePool = []string{"a", "b", " sp", "ü", "-n"}

// leaf kinds
const (
	kF0 = iota // file ""
	kF0x
	kF1 // file "x"
	kF1x
	kF2 // file "xx"
	kF2x
	kEmptyDir
	kLinkRel
	kLinkDangling
	kLinkAbs
	nLeafKinds
)

var leafKindNames = []string{"file-empty", "file-empty+x", "file-x", "file-x+x", "file-xx", "file-xx+x", "empty-dir", "link-rel", "link-dangling", "link-abs"}

// spec is an unnamed tree entry: a leaf kind, or (kind == -1) a non-empty sub-directory.
type spec struct {
	kind int
	sub  []spec
}

type opt struct {
	size int
	s    spec
}

type enumerator struct {
	fan  int
	memo map[[2]int][][]spec
	opts map[int][]opt
	max  int
}

// optsFor returns the entry options available inside a directory that may
// still nest `depth` levels (depth 1 = leaves only).
func (e *enumerator) optsFor(depth int) []opt {
	if o, ok := e.opts[depth]; ok {
		return o
	}
	var out []opt
	for k := 0; k < nLeafKinds; k++ {
		out = append(out, opt{1, spec{kind: k}})
	}
	if depth > 1 {
		for m := 1; m <= e.max-1; m++ {
			for _, sub := range e.contents(m, depth-1) {
				out = append(out, opt{1 + m, spec{kind: -1, sub: sub}})
			}
		}
	}
	e.opts[depth] = out
	return out
}

// contents returns every multiset of <= fan entries with exactly n entries in
// total (sub-directory entries and their contents included) and nesting <= depth.
func (e *enumerator) contents(n, depth int) [][]spec {
	key := [2]int{n, depth}
	if r, ok := e.memo[key]; ok {
		return r
	}
	opts := e.optsFor(depth)
	var out [][]spec
	var cur []spec
	var rec func(start, fanLeft, left int)
	rec = func(start, fanLeft, left int) {
		if left == 0 {
			out = append(out, append([]spec{}, cur...))
			return
		}
		if fanLeft == 0 {
			return
		}
		for i := start; i < len(opts); i++ {
			if opts[i].size > left {
				continue
			}
			cur = append(cur, opts[i].s)
			rec(i, fanLeft-1, left-opts[i].size)
			cur = cur[:len(cur)-1]
		}
	}
	rec(0, e.fan, n)
	e.memo[key] = out
	return out
}

// build assigns names: inside one directory the names are taken from the pool
// by a rotation that depends on the tree index and the nesting level only, so
// that identical sibling sub-directories stay identical (Merkle de-duplication)
// while every (name, kind) combination occurs across the enumeration.
func build(specs []spec, idx, level int) []*node {
	k := len(specs)
	names := make([]string, k)
	for j := 0; j < k; j++ {
		jj := j
		if (idx/5)%2 == 1 {
			jj = k - 1 - j
		}
		names[j] = namePool[(idx+level*2+jj)%len(namePool)]
	}
	var out []*node
	for j, s := range specs {
		n := &node{N: names[j]}
		switch s.kind {
		case -1:
			n.K = "d"
			n.Ch = build(s.sub, idx, level+1)
		case kEmptyDir:
			n.K = "d"
		case kLinkRel:
			n.K = "l"
			if k > 1 {
				n.T = names[(j+1)%k]
			} else {
				n.T = "../" + names[j]
			}
			// link targets are strings, not paths: spellings that a path-cleaning step would change
			// (./x, x/, zz/../x, x//.) must come back exactly
			switch (idx + j) % 5 {
			case 1:
				n.T = "./" + n.T
			case 2:
				n.T = n.T + "/"
			case 3:
				n.T = "zz/../" + n.T
			case 4:
				n.T = n.T + "//."
			}
		case kLinkDangling:
			n.K, n.T = "l", "no/such target"
			if idx%2 == 1 {
				n.T = "no//such/./target"
			}
		case kLinkAbs:
			n.K, n.T = "l", "/dev/null"
		default:
			n.K = "f"
			n.C = []string{"", "x", "xx"}[s.kind/2]
			n.X = s.kind%2 == 1
		}
		out = append(out, n)
	}
	return out
}

// ---------------------------------------------------------------- workspace

type env struct {
	// clean: the package directory currently holds exactly the cached state of
	// cleanFor (left there by WriteOutputs or by a restore that was verified to be exact)
	clean  bool
	ctx    context.Context
	tmp    string
	ws     string
	cas    *caching.Cas
	reg    *output.Registry
	gen    int
	pkg    string
	pkgDir string
}

func newEnv() (*env, error) {
	baseDir := "/dev/shm"
	if _, err := os.Stat(baseDir); err != nil {
		baseDir = os.TempDir()
	}
	tmp, err := os.MkdirTemp(baseDir, "vcheck-c06-")
	if err != nil {
		return nil, err
	}
	e := &env{tmp: tmp, ws: filepath.Join(tmp, "ws")}
	wsRoot = e.ws
	if err := os.MkdirAll(e.ws, 0o755); err != nil {
		return nil, err
	}
	config.Global = config.WorkspaceConfig{Root: filepath.Join(tmp, "grogroot"), WorkspaceRoot: e.ws}
	config.Global.Docker.Backend = config.DockerBackendRegistry // lazy docker client, never used here
	e.ctx = console.WithLogger(context.Background(), console.NewFromSugared(zap.NewNop().Sugar(), zapcore.ErrorLevel))
	backend, err := backends.NewFileSystemCache(e.ctx)
	if err != nil {
		return nil, err
	}
	e.cas = caching.NewCas(backend)
	e.renew()
	return e, nil
}

// renew switches to a fresh registry, label and package directory (used after
// a hung Load, whose goroutines and per-target lock are lost).
func (e *env) renew() {
	e.gen++
	e.reg = output.NewRegistry(e.ctx, e.cas)
	e.pkg = fmt.Sprintf("pkg%d", e.gen)
	e.pkgDir = filepath.Join(e.ws, e.pkg)
	e.clean = false
}

// renewDir moves on to a fresh package directory (used after a failed Load:
// the handlers return on the first error while other goroutines of the same
// Load may still be writing below the old directory).
func (e *env) renewDir() {
	e.gen++
	e.pkg = fmt.Sprintf("pkg%d", e.gen)
	e.pkgDir = filepath.Join(e.ws, e.pkg)
	e.clean = false
}

func (e *env) close() {
	for i := 0; i < 5; i++ {
		if os.RemoveAll(e.tmp) == nil {
			return
		}
		time.Sleep(200 * time.Millisecond) // stragglers of a failed Load
	}
}

func (e *env) target(c caseSpec) *model.Target {
	t := &model.Target{Label: label.TL(e.pkg, "t"), ChangeHash: "change-hash", Command: "true"}
	for _, o := range c.Outs {
		out := model.NewOutput(o.Type, o.Path)
		if o.Bin {
			t.BinOutput = out
		} else {
			t.Outputs = append(t.Outputs, out)
		}
	}
	return t
}

func writeFileNode(p string, n *node) error {
	if err := os.WriteFile(p, content(n.C), 0o644); err != nil {
		return err
	}
	mode := os.FileMode(0o644)
	if n.X {
		// "executable" comes in several modes (chmod +x under umask 077, chmod u+x, install -m 700)
		switch len(content(n.C)) {
		case 1:
			mode = 0o700
		case 2:
			mode = 0o744
		default:
			mode = 0o755
		}
	}
	return os.Chmod(p, mode)
}

func materialiseNodes(dir string, ns []*node) error {
	for _, n := range ns {
		p := filepath.Join(dir, n.N)
		switch n.K {
		case "f":
			if err := writeFileNode(p, n); err != nil {
				return err
			}
		case "l":
			if err := os.Symlink(n.T, p); err != nil {
				return err
			}
		case "d":
			if err := os.Mkdir(p, 0o755); err != nil {
				return err
			}
			if err := materialiseNodes(p, n.Ch); err != nil {
				return err
			}
		}
	}
	return nil
}

// materialise rebuilds the package directory exactly as the build command
// (plus grog's markBinOutputExecutable on the execution path) left it.
func (e *env) materialise(c caseSpec) error {
	if err := os.RemoveAll(e.pkgDir); err != nil {
		return err
	}
	if err := os.MkdirAll(e.pkgDir, 0o755); err != nil {
		return err
	}
	for _, o := range c.Outs {
		p := filepath.Join(e.pkgDir, o.Path)
		if err := os.MkdirAll(filepath.Dir(p), 0o755); err != nil {
			return err
		}
		if o.Type == "dir" {
			if err := os.Mkdir(p, 0o755); err != nil {
				return err
			}
			if err := materialiseNodes(p, o.Tree); err != nil {
				return err
			}
			continue
		}
		if err := writeFileNode(p, o.File); err != nil {
			return err
		}
		if o.Bin {
			// execution.markBinOutputExecutable runs before the outputs are written to the cache
			if err := os.Chmod(p, 0o755); err != nil {
				return err
			}
		}
	}
	return nil
}

// listing: path (relative to the package dir) -> descriptor.
type listing map[string]string

func takeListing(root string) listing {
	l := listing{}
	var walk func(abs, rel string)
	walk = func(abs, rel string) {
		fi, err := os.Lstat(abs)
		if err != nil {
			if rel == "." {
				l[rel] = "absent"
			}
			return
		}
		switch {
		case fi.Mode()&os.ModeSymlink != 0:
			t, _ := os.Readlink(abs)
			l[rel] = "l|" + t
		case fi.IsDir():
			l[rel] = "d"
			ents, _ := os.ReadDir(abs)
			for _, en := range ents {
				r := en.Name()
				if rel != "." {
					r = rel + "/" + en.Name()
				}
				walk(filepath.Join(abs, en.Name()), r)
			}
		case fi.Mode().IsRegular():
			b, _ := os.ReadFile(abs)
			x := "-"
			if fi.Mode()&0o111 != 0 {
				x = "x"
			}
			l[rel] = fmt.Sprintf("f|%s|%d|%x", x, len(b), sha256.Sum256(b))
		default:
			l[rel] = "other|" + fi.Mode().String()
		}
	}
	walk(root, ".")
	return l
}

func (l listing) equal(o listing) bool {
	if len(l) != len(o) {
		return false
	}
	for k, v := range l {
		if o[k] != v {
			return false
		}
	}
	return true
}

func under(p, root string) bool { return p == root || strings.HasPrefix(p, root+"/") }

func (l listing) restrict(root string) listing {
	r := listing{}
	for k, v := range l {
		if under(k, root) {
			r[k] = v
		}
	}
	return r
}

func typeName(desc string) string {
	switch {
	case desc == "":
		return "nothing"
	case desc == "d":
		return "dir"
	case strings.HasPrefix(desc, "f|"):
		return "file"
	case strings.HasPrefix(desc, "l|"):
		return "symlink"
	}
	return "other"
}

type diff struct {
	path, class string
}

// classify compares the expected and the restored listing and names the kind
// of every difference (top-most differing path only for added/removed subtrees).
func classify(exp, got listing) []diff {
	paths := map[string]struct{}{}
	for p := range exp {
		paths[p] = struct{}{}
	}
	for p := range got {
		paths[p] = struct{}{}
	}
	var sorted []string
	for p := range paths {
		sorted = append(sorted, p)
	}
	sort.Strings(sorted)
	hasChildren := func(l listing, p string) bool {
		for q := range l {
			if q != p && under(q, p) {
				return true
			}
		}
		return false
	}
	parent := func(p string) string {
		i := strings.LastIndex(p, "/")
		if i < 0 {
			return "."
		}
		return p[:i]
	}
	var out []diff
	for _, p := range sorted {
		e, g := exp[p], got[p]
		if e == g {
			continue
		}
		te, tg := typeName(e), typeName(g)
		switch {
		case e == "":
			if par := parent(p); p != "." && exp[par] == "" {
				continue // inside an extra subtree already reported
			}
			out = append(out, diff{p, "stale-extra-" + tg + "-survives"})
		case g == "":
			if par := parent(p); p != "." && got[par] == "" {
				continue
			}
			switch te {
			case "dir":
				if hasChildren(exp, p) {
					out = append(out, diff{p, "subdir-lost"})
				} else {
					out = append(out, diff{p, "empty-subdir-lost"})
				}
			default:
				out = append(out, diff{p, te + "-lost"})
			}
		case te != tg:
			out = append(out, diff{p, "entry-type-wrong:want-" + te + "-got-" + tg})
		case te == "file":
			ef, gf := strings.SplitN(e, "|", 3), strings.SplitN(g, "|", 3)
			if ef[2] != gf[2] {
				out = append(out, diff{p, "content-wrong"})
			}
			if ef[1] == "x" && gf[1] != "x" {
				out = append(out, diff{p, "exec-bit-lost"})
			}
			if ef[1] != "x" && gf[1] == "x" {
				out = append(out, diff{p, "exec-bit-gained"})
			}
		case te == "symlink":
			out = append(out, diff{p, "symlink-target-wrong"})
		default:
			out = append(out, diff{p, "entry-differs"})
		}
	}
	return out
}

// ---------------------------------------------------------------- prior states

func mutationsFor(c caseSpec) []mutation {
	ms := []mutation{{State: "identical", Out: -1}}
	if len(c.Outs) > 1 {
		ms = append(ms, mutation{State: "all-outputs-absent", Out: -1})
	}
	for i, o := range c.Outs {
		ms = append(ms, mutation{State: "absent", Out: i})
		if strings.Contains(o.Path, "/") {
			ms = append(ms, mutation{State: "parent-dir-missing", Out: i})
		}
		if o.Type == "file" {
			ms = append(ms,
				mutation{State: "content-modified", Out: i},
				mutation{State: "content-grown", Out: i},
				mutation{State: "exec-bit-flipped", Out: i},
				mutation{State: "content-modified-and-exec-bit-flipped", Out: i},
				mutation{State: "directory-in-the-way", Out: i},
				mutation{State: "directory-in-the-way-nonempty", Out: i},
			)
			if len(content(o.File.C)) > 0 {
				ms = append(ms, mutation{State: "truncated", Out: i})
			}
			continue
		}
		ms = append(ms,
			mutation{State: "file-in-the-way", Out: i},
			mutation{State: "stale-extra-file", Out: i},
			mutation{State: "stale-extra-dir", Out: i},
			mutation{State: "stale-extra-symlink", Out: i},
		)
		var walk func(ns []*node, prefix string)
		walk = func(ns []*node, prefix string) {
			for _, n := range ns {
				p := prefix + n.N
				ms = append(ms, mutation{State: "entry-kind-changed", Out: i, Path: p})
				switch n.K {
				case "f":
					ms = append(ms,
						mutation{State: "content-modified", Out: i, Path: p},
						mutation{State: "exec-bit-flipped", Out: i, Path: p},
						mutation{State: "content-modified-and-exec-bit-flipped", Out: i, Path: p},
						mutation{State: "entry-removed", Out: i, Path: p},
					)
					if len(n.C) > 0 {
						ms = append(ms, mutation{State: "truncated", Out: i, Path: p})
					}
				case "l":
					ms = append(ms,
						mutation{State: "symlink-retargeted", Out: i, Path: p},
						mutation{State: "entry-removed", Out: i, Path: p},
					)
				case "d":
					ms = append(ms, mutation{State: "stale-extra-file", Out: i, Path: p})
					if len(n.Ch) == 0 {
						ms = append(ms, mutation{State: "empty-subdir-removed", Out: i, Path: p})
					} else {
						ms = append(ms, mutation{State: "entry-removed", Out: i, Path: p})
						walk(n.Ch, p+"/")
					}
				}
			}
		}
		walk(o.Tree, "")
	}
	return ms
}

func (e *env) apply(c caseSpec, m mutation) error {
	if m.State == "identical" {
		return nil
	}
	if m.State == "all-outputs-absent" {
		for _, o := range c.Outs {
			if err := os.RemoveAll(filepath.Join(e.pkgDir, o.Path)); err != nil {
				return err
			}
		}
		return nil
	}
	o := c.Outs[m.Out]
	op := filepath.Join(e.pkgDir, o.Path)
	ep := op
	if m.Path != "" {
		ep = filepath.Join(op, m.Path)
	}
	switch m.State {
	case "absent":
		return os.RemoveAll(op)
	case "parent-dir-missing":
		return os.RemoveAll(filepath.Join(e.pkgDir, strings.SplitN(o.Path, "/", 2)[0]))
	case "content-modified-and-exec-bit-flipped":
		if err := e.apply(c, mutation{State: "content-modified", Out: m.Out, Path: m.Path}); err != nil {
			return err
		}
		return e.apply(c, mutation{State: "exec-bit-flipped", Out: m.Out, Path: m.Path})
	case "content-modified": // same length where possible, different bytes, mode untouched
		b, err := os.ReadFile(ep)
		if err != nil {
			return err
		}
		if len(b) == 0 {
			b = []byte("y")
		} else if len(b) > 100 {
			b[len(b)/2] ^= 0xff
		} else {
			for i := range b {
				b[i] = 'y'
			}
		}
		return rewrite(ep, b)
	case "content-grown":
		b, err := os.ReadFile(ep)
		if err != nil {
			return err
		}
		return rewrite(ep, append(b, '+'))
	case "truncated":
		fi, err := os.Stat(ep)
		if err != nil {
			return err
		}
		n := fi.Size() - 1
		if fi.Size() > 100 {
			n = fi.Size() / 2
		}
		return os.Truncate(ep, n)
	case "exec-bit-flipped":
		fi, err := os.Stat(ep)
		if err != nil {
			return err
		}
		if fi.Mode()&0o111 != 0 {
			return os.Chmod(ep, 0o644)
		}
		return os.Chmod(ep, 0o755)
	case "directory-in-the-way", "directory-in-the-way-nonempty":
		if err := os.RemoveAll(op); err != nil {
			return err
		}
		if err := os.Mkdir(op, 0o755); err != nil {
			return err
		}
		if m.State == "directory-in-the-way-nonempty" {
			return os.WriteFile(filepath.Join(op, "zz-stale"), []byte("stale"), 0o644)
		}
		return nil
	case "file-in-the-way":
		if err := os.RemoveAll(op); err != nil {
			return err
		}
		return os.WriteFile(op, []byte("in the way"), 0o644)
	case "stale-extra-file":
		return os.WriteFile(filepath.Join(ep, "zz-stale"), []byte("stale"), 0o644)
	case "stale-extra-dir":
		if err := os.Mkdir(filepath.Join(ep, "zz-stale-dir"), 0o755); err != nil {
			return err
		}
		return os.WriteFile(filepath.Join(ep, "zz-stale-dir", "f"), []byte("stale"), 0o644)
	case "stale-extra-symlink":
		return os.Symlink("a", filepath.Join(ep, "zz-stale-link"))
	case "symlink-retargeted":
		if err := os.Remove(ep); err != nil {
			return err
		}
		return os.Symlink("retargeted", ep)
	case "empty-subdir-removed":
		return os.Remove(ep)
	case "entry-removed":
		return os.RemoveAll(ep)
	case "entry-kind-changed":
		fi, err := os.Lstat(ep)
		if err != nil {
			return err
		}
		if err := os.RemoveAll(ep); err != nil {
			return err
		}
		if fi.IsDir() || fi.Mode()&os.ModeSymlink != 0 {
			return os.WriteFile(ep, []byte("was something else"), 0o644)
		}
		if err := os.Mkdir(ep, 0o755); err != nil {
			return err
		}
		return os.WriteFile(filepath.Join(ep, "zz-stale"), []byte("stale"), 0o644)
	}
	return fmt.Errorf("unknown prior state %q", m.State)
}

// rewrite replaces the content of an existing file keeping its mode.
func rewrite(p string, b []byte) error {
	f, err := os.OpenFile(p, os.O_WRONLY|os.O_TRUNC, 0)
	if err != nil {
		return err
	}
	if _, err := f.Write(b); err != nil {
		f.Close()
		return err
	}
	return f.Close()
}

// ---------------------------------------------------------------- running

var hangCeiling = 60 * time.Second

var (
	evals       int64
	casesRun    int64
	perState    = map[string]int64{}
	setupBroken int
	hangs       int
)

const maxHangs = 3

var skippedAfterHangs int

type panicError struct{ msg string }

func (p panicError) Error() string { return "panic: " + p.msg }

func errClass(err error) string {
	switch {
	case err == nil:
		return "nil"
	case errors.As(err, &panicError{}):
		return "panic"
	case errors.Is(err, fs.ErrNotExist):
		return "error:not-exist"
	case errors.Is(err, syscall.EISDIR):
		return "error:is-a-directory"
	case errors.Is(err, syscall.ENOTDIR):
		return "error:not-a-directory"
	}
	return "error:other"
}

// load runs the real LoadOutputs with a fresh target. hung reports that the
// ceiling expired (used only to classify a hang, never as an oracle on speed).
func (e *env) load(t *model.Target, res *gen.TargetResult) (err error, hung bool) {
	done := make(chan error, 1)
	reg := e.reg
	go func() {
		defer func() {
			if r := recover(); r != nil {
				done <- panicError{fmt.Sprint(r)}
			}
		}()
		done <- reg.LoadOutputs(e.ctx, t, res, nil)
	}()
	timer := time.NewTimer(hangCeiling)
	defer timer.Stop()
	select {
	case err = <-done:
		return err, false
	case <-timer.C:
		return nil, true
	}
}

// cache materialises the case and writes it to the cache through the registry.
func (e *env) cache(c caseSpec) (*gen.TargetResult, listing, bool) {
	e.clean = false
	if err := e.materialise(c); err != nil {
		vrep.Broken("materialise %s: %v", c, err)
		setupBroken++
		return nil, nil, false
	}
	res, err := e.reg.WriteOutputs(e.ctx, e.target(c), nil)
	if err != nil {
		vrep.Violation("write-error:"+c.Outs[0].kind(), fmt.Sprintf("WriteOutputs failed for %s: %v", c, err), map[string]any{"case": c})
		return nil, nil, false
	}
	if len(res.Outputs) != len(c.Outs) {
		vrep.Violation("write-result-count", fmt.Sprintf("WriteOutputs returned %d outputs for %s", len(res.Outputs), c), map[string]any{"case": c})
		return nil, nil, false
	}
	e.clean = true
	return res, takeListing(e.pkgDir), true
}

func outputFor(c caseSpec, p string) (int, bool) {
	for i, o := range c.Outs {
		if under(p, o.Path) {
			return i, true
		}
	}
	return -1, false
}

func (e *env) runPair(c caseSpec, res *gen.TargetResult, expected listing, m mutation) {
	if !e.clean {
		if err := e.materialise(c); err != nil {
			vrep.Broken("materialise %s: %v", c, err)
			setupBroken++
			return
		}
	}
	e.clean = false
	if err := e.apply(c, m); err != nil {
		vrep.Broken("apply %+v to %s: %v", m, c, err)
		setupBroken++
		return
	}
	prior := takeListing(e.pkgDir)
	replay := map[string]any{"case": c, "mutation": m}
	stateDesc := m.State
	if m.Path != "" {
		stateDesc += " at " + fmt.Sprintf("%q", m.Path)
	}
	kind := c.Outs[0].kind()
	if m.Out >= 0 {
		kind = c.Outs[m.Out].kind()
		if len(c.Outs) > 1 {
			stateDesc += " of output " + c.Outs[m.Out].Path
		}
	}
	evals++
	perState[kind+":"+m.State]++
	caseKey, _ := json.Marshal(replay)
	if !prior.equal(expected) {
		vrep.Nontrivial.Add(string(caseKey))
	}

	t := e.target(c)
	err, hung := e.load(t, res)
	if hung {
		vrep.Violation("load-hang:"+kind+":"+m.State, fmt.Sprintf("LoadOutputs did not return within %s; cached %s; prior state: %s", hangCeiling, c, stateDesc), replay)
		vrep.Outcomes.Add(c.Family + "|hang")
		hangs++
		e.renew()
		return
	}
	got := takeListing(e.pkgDir)
	if err != nil {
		// LoadOutputs returns on the first failing output / entry while other
		// goroutines of the same call may still be writing: abandon that directory.
		e.renewDir()
		if len(c.Outs) > 1 {
			vrep.Outcomes.Add(fmt.Sprintf("%s|%s|multi-output", kind, errClass(err)))
		}
	}
	equal := got.equal(expected)
	untouched := got.equal(prior)
	if err == nil || len(c.Outs) == 1 {
		vrep.Outcomes.Add(fmt.Sprintf("%s|equal=%v|%s|untouched=%v", kind, equal, errClass(err), untouched))
	}

	if err != nil {
		// "This holds regardless of what currently sits at the output paths": the
		// cache entry is intact, so a failing restore is a violation of its own.
		sigKind := kind
		if sigKind == "bin" {
			sigKind = "file" // same handler, same root cause
		}
		if errClass(err) == "panic" {
			vrep.Violation(sigKind+":"+m.State+":load-panic", fmt.Sprintf("cached %s; prior state: %s; LoadOutputs panicked: %v", c, stateDesc, oneLine(err.Error())), replay)
			return
		}
		vrep.Violation(sigKind+":"+strings.TrimSuffix(m.State, "-nonempty")+":load-error", fmt.Sprintf("cached %s; prior state: %s; LoadOutputs failed: %v", c, stateDesc, oneLine(err.Error())), replay)
		return
	}
	if !t.OutputsLoaded {
		vrep.Violation("load-nil-but-not-marked-loaded", fmt.Sprintf("cached %s; prior state: %s; LoadOutputs returned nil but target.OutputsLoaded is false", c, stateDesc), replay)
	}
	if equal {
		e.clean = true
		return
	}
	seen := map[string]bool{}
	for _, d := range classify(expected, got) {
		oi, inOut := outputFor(c, d.path)
		var sig string
		if !inOut {
			sig = "pkg:outside-declared-outputs:" + d.class
		} else {
			o := c.Outs[oi]
			k := o.kind()
			class := d.class
			if k == "bin" {
				if class == "exec-bit-lost" {
					class = "not-executable-after-restore"
				} else {
					k = "file"
				}
			}
			sig = k + ":" + class
			if got.restrict(o.Path).equal(prior.restrict(o.Path)) {
				// After Load this output is exactly as Load found it: the skip-if-unchanged
				// shortcut fired wrongly, or the rewrite reproduced the stale state.
				sig += ":left-as-found"
			}
		}
		if seen[sig] {
			continue
		}
		seen[sig] = true
		vrep.Violation(sig, fmt.Sprintf("cached %s; prior state: %s; after restore %q is %s, expected %s", c, stateDesc, d.path, descr(got[d.path]), descr(expected[d.path])), replay)
	}
}

func descr(d string) string {
	if d == "" {
		return "absent"
	}
	if strings.HasPrefix(d, "f|") {
		p := strings.SplitN(d, "|", 4)
		x := "not executable"
		if p[1] == "x" {
			x = "executable"
		}
		h := p[3]
		if len(h) > 8 {
			h = h[:8]
		}
		return fmt.Sprintf("file(%s bytes, sha256 %s.., %s)", p[2], h, x)
	}
	if strings.HasPrefix(d, "l|") {
		return fmt.Sprintf("symlink->%q", d[2:])
	}
	if d == "d" {
		return "directory"
	}
	return d
}

// wsRoot is replaced by "<ws>" in witnesses so that they do not depend on the scratch directory name.
var wsRoot string

func oneLine(s string) string {
	s = strings.ReplaceAll(s, "\n", " ")
	if wsRoot != "" {
		s = strings.ReplaceAll(s, wsRoot, "<ws>")
	}
	if len(s) > 300 {
		s = s[:300] + "…"
	}
	return s
}

func (e *env) runCase(c caseSpec) {
	if setupBroken > 0 {
		return // reported once as a broken check; do not flood
	}
	if hangs >= maxHangs {
		skippedAfterHangs++
		return
	}
	if casesRun%64 == 63 {
		// DirectoryOutputHandler.downloadFile never closes the files it creates;
		// only the garbage collector's finalizers release those descriptors.
		// Force a collection regularly so that the harness stays below RLIMIT_NOFILE.
		runtime.GC()
	}
	res, expected, ok := e.cache(c)
	if !ok {
		return
	}
	casesRun++
	for _, m := range mutationsFor(c) {
		if hangs >= maxHangs {
			return
		}
		e.runPair(c, res, expected, m)
	}
	// the same cache entry restored for a target that now declares the path as its bin_output (the output
	// definition "file::<path>" and the change hash are the same): a restored binary output is runnable
	if len(c.Outs) == 1 && c.Outs[0].Type == "file" && !c.Outs[0].Bin && c.Outs[0].File != nil && !c.Outs[0].File.X {
		c2 := c
		c2.Family = "bin-redeclared"
		o := c.Outs[0]
		o.Bin = true
		c2.Outs = []outSpec{o}
		expected2 := listing{}
		for k, v := range expected {
			if k == o.Path && strings.HasPrefix(v, "f|-|") {
				v = "f|x|" + strings.TrimPrefix(v, "f|-|")
			}
			expected2[k] = v
		}
		e.clean = false
		for _, m := range mutationsFor(c2) {
			if hangs >= maxHangs {
				return
			}
			e.runPair(c2, res, expected2, m)
		}
		e.clean = false
	}
}

// ---------------------------------------------------------------- families

func fileCases() []caseSpec {
	var out []caseSpec
	for _, bin := range []bool{false, true} {
		for _, p := range []string{"out.bin", "sub/out.bin", "sub/ü d/-n"} {
			for _, c := range []string{"", "x", "@large"} {
				for _, x := range []bool{false, true} {
					fam := "file"
					if bin {
						fam = "bin"
					}
					out = append(out, caseSpec{Family: fam, Outs: []outSpec{{Type: "file", Path: p, Bin: bin, File: &node{K: "f", N: filepath.Base(p), C: c, X: x}}}})
				}
			}
		}
	}
	return out
}

func comboCases() []caseSpec {
	small := []*node{
		{K: "f", N: "a", C: "x", X: true},
		{K: "f", N: "b", C: "x"},
		{K: "d", N: " sp"},
		{K: "l", N: "ü", T: "a"},
	}
	nested := []*node{
		{K: "d", N: "a", Ch: []*node{{K: "f", N: "-n", C: "xx"}, {K: "d", N: "b"}}},
		{K: "d", N: "b", Ch: []*node{{K: "f", N: "-n", C: "xx"}, {K: "d", N: "b"}}},
	}
	f := func(p, c string, x bool) outSpec {
		return outSpec{Type: "file", Path: p, File: &node{K: "f", N: filepath.Base(p), C: c, X: x}}
	}
	bin := func(p, c string) outSpec {
		o := f(p, c, false)
		o.Bin = true
		return o
	}
	return []caseSpec{
		{Family: "combo", Outs: []outSpec{f("a.txt", "x", false), f("b.txt", "x", false)}}, // same bytes in two outputs
		{Family: "combo", Outs: []outSpec{f("a.txt", "x", true), {Type: "dir", Path: "gen/out", Tree: small}}},
		{Family: "combo", Outs: []outSpec{{Type: "dir", Path: "gen/out", Tree: small}, {Type: "dir", Path: "gen/out2", Tree: small}}}, // identical directory outputs
		// a file output and a directory output never share a parent directory here:
		// whether the file restore finds its parent would then depend on how far the
		// concurrently running directory restore (which does MkdirAll) has got.
		{Family: "combo", Outs: []outSpec{f("assets/a.txt", "@large", false), {Type: "dir", Path: "dist/tree", Tree: nested}, bin("bin/tool", "x")}},
	}
}

// mismatchFamily: the target now declares something else than what the stored
// result holds: LoadOutputs must reject it and leave the workspace alone.
func (e *env) mismatchFamily() {
	tree := []*node{{K: "f", N: "a", C: "x"}, {K: "d", N: "b"}}
	stored := caseSpec{Family: "mismatch", Outs: []outSpec{
		{Type: "file", Path: "out.txt", File: &node{K: "f", N: "out.txt", C: "x"}},
		{Type: "dir", Path: "gen/out", Tree: tree},
	}}
	res, _, ok := e.cache(stored)
	if !ok {
		return
	}
	fo := func(p string) model.Output { return model.NewOutput("file", p) }
	do := func(p string) model.Output { return model.NewOutput("dir", p) }
	type decl struct {
		name string
		outs []model.Output
		bin  model.Output
		res  *gen.TargetResult
	}
	decls := []decl{
		{name: "file-path-changed", outs: []model.Output{fo("out2.txt"), do("gen/out")}, res: res},
		{name: "dir-path-changed", outs: []model.Output{fo("out.txt"), do("gen/other")}, res: res},
		{name: "file-kind-changed-to-dir", outs: []model.Output{do("out.txt"), do("gen/out")}, res: res},
		{name: "dir-kind-changed-to-file", outs: []model.Output{fo("out.txt"), fo("gen/out")}, res: res},
		{name: "kinds-swapped", outs: []model.Output{do("out.txt"), fo("gen/out")}, res: res},
		{name: "output-added", outs: []model.Output{fo("out.txt"), do("gen/out"), fo("extra.txt")}, res: res},
		{name: "bin-output-added", outs: []model.Output{fo("out.txt"), do("gen/out")}, bin: fo("tool"), res: res},
		{name: "output-removed", outs: []model.Output{fo("out.txt")}, res: res},
		{name: "no-outputs-declared", res: res},
		{name: "same-path-declared-twice", outs: []model.Output{fo("out.txt"), fo("out.txt")}, res: res},
		{name: "nil-stored-result", outs: []model.Output{fo("out.txt"), do("gen/out")}, res: nil},
	}
	priors := []mutation{{State: "all-outputs-absent", Out: -1}, {State: "identical", Out: -1}, {State: "content-modified", Out: 0}, {State: "stale-extra-file", Out: 1}}
	for _, d := range decls {
		for _, m := range priors {
			if err := e.materialise(stored); err != nil {
				vrep.Broken("materialise: %v", err)
				return
			}
			if err := e.apply(stored, m); err != nil {
				vrep.Broken("apply: %v", err)
				return
			}
			prior := takeListing(e.pkgDir)
			t := &model.Target{Label: label.TL(e.pkg, "t"), ChangeHash: "change-hash", Outputs: d.outs, BinOutput: d.bin}
			replay := map[string]any{"mismatch": d.name, "prior": m}
			evals++
			perState["mismatch:"+d.name]++
			vrep.Nontrivial.Add("mismatch|" + d.name + "|" + m.State)
			err, hung := e.load(t, d.res)
			if hung {
				vrep.Violation("load-hang:mismatch:"+d.name, "LoadOutputs hung on a declared-vs-stored mismatch", replay)
				e.renew()
				return
			}
			got := takeListing(e.pkgDir)
			vrep.Outcomes.Add(fmt.Sprintf("mismatch|rejected=%v|untouched=%v", err != nil, got.equal(prior)))
			if err == nil {
				vrep.Violation("mismatch:"+d.name+":accepted", fmt.Sprintf("stored result holds [file::out.txt dir::gen/out], target declares outputs=%v bin=%v: LoadOutputs returned nil", d.outs, d.bin), replay)
			}
			if errClass(err) == "panic" {
				vrep.Violation("mismatch:"+d.name+":panic", "LoadOutputs panicked on a declared-vs-stored mismatch: "+oneLine(err.Error()), replay)
			}
			if err != nil && t.OutputsLoaded {
				vrep.Violation("mismatch:"+d.name+":marked-loaded", "LoadOutputs failed but marked the target's outputs as loaded", replay)
			}
			if !got.equal(prior) {
				ds := classify(prior, got)
				vrep.Violation("mismatch:"+d.name+":workspace-touched", fmt.Sprintf("declared-vs-stored mismatch (%s), prior state %s: workspace changed at %q (%s)", d.name, m.State, ds[0].path, ds[0].class), replay)
			}
		}
	}
}

// fdProbe (informational, not part of the verdict): number of descriptors this
// process holds before and after n directory restores with the collector off.
func (e *env) fdProbe(n int) string {
	count := func() int {
		ents, _ := os.ReadDir("/proc/self/fd")
		return len(ents)
	}
	c := caseSpec{Family: "dir", Outs: []outSpec{{Type: "dir", Path: "gen/out", Tree: []*node{{K: "f", N: "a", C: "x"}, {K: "f", N: "b", C: "xx"}}}}}
	res, _, ok := e.cache(c)
	if !ok {
		return "probe failed"
	}
	runtime.GC()
	runtime.GC()
	old := debug.SetGCPercent(-1)
	before := count()
	for i := 0; i < n; i++ {
		os.RemoveAll(filepath.Join(e.pkgDir, "gen"))
		if err, hung := e.load(e.target(c), res); err != nil || hung {
			debug.SetGCPercent(old)
			return "probe failed"
		}
	}
	after := count()
	debug.SetGCPercent(old)
	runtime.GC()
	e.clean = false
	return fmt.Sprintf("%d -> %d open descriptors after %d restores of a 2-file directory output (collector off)", before, after, n)
}

// ---------------------------------------------------------------- entry point

func TestVerif(t *testing.T) {
	total, fan, depth := 5, 3, 2
	if vrep.Thorough() {
		total, fan, depth = 6, 4, 3
	}
	total = vrep.EnvInt("VERIF_C06_TOTAL", total)
	fan = vrep.EnvInt("VERIF_C06_FAN", fan)
	depth = vrep.EnvInt("VERIF_C06_DEPTH", depth)
	hangCeiling = time.Duration(vrep.EnvInt("VERIF_C06_HANG_S", 60)) * time.Second
	shard, shards := vrep.Shard()

	e, err := newEnv()
	if err != nil {
		vrep.Broken("setup: %v", err)
		vrep.Done()
		return
	}
	defer e.close()

	if rp := os.Getenv("VERIF_REPLAY"); rp != "" {
		var r struct {
			Case     *caseSpec `json:"case"`
			Mutation *mutation `json:"mutation"`
		}
		if err := json.Unmarshal([]byte(rp), &r); err == nil && r.Case != nil && r.Mutation != nil {
			if shard == 0 {
				if res, expected, ok := e.cache(*r.Case); ok {
					e.runPair(*r.Case, res, expected, *r.Mutation)
				}
			}
			vrep.Counts(evals, evals, evals, evals)
			vrep.Done()
			return
		}
	}

	// directory outputs: every tree of the bounded space
	en := &enumerator{fan: fan, memo: map[[2]int][][]spec{}, opts: map[int][]opt{}, max: total}
	var trees [][]spec
	for n := 0; n <= total; n++ {
		trees = append(trees, en.contents(n, depth)...)
	}
	nameKind := map[string]struct{}{}
	dupFiles, dupDirs := 0, 0
	for i, specs := range trees {
		nodes := build(specs, i, 0)
		if shard == 0 {
			treeStats(nodes, specs, nameKind, &dupFiles, &dupDirs)
		}
		if i%shards != shard {
			continue
		}
		e.runCase(caseSpec{Family: "dir", Outs: []outSpec{{Type: "dir", Path: "gen/out", Tree: nodes}}})
	}
	// single file outputs, bin outputs, several outputs per target
	others := append(fileCases(), comboCases()...)
	for i, c := range others {
		if i%shards != shard {
			continue
		}
		e.runCase(c)
	}
	if shard == shards-1 {
		e.mismatchFamily()
	}

	vrep.Counts(evals, casesRun, evals, evals)
	vrep.AddInt("cases_cached", casesRun)
	for k, v := range perState {
		vrep.AddInt("pairs["+k+"]", v)
	}
	if shard == 0 {
		vrep.Set("dir_trees_in_space", len(trees))
		vrep.Set("bounds", map[string]int{"total_entries_max": total, "entries_per_directory_max": fan, "depth_max": depth})
		vrep.Set("name_kind_combinations_covered", fmt.Sprintf("%d of %d", len(nameKind), len(namePool)*(nLeafKinds+1)))
		vrep.Set("trees_with_duplicate_file_content", dupFiles)
		vrep.Set("trees_with_identical_subdirectories", dupDirs)
		vrep.Set("observation_descriptors_held_by_dir_restore", e.fdProbe(100))
		vrep.Set("file_and_bin_cases", len(fileCases()))
		vrep.Set("multi_output_cases", len(comboCases()))
		if len(trees) > 0 {
			mid := len(trees) * 9 / 10
			c := caseSpec{Family: "dir", Outs: []outSpec{{Type: "dir", Path: "gen/out", Tree: build(trees[mid], mid, 0)}}}
			vrep.Sample(map[string]any{"case": c.String(), "prior_states": mutationsFor(c)})
		}
		fc := fileCases()[3]
		vrep.Sample(map[string]any{"case": fc.String(), "prior_states": mutationsFor(fc)})
	}
	if setupBroken > 0 {
		vrep.Broken("%d harness set-up failures", setupBroken)
	}
	if hangs >= maxHangs {
		vrep.Cap("shard %d stopped after %d hung LoadOutputs calls (each reported as a violation); %d cases not run", shard, hangs, skippedAfterHangs)
	}
	vrep.Done()
}

// treeStats records which (name, kind) combinations occur and whether the tree
// contains duplicate file contents / identical sub-directories.
func treeStats(nodes []*node, specs []spec, nameKind map[string]struct{}, dupFiles, dupDirs *int) {
	contents := map[string]int{}
	dirs := map[string]int{}
	var walk func(ns []*node, ss []spec)
	walk = func(ns []*node, ss []spec) {
		for j, n := range ns {
			k := "subdir"
			if ss[j].kind >= 0 {
				k = leafKindNames[ss[j].kind]
			}
			nameKind[n.N+"|"+k] = struct{}{}
			if n.K == "f" {
				contents[n.C]++
			}
			if n.K == "d" && len(n.Ch) > 0 {
				dirs[renderNodes(n.Ch)]++
				walk(n.Ch, ss[j].sub)
			}
		}
	}
	walk(nodes, specs)
	for _, c := range contents {
		if c > 1 {
			*dupFiles++
			break
		}
	}
	for _, c := range dirs {
		if c > 1 {
			*dupDirs++
			break
		}
	}
}
