// Package rthrough explores concurrent users of one key of the layered cache: the real backends.RemoteWrapper over
// the real backends.FileSystemCache (every file-system call of fs.go is a scheduling point) and an in-memory remote
// store whose operations are scheduling points. Parallel read-throughs of one blob (several dependants of one cached
// target on a machine with an empty local cache), parallel write-throughs of one blob (two targets producing the same
// bytes) and a read-through next to a write-through must all end with the right bytes in every reader's hands and in
// both layers; nothing fails while the remote store is healthy, and nothing hangs.
package rthrough

import (
	"bytes"
	"context"
	"fmt"
	"io"
	"os"
	"path/filepath"
	"sort"
	"strings"
	"sync"
	"testing"
	"time"

	"go.uber.org/zap"
	"go.uber.org/zap/zapcore"

	"grog/internal/caching/backends"
	"grog/internal/config"
	"grog/internal/console"
	"grog/internal/zverif/explore"
	"grog/internal/zverif/vrep"
	"grog/internal/zverif/vs"
)

type memRemote struct {
	mu    sync.Mutex
	store map[string][]byte
}

func (b *memRemote) TypeName() string { return "mem" }
func (b *memRemote) Get(ctx context.Context, path, key string) (io.ReadCloser, error) {
	vs.Point("remote.Get")
	b.mu.Lock()
	defer b.mu.Unlock()
	d, ok := b.store[path+"/"+key]
	if !ok {
		return nil, os.ErrNotExist
	}
	return io.NopCloser(bytes.NewReader(d)), nil
}
func (b *memRemote) Set(ctx context.Context, path, key string, content io.Reader) error {
	vs.Point("remote.Set:start")
	data, err := io.ReadAll(content)
	if err != nil {
		return err
	}
	vs.Point("remote.Set:commit")
	b.mu.Lock()
	b.store[path+"/"+key] = data
	b.mu.Unlock()
	return nil
}
func (b *memRemote) Delete(ctx context.Context, path, key string) error {
	b.mu.Lock()
	delete(b.store, path+"/"+key)
	b.mu.Unlock()
	return nil
}
func (b *memRemote) Exists(ctx context.Context, path, key string) (bool, error) {
	vs.Point("remote.Exists")
	b.mu.Lock()
	defer b.mu.Unlock()
	_, ok := b.store[path+"/"+key]
	return ok, nil
}

type scenario struct {
	Readers   int  `json:"readers"`
	Writers   int  `json:"writers"`
	Prestored bool `json:"object_already_in_the_remote_store"`
}

func (s scenario) name() string {
	return fmt.Sprintf("readers=%d/writers=%d/prestored=%v", s.Readers, s.Writers, s.Prestored)
}

var (
	nop     = console.NewFromSugared(zap.NewNop().Sugar(), zapcore.ErrorLevel)
	scratch string
)

const (
	key     = "cb8690e3"
	content = "the bytes of one output blob\n"
)

func (sc scenario) run(t *testing.T, cfg vs.Config) explore.Exec {
	dir, _ := os.MkdirTemp(scratch, "x")
	defer os.RemoveAll(dir)
	config.Global.WorkspaceRoot = filepath.Join(dir, "ws")
	config.Global.Root = filepath.Join(dir, "root")
	ctx := console.WithLogger(context.Background(), nop)
	remote := &memRemote{store: map[string][]byte{}}
	if sc.Prestored {
		remote.store["cas/"+key] = []byte(content)
	}
	var mu sync.Mutex
	var findings []explore.Finding
	add := func(sig, detail string) {
		mu.Lock()
		findings = append(findings, explore.Finding{Sig: sig, Detail: detail})
		mu.Unlock()
	}
	var local *backends.FileSystemCache
	okReads, missReads, okWrites := 0, 0, 0
	res := vs.Run(t, cfg, func() {
		var err error
		local, err = backends.NewFileSystemCache(ctx)
		if err != nil {
			add("C08:harness", err.Error())
			return
		}
		rw := backends.NewRemoteWrapper(local, remote)
		var wg sync.WaitGroup
		for i := 1; i <= sc.Readers; i++ {
			wg.Add(1)
			i := i
			vs.Go(fmt.Sprintf("reader-%d", i), func() {
				defer wg.Done()
				r, err := rw.Get(ctx, "cas", key)
				if err != nil {
					if sc.Prestored {
						add("C08:read-through-of-an-object-that-is-in-the-remote-store-fails", fmt.Sprintf("reader %d: RemoteWrapper.Get: %v (the remote store is healthy and holds the object; %d readers, %d writers of the same key)", i, err, sc.Readers, sc.Writers))
					} else {
						mu.Lock()
						missReads++
						mu.Unlock()
					}
					return
				}
				b, rerr := io.ReadAll(r)
				r.Close()
				if rerr != nil || string(b) != content {
					add("C08:read-through-serves-wrong-content", fmt.Sprintf("reader %d got %q (err %v), the object is %q", i, b, rerr, content))
					return
				}
				mu.Lock()
				okReads++
				mu.Unlock()
			})
		}
		for i := 1; i <= sc.Writers; i++ {
			wg.Add(1)
			i := i
			vs.Go(fmt.Sprintf("writer-%d", i), func() {
				defer wg.Done()
				if err := rw.Set(ctx, "cas", key, strings.NewReader(content)); err != nil {
					add("C08:write-through-fails-although-no-layer-is-faulty", fmt.Sprintf("writer %d: RemoteWrapper.Set: %v (%d readers, %d writers of the same key)", i, err, sc.Readers, sc.Writers))
					return
				}
				mu.Lock()
				okWrites++
				mu.Unlock()
			})
		}
		wg.Wait()
	})
	ex := explore.Exec{Res: res, Findings: findings}
	for _, p := range res.Panics {
		ex.Findings = append(ex.Findings, explore.Finding{Sig: "C08:panic", Detail: p})
	}
	if res.Deadlock {
		ex.Findings = append(ex.Findings, explore.Finding{Sig: "C08:layered-cache-operation-never-returns", Detail: strings.Join(res.Blocked, "; ")})
	}
	localState := "absent"
	if res.BodyDone && !res.Deadlock && local != nil {
		// final state of both layers
		if okWrites > 0 {
			if d, ok := remote.store["cas/"+key]; !ok || string(d) != content {
				ex.Findings = append(ex.Findings, explore.Finding{Sig: "C08:write-through-acknowledged-but-the-remote-object-is-wrong-or-absent", Detail: fmt.Sprintf("remote holds %q (present=%v)", d, ok)})
			}
		}
		p := filepath.Join(config.Global.GetWorkspaceCacheDirectory(), "cas", key)
		b, err := os.ReadFile(p)
		switch {
		case err == nil && string(b) == content:
			localState = "right"
		case err == nil:
			localState = "wrong"
			ex.Findings = append(ex.Findings, explore.Finding{Sig: "C08:local-layer-holds-wrong-content-under-the-key", Detail: fmt.Sprintf("%s holds %q, the object is %q (every later restore on this machine serves it)", p, b, content)})
		case okWrites > 0 || okReads > 0:
			ex.Findings = append(ex.Findings, explore.Finding{Sig: "C08:local-layer-not-filled-by-a-successful-read-or-write-through", Detail: fmt.Sprintf("%s: %v after %d successful reads and %d successful writes", p, err, okReads, okWrites)})
		}
	}
	var keys []string
	for k := range remote.store {
		keys = append(keys, k)
	}
	sort.Strings(keys)
	ex.Outcome = fmt.Sprintf("reads=%d misses=%d writes=%d local=%s remote=%v findings=%d", okReads, missReads, okWrites, localState, keys, len(ex.Findings))
	ex.Nontrivial = sc.Readers+sc.Writers > 1
	return ex
}

func TestVerif(t *testing.T) {
	base := "/dev/shm"
	if _, err := os.Stat(base); err != nil {
		base = os.TempDir()
	}
	var err error
	scratch, err = os.MkdirTemp(base, "vcheck-rthrough-")
	if err != nil {
		vrep.Broken("mkdtemp: %v", err)
		return
	}
	defer os.RemoveAll(scratch)
	bound := vrep.EnvInt("VERIF_BOUND", 2)
	deadline := time.Now().Add(time.Duration(vrep.EnvInt("VERIF_BUDGET_S", 20)) * time.Second)
	scs := []scenario{
		{Readers: 2, Prestored: true}, {Readers: 3, Prestored: true},
		{Writers: 2}, {Writers: 2, Prestored: true},
		{Readers: 1, Writers: 1, Prestored: true}, {Readers: 1, Writers: 1},
		{Readers: 2, Writers: 1, Prestored: true},
	}
	mk := func(sc scenario) explore.Scenario {
		return explore.Scenario{Name: sc.name(), Desc: sc, Run: sc.run, Horizon: 2, MaxSteps: 3000}
	}
	if rp := explore.ReplayFromEnv(); rp != nil {
		for _, sc := range scs {
			if sc.name() == rp.Scenario {
				explore.RunReplay(t, mk(sc), rp.Choices)
			}
		}
		vrep.Done()
		return
	}
	var execs, steps int64
	completed := 0
	for b := 1; b <= bound; b++ {
		done := 0
		for _, sc := range scs {
			if time.Now().After(deadline) {
				continue
			}
			st := explore.Explore(t, mk(sc), explore.Options{Bound: b, Deadline: deadline})
			execs += st.Execs
			steps += st.Steps
			if !st.Capped {
				done++
			}
		}
		if done == len(scs) {
			completed = b
		} else {
			vrep.Cap("layered cache, one key: deviation bound %d completed for %d of %d scenarios (bound %d complete for all)", b, done, len(scs), completed)
			break
		}
	}
	vrep.Counts(execs, execs, steps, execs)
	vrep.Set("one_key_deviation_bound_completed", completed)
	if sh, _ := vrep.Shard(); sh == 0 {
		vrep.AddInt("one_key_scenarios", int64(len(scs)))
	}
	vrep.Done()
}
