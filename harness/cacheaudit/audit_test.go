// Package cacheaudit audits a grog cache directory offline: every blob under
// cas/ must hash to its name, every target result must decode, carry its own
// key and reference only blobs that are present (recursively through trees).
// Input: VERIF_AUDIT_DIRS = ':'-separated list of "<cache dir>|<hash algo>".
package cacheaudit

import (
	"fmt"
	"os"
	"path/filepath"
	"strings"
	"testing"

	"google.golang.org/protobuf/proto"

	"grog/internal/config"
	"grog/internal/hashing"
	"grog/internal/proto/gen"
	"grog/internal/zverif/vrep"
)

type problem struct {
	Kind   string `json:"kind"`
	Detail string `json:"detail"`
}

func audit(dir string) (problems []problem, blobs, results int) {
	add := func(kind, format string, a ...any) {
		problems = append(problems, problem{kind, fmt.Sprintf(format, a...)})
	}
	casDir := filepath.Join(dir, "cas")
	present := map[string]bool{}
	ents, _ := os.ReadDir(casDir)
	for _, e := range ents {
		if e.IsDir() || strings.HasPrefix(e.Name(), "tmp-") {
			continue
		}
		blobs++
		h, err := hashing.HashFile(filepath.Join(casDir, e.Name()))
		if err != nil {
			add("blob-unreadable", "%s: %v", e.Name(), err)
			continue
		}
		if h != e.Name() {
			add("blob-content-mismatch", "cas/%s has content hashing to %s", e.Name(), h)
			continue
		}
		present[e.Name()] = true
	}
	tDir := filepath.Join(dir, "target")
	filepath.Walk(tDir, func(p string, info os.FileInfo, err error) error {
		if err != nil || info.IsDir() || strings.HasPrefix(info.Name(), "tmp-") {
			return nil
		}
		results++
		key, _ := filepath.Rel(tDir, p)
		data, err := os.ReadFile(p)
		if err != nil {
			add("result-unreadable", "%s: %v", key, err)
			return nil
		}
		tr := &gen.TargetResult{}
		if err := proto.Unmarshal(data, tr); err != nil {
			add("result-undecodable", "target/%s: %v", key, err)
			return nil
		}
		if tr.ChangeHash != key {
			add("result-key-mismatch", "target/%s carries change hash %s", key, tr.ChangeHash)
		}
		for _, o := range tr.Outputs {
			switch k := o.Kind.(type) {
			case *gen.Output_File:
				d := k.File.GetDigest().GetHash()
				if !present[d] {
					add("dangling-reference", "target/%s references file blob %s (%s) which is not in the cache", key, d, k.File.GetPath())
				}
			case *gen.Output_Directory:
				d := k.Directory.GetTreeDigest().GetHash()
				if !present[d] {
					add("dangling-reference", "target/%s references tree blob %s (%s) which is not in the cache", key, d, k.Directory.GetPath())
					continue
				}
				tb, _ := os.ReadFile(filepath.Join(casDir, d))
				tree := &gen.Tree{}
				if err := proto.Unmarshal(tb, tree); err != nil {
					add("tree-undecodable", "tree %s: %v", d, err)
					continue
				}
				dirs := append([]*gen.Directory{tree.Root}, tree.Children...)
				for _, dd := range dirs {
					if dd == nil {
						continue
					}
					for _, f := range dd.Files {
						if !present[f.GetDigest().GetHash()] {
							add("dangling-reference", "target/%s: tree %s references file blob %s (%s) which is not in the cache", key, d, f.GetDigest().GetHash(), f.Name)
						}
					}
				}
			}
		}
		return nil
	})
	return
}

func TestVerif(t *testing.T) {
	for _, spec := range strings.Split(os.Getenv("VERIF_AUDIT_DIRS"), ":") {
		if spec == "" {
			continue
		}
		parts := strings.SplitN(spec, "|", 2)
		algo := ""
		if len(parts) == 2 {
			algo = parts[1]
		}
		config.Global.HashAlgorithm = algo
		problems, blobs, results := audit(parts[0])
		vrep.Set("audit:"+parts[0], map[string]any{"problems": problems, "blobs": blobs, "results": results})
	}
	vrep.Done()
}
