// Package casrace explores concurrent writers of the real caching.Cas (and the
// real TargetResultCache) over a backend whose Set is split into "started" and
// "committed" by scheduling points and which may fail: a write may only be
// acknowledged (nil) once the blob is really stored, and a target result may
// only become visible after every blob it references.
package casrace

import (
	"bytes"
	"context"
	"errors"
	"fmt"
	"io"
	"os"
	"sort"
	"strings"
	"sync"
	"testing"
	"time"

	"go.uber.org/zap"
	"go.uber.org/zap/zapcore"

	"grog/internal/caching"
	"grog/internal/console"
	"grog/internal/proto/gen"
	"grog/internal/zverif/explore"
	"grog/internal/zverif/vrep"
	"grog/internal/zverif/vs"
)

type slowBackend struct {
	mu       sync.Mutex
	store    map[string][]byte
	failNext map[string]bool // path/key -> the next Set of it fails (decided by a scheduler choice)
	mayFail  bool
	log      []string
}

func (b *slowBackend) TypeName() string { return "slow" }
func (b *slowBackend) has(path, key string) bool {
	b.mu.Lock()
	defer b.mu.Unlock()
	_, ok := b.store[path+"/"+key]
	return ok
}
func (b *slowBackend) Get(ctx context.Context, path, key string) (io.ReadCloser, error) {
	vs.Point("backend.Get")
	b.mu.Lock()
	defer b.mu.Unlock()
	d, ok := b.store[path+"/"+key]
	if !ok {
		return nil, os.ErrNotExist
	}
	return io.NopCloser(bytes.NewReader(d)), nil
}
func (b *slowBackend) Set(ctx context.Context, path, key string, content io.Reader) error {
	vs.Point("backend.Set:start")
	data, err := io.ReadAll(content)
	if err != nil {
		return err
	}
	fail := false
	if b.mayFail && path == "cas" {
		fail = vs.Choose("backend.Set fails", 2) == 1
	}
	vs.Point("backend.Set:commit") // the write is in flight between start and commit
	if fail {
		vs.Event("Set %s/%s FAILS", path, key)
		return errors.New("injected backend write failure")
	}
	b.mu.Lock()
	b.store[path+"/"+key] = data
	b.mu.Unlock()
	vs.Event("Set %s/%s stored", path, key)
	return nil
}
func (b *slowBackend) Delete(ctx context.Context, path, key string) error {
	b.mu.Lock()
	delete(b.store, path+"/"+key)
	b.mu.Unlock()
	return nil
}
func (b *slowBackend) Exists(ctx context.Context, path, key string) (bool, error) {
	vs.Point("backend.Exists")
	return b.has(path, key), nil
}

type scenario struct {
	Writers  int  `json:"writers"`
	MayFail  bool `json:"backend_write_may_fail"`
	Prestore bool `json:"blob_already_stored"`
}

func (s scenario) name() string {
	return fmt.Sprintf("writers=%d/fail=%v/prestored=%v", s.Writers, s.MayFail, s.Prestore)
}

var nop = console.NewFromSugared(zap.NewNop().Sugar(), zapcore.ErrorLevel)

// Each writer is a "target" producing the SAME output bytes (same digest): it
// writes the blob through the real Cas and, if that was acknowledged, publishes
// its target result through the real TargetResultCache.
func (sc scenario) run(t *testing.T, cfg vs.Config) explore.Exec {
	be := &slowBackend{store: map[string][]byte{}, mayFail: sc.MayFail}
	const digest = "d1"
	if sc.Prestore {
		be.store["cas/"+digest] = []byte("content")
	}
	var mu sync.Mutex
	var findings []explore.Finding
	acked := 0
	res := vs.Run(t, cfg, func() {
		ctx := console.WithLogger(context.Background(), nop)
		cas := caching.NewCas(be)
		tc := caching.NewTargetResultCache(be)
		var wg sync.WaitGroup
		for w := 1; w <= sc.Writers; w++ {
			wg.Add(1)
			w := w
			vs.Go(fmt.Sprintf("target-%d", w), func() {
				defer wg.Done()
				err := cas.Write(ctx, digest, strings.NewReader("content"))
				if err != nil {
					vs.Event("target %d: blob write failed: %v", w, err)
					return
				}
				mu.Lock()
				acked++
				mu.Unlock()
				if !be.has("cas", digest) {
					mu.Lock()
					findings = append(findings, explore.Finding{Sig: "C07:blob-write-acknowledged-before-the-blob-is-stored", Detail: fmt.Sprintf("Cas.Write returned nil to target %d while digest %s is not in the backend (another writer's store is still in flight or failed)", w, digest)})
					mu.Unlock()
				}
				key := fmt.Sprintf("result-%d", w)
				_ = tc.Write(ctx, &gen.TargetResult{ChangeHash: key, OutputHash: "o", Outputs: []*gen.Output{{Kind: &gen.Output_File{File: &gen.FileOutput{Path: "out", Digest: &gen.Digest{Hash: digest}}}}}})
			})
		}
		wg.Wait()
	})
	ex := explore.Exec{Res: res, Findings: findings}
	// final state: every visible target result references a stored blob
	var keys []string
	for k := range be.store {
		keys = append(keys, k)
	}
	sort.Strings(keys)
	for _, k := range keys {
		if strings.HasPrefix(k, "target/") && !be.has("cas", digest) {
			ex.Findings = append(ex.Findings, explore.Finding{Sig: "C07:target-result-visible-without-its-blob", Detail: fmt.Sprintf("%s is in the cache but the blob %s it references is not; log %v", k, digest, res.Log)})
			break
		}
	}
	for _, p := range res.Panics {
		ex.Findings = append(ex.Findings, explore.Finding{Sig: "C07:panic", Detail: p})
	}
	if res.Deadlock {
		ex.Findings = append(ex.Findings, explore.Finding{Sig: "C07:concurrent-blob-writers-deadlock", Detail: strings.Join(res.Blocked, "; ")})
	}
	ex.Outcome = fmt.Sprintf("acked=%d keys=%v", acked, keys)
	ex.Nontrivial = sc.Writers > 1
	return ex
}

func TestVerif(t *testing.T) {
	bound := vrep.EnvInt("VERIF_BOUND", 3)
	deadline := time.Now().Add(time.Duration(vrep.EnvInt("VERIF_BUDGET_S", 30)) * time.Second)
	var scs []scenario
	for _, w := range []int{2, 3} {
		for _, f := range []bool{false, true} {
			for _, p := range []bool{false, true} {
				scs = append(scs, scenario{Writers: w, MayFail: f, Prestore: p})
			}
		}
	}
	mk := func(sc scenario) explore.Scenario {
		return explore.Scenario{Name: sc.name(), Desc: sc, Run: sc.run, Horizon: 2, MaxSteps: 2000}
	}
	if rp := explore.ReplayFromEnv(); rp != nil {
		for _, sc := range scs {
			if sc.name() == rp.Scenario {
				explore.RunReplay(t, mk(sc), rp.Choices)
			}
		}
		vrep.Done()
		return
	}
	var execs, steps int64
	completed := 0
	for b := 1; b <= bound; b++ {
		done := 0
		for _, sc := range scs {
			if time.Now().After(deadline) {
				continue
			}
			st := explore.Explore(t, mk(sc), explore.Options{Bound: b, Deadline: deadline})
			execs += st.Execs
			steps += st.Steps
			if !st.Capped {
				done++
			}
		}
		if done == len(scs) {
			completed = b
		} else {
			vrep.Cap("cas writers: deviation bound %d completed for %d of %d scenarios (bound %d complete for all)", b, done, len(scs), completed)
			break
		}
	}
	vrep.Counts(execs, execs, steps, execs)
	vrep.Set("cas_writers_deviation_bound_completed", completed)
	vrep.Done()
}
