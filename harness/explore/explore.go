// Package explore is the stateless deviation-bounded depth-first explorer on
// top of the vs scheduler: it runs a scenario under every choice sequence with
// at most `bound` non-default choices (a non-default choice = a deviation from
// "keep running the same goroutine / lowest id / first ready case / canonical
// map order / no fault"), iterating the bound 0,1,2,…
package explore

import (
	"encoding/json"
	"fmt"
	"os"
	"runtime"
	"sort"
	"strings"
	"testing"
	"time"

	"grog/internal/zverif/vrep"
	"grog/internal/zverif/vs"
)

type Finding struct {
	Sig    string
	Detail string
}

// Exec is what a scenario returns for one execution.
type Exec struct {
	Res        *vs.Result
	Findings   []Finding
	Outcome    string // canonical observable outcome (vacuity diagnostics, determinism check)
	Nontrivial bool
}

type Scenario struct {
	Name string
	// Desc is a JSON-able description (goes into replay files / samples)
	Desc any
	Run  func(t *testing.T, cfg vs.Config) Exec
	// Horizon/MaxSteps override the scheduler defaults
	Horizon  int
	MaxSteps int
	// ClockChoices is passed to the scheduler (timers firing early as a deviation)
	ClockChoices int
}

type Options struct {
	Bound    int
	Deadline time.Time // wall-clock budget: exceeding it is a cap, never a verdict
	MaxExecs int64
}

type Stats struct {
	Execs, Steps   int64
	BoundCompleted int
	Capped         bool
	Violations     int
}

type node struct {
	prefix  []int
	prefixN []int
	devs    int
}

type Replay struct {
	Scenario string `json:"scenario"`
	Desc     any    `json:"desc"`
	Choices  []int  `json:"choices"`
	Steps    any    `json:"steps,omitempty"`
	Log      any    `json:"log,omitempty"`
}

func stepsBrief(res *vs.Result) []string {
	var out []string
	for _, s := range res.Steps {
		if s.Choice != 0 {
			out = append(out, fmt.Sprintf("@%d %s:%s -> alt %d/%d (%s)", len(out), s.Kind, s.Site, s.Choice, s.N, s.Who))
		}
	}
	return out
}

func runOnce(t *testing.T, sc Scenario, prefix, prefixN []int) Exec {
	cfg := vs.Config{Prefix: prefix, PrefixN: prefixN, Horizon: sc.Horizon, MaxSteps: sc.MaxSteps, ClockChoices: sc.ClockChoices}
	return sc.Run(t, cfg)
}

func choicesOf(res *vs.Result) ([]int, []int) {
	c := make([]int, len(res.Steps))
	n := make([]int, len(res.Steps))
	for i, s := range res.Steps {
		c[i] = s.Choice
		n[i] = s.N
	}
	return c, n
}

// Explore runs the scenario under all choice sequences with <= opt.Bound
// deviations. With shards > 1 only the level-1 subtrees whose index is
// congruent to shard are explored (the root execution is run by every shard
// but counted only by shard 0).
func Explore(t *testing.T, sc Scenario, opt Options) Stats {
	shard, shards := vrep.Shard()
	var st Stats
	seenViolation := map[string]bool{}
	report := func(e Exec, prefix []int) {
		for _, f := range e.Findings {
			st.Violations++
			key := sc.Name + "|" + f.Sig
			if seenViolation[key] {
				continue
			}
			seenViolation[key] = true
			// determinism obligation: the same choice list must reproduce the same
			// observation twice before the violation is believed
			choices, ns := choicesOf(e.Res)
			ok := true
			for rep := 0; rep < 2; rep++ {
				e2 := runOnce(t, sc, choices, ns)
				st.Execs++
				if e2.Res.Divergence != "" || e2.Outcome != e.Outcome || !sameSigs(e2.Findings, e.Findings) {
					vrep.Broken("scenario %s: violation %q does not replay deterministically (divergence=%q, outcome %q vs %q)", sc.Name, f.Sig, e2.Res.Divergence, e2.Outcome, e.Outcome)
					ok = false
					break
				}
			}
			if ok {
				vrep.Violation(f.Sig, fmt.Sprintf("[%s] %s | deviations: %s", sc.Name, f.Detail, strings.Join(stepsBrief(e.Res), "; ")),
					Replay{Scenario: sc.Name, Desc: sc.Desc, Choices: choices, Steps: stepsBrief(e.Res), Log: e.Res.Log})
			}
		}
	}
	account := func(e Exec, count bool) bool {
		if e.Res.Divergence != "" {
			vrep.Broken("scenario %s: replay divergence: %s", sc.Name, e.Res.Divergence)
			return false
		}
		if e.Res.StepLimit {
			vrep.Cap("scenario %s: an execution hit the step limit", sc.Name)
			st.Capped = true
		}
		if count {
			st.Execs++
			st.Steps += int64(len(e.Res.Steps))
			vrep.Outcomes.Add(sc.Name + "|" + e.Outcome)
			if e.Nontrivial {
				vrep.Nontrivial.Add(sc.Name + "|" + e.Outcome)
			}
		}
		return true
	}

	if memFull {
		// nothing can be freed in this process any more: every further scenario is reported as capped, not explored
		st.Capped = true
		return st
	}
	root := runOnce(t, sc, nil, nil)
	if !account(root, shard == 0) {
		return st
	}
	if shard == 0 {
		report(root, nil)
	}
	var stack []node
	push := func(e Exec, from int, devs int) {
		choices, ns := choicesOf(e.Res)
		// push in reverse so that earlier positions are explored first
		for i := len(choices) - 1; i >= from; i-- {
			for alt := ns[i] - 1; alt >= 1; alt-- {
				p := append(append([]int{}, choices[:i]...), alt)
				pn := append([]int{}, ns[:i+1]...)
				stack = append(stack, node{p, pn, devs + 1})
			}
		}
	}
	if opt.Bound >= 1 {
		push(root, 0, 0)
		if shards > 1 {
			// level-1 subtrees are dealt round-robin
			var mine []node
			// stack is in reverse order; index from the logical start
			for i := range stack {
				logical := len(stack) - 1 - i
				if logical%shards == shard {
					mine = append(mine, stack[i])
				}
			}
			stack = mine
		}
	}
	var ms runtime.MemStats
	for len(stack) > 0 {
		if (!opt.Deadline.IsZero() && time.Now().After(opt.Deadline)) || (opt.MaxExecs > 0 && st.Execs >= opt.MaxExecs) {
			st.Capped = true
			break
		}
		n := stack[len(stack)-1]
		stack = stack[:len(stack)-1]
		e := runOnce(t, sc, n.prefix, n.prefixN)
		if !account(e, true) {
			return st
		}
		report(e, n.prefix)
		if n.devs < opt.Bound {
			push(e, len(n.prefix), n.devs)
		}
		if st.Execs%2000 == 0 {
			runtime.ReadMemStats(&ms)
			if ms.Sys-ms.HeapReleased > memCeiling() {
				st.Capped = true
				memFull = true
				vrep.Cap("scenario %s: memory ceiling of this shard reached after %d executions (goroutines of abandoned executions are never freed); the scenarios after it are not explored at this bound", sc.Name, st.Execs)
				break
			}
		}
	}
	if !st.Capped {
		st.BoundCompleted = opt.Bound
	}
	return st
}

var memFull bool

// memCeiling is the resident size at which a shard stops exploring: the shards of one check that run side
// by side must together stay below three quarters of the machine's memory (the goroutines of abandoned
// executions are never freed). At most 6 GiB, at least 1 GiB.
func memCeiling() uint64 {
	ceil := uint64(6 << 30)
	// the number of shard processes that run at the same time (VERIF_PAR, set by the driver)
	shards := vrep.EnvInt("VERIF_PAR", 1)
	if _, n := vrep.Shard(); n < shards {
		shards = n
	}
	if b, err := os.ReadFile("/proc/meminfo"); err == nil {
		for _, l := range strings.Split(string(b), "\n") {
			var kb uint64
			if n, _ := fmt.Sscanf(l, "MemTotal: %d kB", &kb); n == 1 && kb > 0 {
				if shards < 1 {
					shards = 1
				}
				if c := kb * 1024 / 4 * 3 / uint64(shards); c < ceil {
					ceil = c
				}
			}
		}
	}
	if ceil < 1<<30 {
		ceil = 1 << 30
	}
	return ceil
}

func sameSigs(a, b []Finding) bool {
	sa, sb := []string{}, []string{}
	for _, f := range a {
		sa = append(sa, f.Sig)
	}
	for _, f := range b {
		sb = append(sb, f.Sig)
	}
	sort.Strings(sa)
	sort.Strings(sb)
	return strings.Join(sa, "|") == strings.Join(sb, "|")
}

// ReplayFromEnv returns the replay request passed by `vcheck replay`, if any.
func ReplayFromEnv() *Replay {
	raw := os.Getenv("VERIF_REPLAY")
	if raw == "" {
		return nil
	}
	var r Replay
	if json.Unmarshal([]byte(raw), &r) != nil || r.Scenario == "" {
		return nil
	}
	return &r
}

// RunReplay re-executes one recorded choice list and reports its findings.
func RunReplay(t *testing.T, sc Scenario, choices []int) {
	e := runOnce(t, sc, choices, nil)
	vrep.Counts(1, 1, int64(len(e.Res.Steps)), 1)
	for _, f := range e.Findings {
		c, _ := choicesOf(e.Res)
		vrep.Violation(f.Sig, fmt.Sprintf("[%s] %s", sc.Name, f.Detail), Replay{Scenario: sc.Name, Desc: sc.Desc, Choices: c, Log: e.Res.Log})
	}
	vrep.Outcomes.Add(e.Outcome)
	vrep.Nontrivial.Add(e.Outcome)
	vrep.Nontrivial.Add(e.Outcome + "#replay")
	vrep.Sample(map[string]any{"replayed": sc.Name, "outcome": e.Outcome, "log": e.Res.Log})
}
