// C12: selection = pattern matches (after the tag / exclude-tag / test / platform
// filters) plus their dependency closure through aliases, nothing else.
//
// Bounded-exhaustive enumeration: every configuration (graph x query) of a few
// explicitly described families is pushed through the real
// analysis.BuildGraph + selection.Selector.SelectTargetsForBuild and compared
// with a reference selector written from the property statement and the
// documentation (reference/labels.md, reference/target-aliases.mdx,
// topics/multi-platform-builds.mdx, the --tag / --exclude-tag CLI help).
package c12

import (
	"encoding/json"
	"fmt"
	"os"
	"sort"
	"strings"
	"testing"

	"grog/internal/analysis"
	"grog/internal/config"
	"grog/internal/label"
	"grog/internal/model"
	"grog/internal/selection"
	"grog/internal/zverif/vrep"
)

// ---------------------------------------------------------------------------
// configuration

type nodeSpec struct {
	Pkg       string   `json:"pkg"`
	Name      string   `json:"name"`
	Alias     bool     `json:"alias,omitempty"`
	Actual    int      `json:"actual,omitempty"` // node index the alias points to (aliases only)
	Deps      []int    `json:"deps,omitempty"`
	Tags      []string `json:"tags,omitempty"`
	Platforms []string `json:"platforms,omitempty"` // architectures; the platform is "os/<arch>"
}

func (n nodeSpec) label() string { return "//" + n.Pkg + ":" + n.Name }

type query struct {
	Cur          string   `json:"current_package"`
	Patterns     []string `json:"patterns"`
	Tags         []string `json:"tags,omitempty"`
	Exclude      []string `json:"exclude_tags,omitempty"`
	Test         bool     `json:"test"`
	Host         string   `json:"host_arch"`
	AllPlatforms bool     `json:"all_platforms,omitempty"`
}

type cfg struct {
	Family string     `json:"family"`
	Nodes  []nodeSpec `json:"nodes"`
	Query  query      `json:"query"`
}

func (q query) cmdline() string {
	var b strings.Builder
	if q.Test {
		b.WriteString("grog test")
	} else {
		b.WriteString("grog build")
	}
	for _, t := range q.Tags {
		b.WriteString(" --tag=" + t)
	}
	for _, t := range q.Exclude {
		b.WriteString(" --exclude-tag=" + t)
	}
	if q.AllPlatforms {
		b.WriteString(" --all-platforms")
	}
	for _, p := range q.Patterns {
		b.WriteString(" " + p)
	}
	fmt.Fprintf(&b, "  (cwd //%s, host os/%s)", q.Cur, q.Host)
	return b.String()
}

func describeGraph(nodes []nodeSpec) string {
	var parts []string
	for _, n := range nodes {
		if n.Alias {
			parts = append(parts, fmt.Sprintf("alias %s -> %s", n.label(), nodes[n.Actual].label()))
			continue
		}
		s := "target " + n.label()
		var attrs []string
		if len(n.Deps) > 0 {
			var ds []string
			for _, d := range n.Deps {
				ds = append(ds, nodes[d].label())
			}
			attrs = append(attrs, "deps "+strings.Join(ds, ","))
		}
		if len(n.Tags) > 0 {
			attrs = append(attrs, "tags "+strings.Join(n.Tags, ","))
		}
		if len(n.Platforms) > 0 {
			attrs = append(attrs, "platforms os/"+strings.Join(n.Platforms, ",os/"))
		}
		if len(attrs) > 0 {
			s += " [" + strings.Join(attrs, "; ") + "]"
		}
		parts = append(parts, s)
	}
	return strings.Join(parts, " | ")
}

// ---------------------------------------------------------------------------
// reference (statement + documentation only)

type refPat struct {
	prefix    string
	recursive bool
	name      string // "" = any name
}

// refParsePattern understands the documented pattern forms (labels.md).
func refParsePattern(cur, s string) (refPat, bool) {
	anyName := func(n string) string {
		if n == "all" || n == "..." {
			return ""
		}
		return n
	}
	if strings.HasPrefix(s, ":") {
		if len(s) == 1 {
			return refPat{}, false
		}
		return refPat{prefix: cur, name: anyName(s[1:])}, true
	}
	if !strings.HasPrefix(s, "//") {
		return refPat{}, false
	}
	body := s[2:]
	pkgPart, tname, hasColon := body, "", false
	if i := strings.Index(body, ":"); i >= 0 {
		pkgPart, tname, hasColon = body[:i], body[i+1:], true
		if tname == "" {
			return refPat{}, false
		}
	}
	if pkgPart == "..." || strings.HasSuffix(pkgPart, "/...") {
		prefix := strings.TrimSuffix(strings.TrimSuffix(pkgPart, "..."), "/")
		if !hasColon {
			return refPat{prefix: prefix, recursive: true}, true
		}
		if tname == "all" || tname == "..." {
			return refPat{}, false // not documented
		}
		return refPat{prefix: prefix, recursive: true, name: tname}, true
	}
	if strings.Contains(pkgPart, "...") {
		return refPat{}, false
	}
	if hasColon {
		return refPat{prefix: pkgPart, name: anyName(tname)}, true
	}
	if pkgPart == "" {
		return refPat{}, false
	}
	segs := strings.Split(pkgPart, "/")
	return refPat{prefix: pkgPart, name: segs[len(segs)-1]}, true
}

func (p refPat) matches(pkg, name string) bool {
	if p.recursive {
		if p.prefix != "" && pkg != p.prefix && !strings.HasPrefix(pkg, p.prefix+"/") {
			return false
		}
	} else if pkg != p.prefix {
		return false
	}
	return p.name == "" || p.name == name
}

func hasAny(have, want []string) bool {
	for _, w := range want {
		for _, h := range have {
			if h == w {
				return true
			}
		}
	}
	return false
}

// prepared query: reference patterns + patterns parsed by the real parser
type pq struct {
	q    query
	ref  []refPat
	real []label.TargetPattern
}

func prepare(q query) (*pq, error) {
	p := &pq{q: q}
	for _, s := range q.Patterns {
		r, ok := refParsePattern(q.Cur, s)
		if !ok {
			return nil, fmt.Errorf("pattern %q is not a documented form", s)
		}
		p.ref = append(p.ref, r)
		rp, err := label.ParseTargetPattern(q.Cur, s)
		if err != nil {
			return nil, fmt.Errorf("documented pattern %q rejected by the real parser: %v", s, err)
		}
		p.real = append(p.real, rp)
	}
	return p, nil
}

type expectation struct {
	targets     uint32 // bit i: node i is a target (not an alias)
	patMatch    uint32 // node label matches one of the patterns (targets and aliases)
	typeOK      uint32
	tagsOK      uint32
	excluded    uint32
	platOK      uint32
	closure     [8]uint32 // all nodes reachable over dependency edges (aliases are traversed)
	noAlias     [8]uint32 // targets reachable without crossing an alias
	reqRoots    uint32    // targets that must be built as roots
	viaAliasReq uint32    // required roots that are roots only because a matched alias points to them
	optRoots    uint32    // targets an alias matched by a pattern points to, but which fail a filter: undefined
	must        uint32    // targets that must be selected
	may         uint32    // targets that may be selected
	errRoots    uint32    // required roots with a platform-incompatible (transitive) dependency
	errRequired bool
	errAllowed  bool
}

func reference(nodes []nodeSpec, p *pq) expectation {
	var e expectation
	n := len(nodes)
	q := &p.q
	for i, nd := range nodes {
		bit := uint32(1) << uint(i)
		for _, rp := range p.ref {
			if rp.matches(nd.Pkg, nd.Name) {
				e.patMatch |= bit
				break
			}
		}
		if nd.Alias {
			e.closure[i] = uint32(1)<<uint(nd.Actual) | e.closure[nd.Actual]
			continue
		}
		e.targets |= bit
		isTest := strings.HasSuffix(nd.Name, "test")
		if isTest == q.Test {
			e.typeOK |= bit
		}
		if len(q.Tags) == 0 || hasAny(nd.Tags, q.Tags) {
			e.tagsOK |= bit
		}
		if hasAny(nd.Tags, q.Exclude) {
			e.excluded |= bit
		}
		if q.AllPlatforms || len(nd.Platforms) == 0 || hasAny(nd.Platforms, []string{q.Host}) {
			e.platOK |= bit
		}
		for _, d := range nd.Deps {
			e.closure[i] |= uint32(1)<<uint(d) | e.closure[d]
			if !nodes[d].Alias {
				e.noAlias[i] |= uint32(1)<<uint(d) | e.noAlias[d]
			}
		}
	}
	resolve := func(i int) int {
		for nodes[i].Alias {
			i = nodes[i].Actual
		}
		return i
	}
	filtersOK := e.typeOK & e.tagsOK &^ e.excluded
	// targets matching the patterns and every filter
	direct := e.targets & e.patMatch & filtersOK & e.platOK
	e.reqRoots = direct
	for i := 0; i < n; i++ {
		if !nodes[i].Alias || e.patMatch&(1<<uint(i)) == 0 {
			continue
		}
		// "When you build an alias, Grog will transparently build the aliased target."
		tb := uint32(1) << uint(resolve(i))
		if filtersOK&e.platOK&tb != 0 {
			e.reqRoots |= tb
		} else {
			// whether the filters apply to the aliased target is not defined anywhere
			e.optRoots |= tb
		}
	}
	e.viaAliasReq = e.reqRoots &^ direct
	e.optRoots &^= e.reqRoots
	e.must = e.reqRoots
	for i := 0; i < n; i++ {
		bit := uint32(1) << uint(i)
		if e.reqRoots&bit == 0 {
			continue
		}
		deps := e.closure[i] & e.targets
		e.must |= deps
		if deps&^e.platOK != 0 {
			e.errRequired = true
			e.errRoots |= bit
		}
	}
	e.may = e.must
	for i := 0; i < n; i++ {
		bit := uint32(1) << uint(i)
		if e.optRoots&bit == 0 {
			continue
		}
		deps := e.closure[i] & e.targets
		if (bit|deps)&^e.platOK != 0 {
			e.errAllowed = true
		}
		if e.platOK&bit != 0 {
			e.may |= bit | deps
		}
	}
	if e.errRequired {
		e.errAllowed = true
	}
	return e
}

// ---------------------------------------------------------------------------
// real code

type observed struct {
	selected uint32 // all nodes, by IsSelected
	count    int
	skipped  int
	err      error
	panicked any
	graphErr error
}

func runReal(nodes []nodeSpec, p *pq, reverse bool) (o observed) {
	q := &p.q
	config.Global.OS = "os"
	config.Global.Arch = q.Host
	config.Global.AllPlatforms = q.AllPlatforms
	config.Global.Tags = q.Tags
	config.Global.ExcludeTags = q.Exclude
	n := len(nodes)
	objs := make([]model.BuildNode, n)
	lbl := func(i int) label.TargetLabel { return label.TargetLabel{Package: nodes[i].Pkg, Name: nodes[i].Name} }
	for i, nd := range nodes {
		if nd.Alias {
			objs[i] = &model.Alias{Label: lbl(i), Actual: lbl(nd.Actual)}
			continue
		}
		t := &model.Target{Label: lbl(i), Command: "true"}
		for _, d := range nd.Deps {
			t.Dependencies = append(t.Dependencies, lbl(d))
		}
		if len(nd.Tags) > 0 {
			t.Tags = append([]string{}, nd.Tags...)
		}
		for _, a := range nd.Platforms {
			t.Platforms = append(t.Platforms, "os/"+a)
		}
		objs[i] = t
	}
	nm := make(model.BuildNodeMap)
	if reverse {
		for i := n - 1; i >= 0; i-- {
			nm[objs[i].GetLabel()] = objs[i]
		}
	} else {
		for i := 0; i < n; i++ {
			nm[objs[i].GetLabel()] = objs[i]
		}
	}
	defer func() {
		if r := recover(); r != nil {
			o.panicked = r
		}
	}()
	graph, err := analysis.BuildGraph(nm)
	if err != nil {
		o.graphErr = err
		return
	}
	mode := selection.NonTestOnly
	if q.Test {
		mode = selection.TestOnly
	}
	sel := selection.New(p.real, config.Global.Tags, config.Global.ExcludeTags, mode)
	o.count, o.skipped, o.err = sel.SelectTargetsForBuild(graph)
	for i := range objs {
		if objs[i].GetIsSelected() {
			o.selected |= 1 << uint(i)
		}
	}
	return
}

// ---------------------------------------------------------------------------
// comparison

var (
	evals, realRuns, graphsSeen int64
	ambiguous                   int64
	samplesLeft                 = 3
	sampleShard                 bool
)

func labelsOf(nodes []nodeSpec, mask uint32) []string {
	out := []string{}
	for i := range nodes {
		if mask&(1<<uint(i)) != 0 {
			out = append(out, nodes[i].label())
		}
	}
	sort.Strings(out)
	return out
}

func popcount(x uint32) int {
	c := 0
	for ; x != 0; x &= x - 1 {
		c++
	}
	return c
}

func evaluate(fam string, nodes []nodeSpec, p *pq, key string) {
	evals++
	e := reference(nodes, p)
	o := runReal(nodes, p, false)
	o2 := runReal(nodes, p, true)
	realRuns += 2
	mk := func() cfg {
		c := cfg{Family: fam, Query: p.q}
		c.Nodes = append([]nodeSpec{}, nodes...)
		return c
	}
	where := func() string { return p.q.cmdline() + " on {" + describeGraph(nodes) + "}" }

	if e.optRoots != 0 {
		ambiguous++
		noteUndefined(&e, &o)
	}
	if e.errRequired || (e.must != 0 && e.targets&^e.may != 0) {
		vrep.Nontrivial.Add(key)
	}
	if o.panicked != nil || o2.panicked != nil {
		vrep.Violation("selector-panic", fmt.Sprintf("panic %v / %v: %s", o.panicked, o2.panicked, where()), mk())
		return
	}
	if o.graphErr != nil || o2.graphErr != nil {
		vrep.Broken("BuildGraph rejected a well-formed graph: %v / %v: %s", o.graphErr, o2.graphErr, where())
		return
	}
	selT := o.selected & e.targets
	if o.err != nil {
		vrep.Outcomes.Add("error")
	} else {
		vrep.Outcomes.Add(strings.Join(labelsOf(nodes, selT), " "))
	}
	if sampleShard && samplesLeft > 0 && e.must != 0 && e.targets&^e.may != 0 && e.must != e.reqRoots && len(nodes) >= 3 && evals%977 == 0 {
		samplesLeft--
		vrep.Sample(map[string]any{"config": mk(), "invocation": where(), "reference_selected": labelsOf(nodes, e.must), "real_selected": labelsOf(nodes, selT), "real_count": o.count, "real_error": fmt.Sprint(o.err)})
	}

	// map iteration order must not matter
	if (o.err != nil) != (o2.err != nil) {
		vrep.Violation("order-dependent-selection:error", fmt.Sprintf("same configuration, different node map insertion order: error %v vs %v: %s", o.err, o2.err, where()), mk())
	} else if o.err == nil && (o.selected&e.targets != o2.selected&e.targets || o.count != o2.count) {
		vrep.Violation("order-dependent-selection", fmt.Sprintf("same configuration, different node map insertion order: selected %v (count %d) vs %v (count %d): %s", labelsOf(nodes, o.selected&e.targets), o.count, labelsOf(nodes, o2.selected&e.targets), o2.count, where()), mk())
	}

	n := len(nodes)
	topBit := func(mask uint32) int { // highest node index in mask: never a dependency of another member
		for i := n - 1; i >= 0; i-- {
			if mask&(1<<uint(i)) != 0 {
				return i
			}
		}
		return -1
	}
	reportMissingRoot := func(i int) {
		sig, why := classifyMissingRoot(nodes, &e, p, i)
		vrep.Violation(sig, fmt.Sprintf("%s is not selected although %s; selected: %v: %s", nodes[i].label(), why, labelsOf(nodes, selT), where()), mk())
	}

	if e.errRequired {
		if o.err == nil {
			if sel := e.errRoots & selT; sel != 0 {
				r := topBit(sel)
				bad := e.closure[r] & e.targets &^ e.platOK
				d := topBit(bad)
				sig := "platform-mismatch-not-an-error"
				if e.noAlias[r]&bad == 0 {
					sig += ":dependency-through-alias"
				}
				vrep.Violation(sig, fmt.Sprintf("%s is built and (transitively) depends on %s which does not run on os/%s, but selection succeeded with %v: %s", nodes[r].label(), nodes[d].label(), p.q.Host, labelsOf(nodes, selT), where()), mk())
			} else {
				// the root was never taken: that, not the platform check, is the failure
				reportMissingRoot(topBit(e.errRoots))
			}
		}
		return
	}
	if o.err != nil {
		if !e.errAllowed {
			sig, why := classifyUnexpectedError(&e, p)
			vrep.Violation(sig, fmt.Sprintf("no target that has to be built has a platform-incompatible dependency%s, yet selection failed with %q: %s", why, o.err, where()), mk())
		}
		return
	}

	// no error: compare the selected targets; per configuration only the
	// top-most discrepancy is reported (the rest follows from it)
	if missing := e.must &^ selT; missing != 0 {
		if mr := missing & e.reqRoots; mr != 0 {
			reportMissingRoot(topBit(mr))
		} else {
			i := topBit(missing)
			sig, why := classifyMissingDep(nodes, &e, selT, i)
			vrep.Violation(sig, fmt.Sprintf("%s is not selected although %s; selected: %v: %s", nodes[i].label(), why, labelsOf(nodes, selT), where()), mk())
		}
	}
	if extra := selT &^ e.may; extra != 0 {
		i := topBit(extra)
		sig, why := classifyExtra(&e, uint32(1)<<uint(i))
		vrep.Violation(sig, fmt.Sprintf("%s is selected although %s; must be selected: %v, selected: %v: %s", nodes[i].label(), why, labelsOf(nodes, e.must), labelsOf(nodes, selT), where()), mk())
	}
	// execution follows node edges: every node (alias nodes included) on the dependency paths of a
	// selected target must be selected as well, otherwise the dependant is never released
	// ("dependencies followed through aliases")
	for i := n - 1; i >= 0; i-- {
		if o.selected&(1<<uint(i)) == 0 || e.targets&(1<<uint(i)) == 0 {
			continue
		}
		if open := e.closure[i] &^ o.selected; open != 0 && e.must&(1<<uint(i)) != 0 {
			vrep.Violation("selected-target-with-unselected-node-on-its-dependency-path", fmt.Sprintf("%s is selected but the nodes %v on its dependency paths are not (an unselected alias node is never walked, the dependant never starts): %s", nodes[i].label(), labelsOf(nodes, open), where()), mk())
			break
		}
	}
	// whatever is selected below a root of undefined status must be closed under
	// dependencies and must not contain platform-incompatible targets either
	und := selT & e.may &^ e.must
	for i := n - 1; i >= 0 && und != 0; i-- {
		if und&(1<<uint(i)) == 0 {
			continue
		}
		if open := e.closure[i] & e.targets &^ selT; open != 0 {
			vrep.Violation("selected-target-with-unselected-dependency", fmt.Sprintf("%s is selected but its dependencies %v are not: %s", nodes[i].label(), labelsOf(nodes, open), where()), mk())
			break
		}
	}
	if bad := und &^ e.platOK; bad != 0 {
		vrep.Violation("platform-incompatible-target-selected", fmt.Sprintf("%v do not run on os/%s but are selected without an error: %s", labelsOf(nodes, bad), p.q.Host, where()), mk())
	}
	if o.count != popcount(selT) {
		vrep.Violation("count-mismatch", fmt.Sprintf("selectedCount=%d but %d targets are marked selected (%v); platformSkipped=%d: %s", o.count, popcount(selT), labelsOf(nodes, selT), o.skipped, where()), mk())
	}
}

// noteUndefined counts (never judges) what the real selector does with a
// target that is reached only through a pattern-matched alias and fails a filter.
var undefinedSeen = map[string]int64{}

func noteUndefined(e *expectation, o *observed) {
	if o.err != nil {
		if !e.errRequired {
			undefinedSeen["real: selection error caused only by such an alias"]++
		}
		return
	}
	extra := o.selected & e.targets & e.optRoots &^ e.must
	switch {
	case e.optRoots&^e.must == 0:
		undefinedSeen["moot: aliased target has to be selected as a dependency anyway"]++
	case extra == 0:
		undefinedSeen["real: aliased target not selected"]++
	case extra&e.excluded != 0:
		undefinedSeen["real: aliased target selected although it carries an excluded tag"]++
	case extra&^e.tagsOK != 0:
		undefinedSeen["real: aliased target selected although it lacks the requested tag"]++
	case extra&^e.typeOK != 0:
		undefinedSeen["real: aliased target selected although it is of the other test/non-test kind"]++
	default:
		undefinedSeen["real: aliased target selected (other)"]++
	}
}

func classifyMissingRoot(nodes []nodeSpec, e *expectation, p *pq, i int) (string, string) {
	bit := uint32(1) << uint(i)
	if e.viaAliasReq&bit != 0 {
		return "alias-matched-by-pattern-does-not-select-its-target", "an alias matched by the patterns points to it and it passes every filter"
	}
	why := "it matches the patterns and the tag, exclude-tag, test and platform filters"
	if p.q.AllPlatforms && len(nodes[i].Platforms) > 0 && !hasAny(nodes[i].Platforms, []string{p.q.Host}) {
		return "misses-matched-target:all-platforms-not-honoured", why + " (--all-platforms)"
	}
	return "misses-matched-target", why
}

// classifyMissingDep: node i is required as a dependency only and is not selected.
func classifyMissingDep(nodes []nodeSpec, e *expectation, selT uint32, i int) (string, string) {
	bit := uint32(1) << uint(i)
	// a selected required target that reaches i
	direct, root := false, -1
	for r := len(nodes) - 1; r >= 0; r-- {
		rb := uint32(1) << uint(r)
		if e.must&selT&rb == 0 || e.closure[r]&bit == 0 {
			continue
		}
		if root < 0 {
			root = r
		}
		if e.noAlias[r]&bit != 0 {
			direct, root = true, r
			break
		}
	}
	why := fmt.Sprintf("it is a transitive dependency of the selected %s", nodes[root].label())
	if !direct {
		return "misses-dependency-through-alias", why + " (reached only through an alias)"
	}
	switch {
	case e.tagsOK&bit == 0:
		return "tag-filter-applied-to-dependency", why + " (the dependency itself lacks the requested tag)"
	case e.excluded&bit != 0:
		return "exclude-tag-applied-to-dependency", why + " (the dependency itself carries an excluded tag)"
	case e.typeOK&bit == 0:
		return "test-filter-applied-to-dependency", why + " (the dependency itself is of the other test/non-test kind)"
	case e.patMatch&bit == 0:
		return "pattern-applied-to-dependency", why + " (the dependency itself matches no pattern)"
	}
	return "misses-dependency", why
}

func classifyExtra(e *expectation, bit uint32) (string, string) {
	switch {
	case e.platOK&bit == 0 && e.patMatch&e.typeOK&e.tagsOK&^e.excluded&bit != 0:
		return "platform-skipped-target-selected", "it does not run on the host platform (it has to be skipped) and is not a dependency of anything that has to be built"
	case e.platOK&bit == 0:
		return "platform-incompatible-target-selected", "it does not run on the host platform and nothing that has to be built depends on it"
	case e.patMatch&bit == 0:
		return "selects-unrelated-target", "it matches no pattern and is not a dependency of anything that has to be built"
	case e.excluded&bit != 0:
		return "exclude-tag-ignored", "it carries an excluded tag and is not a dependency of anything that has to be built"
	case e.tagsOK&bit == 0:
		return "tag-filter-ignored", "it has none of the requested tags and is not a dependency of anything that has to be built"
	case e.typeOK&bit == 0:
		return "test-filter-ignored", "it is of the other test/non-test kind and is not a dependency of anything that has to be built"
	}
	return "selects-unrelated-target", "nothing requires it"
}

// classifyUnexpectedError looks for the filtered-out target whose dependencies would explain the error.
func classifyUnexpectedError(e *expectation, p *pq) (string, string) {
	for i := 7; i >= 0; i-- {
		bit := uint32(1) << uint(i)
		if e.targets&e.patMatch&bit == 0 || e.reqRoots&bit != 0 || e.closure[i]&e.targets&^e.platOK == 0 {
			continue
		}
		switch {
		case e.platOK&bit == 0:
			return "unexpected-selection-error:dependencies-of-platform-skipped-target", " (a platform-skipped target has one)"
		case e.excluded&bit != 0:
			return "unexpected-selection-error:dependencies-of-excluded-target", " (a target with an excluded tag has one)"
		case e.tagsOK&bit == 0:
			return "unexpected-selection-error:dependencies-of-untagged-target", " (a target without the requested tag has one)"
		case e.typeOK&bit == 0:
			return "unexpected-selection-error:dependencies-of-other-kind-target", " (a target of the other test/non-test kind has one)"
		}
	}
	if p.q.AllPlatforms {
		return "unexpected-selection-error:all-platforms-not-honoured", " (--all-platforms makes every target compatible)"
	}
	return "unexpected-selection-error", ""
}

// ---------------------------------------------------------------------------
// families

type tOpt struct {
	pkg, name string
	tags      []string
	plats     []string
}

type family struct {
	name       string
	minN, maxN int
	targetOpts func(i int) []tOpt
	aliasOpts  func(i int) [][2]string // labels an alias at index i may carry
	queries    func(n int) []query
}

var (
	allPkgs  = []string{"", "a", "a/b", "ab", "ab/c"} // ab and ab/c: siblings whose name extends the prefix of //a/...
	allNames = []string{"x", "y", "a", "b", "xtest"}
	tagSets  = [][]string{nil, {"x"}, {"y"}, {"x", "y"}}
	platSets = [][]string{nil, {"p"}, {"q"}, {"p", "q"}}
)

// pattern strings: 3 absolute labels, 8 wildcard/shorthand forms, and the relative ":x"
var absPatterns = []string{"//a:x", "//a/b:b", "//:xtest", "//a/...", "//...", "//a:all", "//a:...", "//a", "//a/b", "//...:x", "//a/...:x"}

const relPattern = ":x"

// patternSets returns (current package, patterns) for every set of size
// 1..maxSize; sets without a relative pattern use current package "ab" only.
func patternSets(maxSize int) [][2]any {
	var out [][2]any
	for _, a := range absPatterns {
		out = append(out, [2]any{"ab", []string{a}})
	}
	for _, c := range allPkgs {
		out = append(out, [2]any{c, []string{relPattern}})
	}
	if maxSize >= 2 {
		for i := range absPatterns {
			for j := i + 1; j < len(absPatterns); j++ {
				out = append(out, [2]any{"ab", []string{absPatterns[i], absPatterns[j]}})
			}
		}
		for _, a := range absPatterns {
			for _, c := range allPkgs {
				out = append(out, [2]any{c, []string{a, relPattern}})
			}
		}
	}
	return out
}

// tagFilterSets: tags x exclude-tags, never overlapping
var tagFilterSets = [][2][]string{{nil, nil}, {{"x"}, nil}, {{"y"}, nil}, {{"x", "y"}, nil}, {nil, {"y"}}, {{"x"}, {"y"}}, {nil, {"x", "y"}}}

func structureLabels(reversed bool) [][2]string {
	l := [][2]string{{"", "x"}, {"a", "a"}, {"a/b", "b"}, {"ab", "y"}, {"a", "b"}}
	if reversed {
		for i, j := 0, len(l)-1; i < j; i, j = i+1, j-1 {
			l[i], l[j] = l[j], l[i]
		}
	}
	return l
}

// structure family: every DAG shape; node i carries a fixed label (or, for the
// test profile, name xtest in the same package) and one of `profiles`.
func structureFamily(name string, minN, maxN int, reversed bool, profiles []string, qs []query) family {
	labels := structureLabels(reversed)
	return family{
		name: name, minN: minN, maxN: maxN,
		targetOpts: func(i int) []tOpt {
			var out []tOpt
			for _, p := range profiles {
				o := tOpt{pkg: labels[i][0], name: labels[i][1]}
				switch p {
				case "plain":
				case "x":
					o.tags = []string{"x"}
				case "y":
					o.tags = []string{"y"}
				case "q":
					o.plats = []string{"q"}
				case "xq":
					o.tags, o.plats = []string{"x"}, []string{"q"}
				case "test":
					o.name = "xtest"
				}
				out = append(out, o)
			}
			return out
		},
		aliasOpts: func(i int) [][2]string { return [][2]string{labels[i]} },
		queries:   func(int) []query { return qs },
	}
}

func structureQueries(thorough bool) []query {
	type ps struct {
		cur  string
		pats []string
	}
	sets := []ps{{"a", []string{"//..."}}, {"a", []string{"//a/..."}}, {"a", []string{"//a:all", "//ab:y"}}, {"", []string{":x", "//a/b"}}}
	tf := [][2][]string{{nil, nil}, {{"x"}, nil}}
	if thorough {
		tf = [][2][]string{{nil, nil}, {{"x"}, nil}, {nil, {"y"}}, {{"x"}, {"y"}}}
	}
	var out []query
	for _, s := range sets {
		for _, t := range tf {
			for _, test := range []bool{false, true} {
				for _, all := range []bool{false, true} {
					out = append(out, query{Cur: s.cur, Patterns: s.pats, Tags: t[0], Exclude: t[1], Test: test, Host: "p", AllPlatforms: all})
				}
			}
		}
	}
	return out
}

func families(thorough bool) []family {
	var fams []family

	// S: structure
	if !thorough {
		fams = append(fams, structureFamily("structure<=4", 1, 4, false, []string{"plain", "x", "q", "xq", "test"}, structureQueries(false)))
		fams = append(fams, structureFamily("structure<=4/reversed-labels", 1, 4, true, []string{"plain", "x", "q", "xq", "test"}, structureQueries(false)))
	} else {
		fams = append(fams, structureFamily("structure<=4", 1, 4, false, []string{"plain", "x", "y", "q", "xq", "test"}, structureQueries(true)))
		fams = append(fams, structureFamily("structure<=4/reversed-labels", 1, 4, true, []string{"plain", "x", "q", "xq", "test"}, structureQueries(false)))
		var q5 []query
		for _, pats := range [][]string{{"//..."}, {"//a/..."}} {
			for _, tags := range [][]string{nil, {"x"}} {
				for _, test := range []bool{false, true} {
					for _, all := range []bool{false, true} {
						q5 = append(q5, query{Cur: "a", Patterns: pats, Tags: tags, Test: test, Host: "p", AllPlatforms: all})
					}
				}
			}
		}
		fams = append(fams, structureFamily("structure=5", 5, 5, false, []string{"plain", "x", "q", "test"}, q5))
	}

	// P: patterns x labels
	{
		full := func(i int) []tOpt {
			var out []tOpt
			for _, p := range allPkgs {
				for _, n := range allNames {
					out = append(out, tOpt{pkg: p, name: n})
				}
			}
			return out
		}
		fullAlias := func(i int) [][2]string {
			var out [][2]string
			for _, p := range allPkgs {
				for _, n := range allNames {
					out = append(out, [2]string{p, n})
				}
			}
			return out
		}
		mk := func(maxSize int, modes []bool) []query {
			var out []query
			for _, s := range patternSets(maxSize) {
				for _, test := range modes {
					out = append(out, query{Cur: s[0].(string), Patterns: s[1].([]string), Test: test, Host: "p"})
				}
			}
			return out
		}
		q2 := mk(2, []bool{false, true})
		fams = append(fams, family{name: "patterns<=2", minN: 1, maxN: 2, targetOpts: full, aliasOpts: fullAlias, queries: func(int) []query { return q2 }})
		if thorough {
			q1 := mk(1, []bool{false})
			fams = append(fams, family{name: "patterns=3", minN: 3, maxN: 3, targetOpts: full, aliasOpts: fullAlias, queries: func(int) []query { return q1 }})
		}
	}

	// F: attributes x filters
	{
		var qs, qsBuild []query
		for _, pats := range [][]string{{"//..."}, {"//a/b:all"}, {"//a:all"}} {
			for _, t := range tagFilterSets {
				for _, test := range []bool{false, true} {
					for _, host := range []string{"p", "q", "pq"} { // os/pq: the selectors os/p is a strict prefix of the host platform
						for _, all := range []bool{false, true} {
							q := query{Cur: "ab", Patterns: pats, Tags: t[0], Exclude: t[1], Test: test, Host: host, AllPlatforms: all}
							qs = append(qs, q)
							if !test {
								qsBuild = append(qsBuild, q)
							}
						}
					}
				}
			}
		}
		attr := func(labels [][][2]string) func(i int) []tOpt {
			return func(i int) []tOpt {
				var out []tOpt
				for _, l := range labels[i] {
					for _, t := range tagSets {
						for _, p := range platSets {
							out = append(out, tOpt{pkg: l[0], name: l[1], tags: t, plats: p})
						}
					}
				}
				return out
			}
		}
		l2 := [][][2]string{{{"a", "x"}, {"a", "xtest"}}, {{"a/b", "b"}, {"a/b", "xtest"}}}
		fams = append(fams, family{name: "filters<=2", minN: 1, maxN: 2, targetOpts: attr(l2),
			aliasOpts: func(i int) [][2]string { return [][2]string{l2[i][0]} }, queries: func(int) []query { return qs }})
		if thorough {
			l3 := [][][2]string{{{"a", "x"}}, {{"a/b", "b"}}, {{"", "y"}}}
			fams = append(fams, family{name: "filters=3", minN: 3, maxN: 3, targetOpts: attr(l3),
				aliasOpts: func(i int) [][2]string { return [][2]string{l3[i][0]} }, queries: func(int) []query { return qsBuild }})
		}
	}
	return fams
}

func (f *family) run(shard, shards int) error {
	prepared := map[int][]*pq{}
	for n := f.minN; n <= f.maxN; n++ {
		for _, q := range f.queries(n) {
			p, err := prepare(q)
			if err != nil {
				return err
			}
			prepared[n] = append(prepared[n], p)
		}
	}
	var nodes []nodeSpec
	var gi int64
	var famEvals int64
	dup := func(pkg, name string) bool {
		for _, nd := range nodes {
			if nd.Pkg == pkg && nd.Name == name {
				return true
			}
		}
		return false
	}
	depLists := make([][][]int, f.maxN)
	for i := range depLists {
		for mask := 0; mask < 1<<uint(i); mask++ {
			var l []int
			for d := 0; d < i; d++ {
				if mask&(1<<uint(d)) != 0 {
					l = append(l, d)
				}
			}
			depLists[i] = append(depLists[i], l)
		}
	}
	// graphs are visited by increasing size so that the first witness of a
	// signature is a small one
	size := 0
	var rec func()
	rec = func() {
		i := len(nodes)
		if i == size {
			gi++
			if int(gi%int64(shards)) == shard {
				graphsSeen++
				for qi, p := range prepared[i] {
					evaluate(f.name, nodes, p, fmt.Sprintf("%s|%d|%d", f.name, gi, qi))
					famEvals++
				}
			}
			return
		}
		for _, o := range f.targetOpts(i) {
			if dup(o.pkg, o.name) {
				continue
			}
			for _, deps := range depLists[i] {
				nodes = append(nodes, nodeSpec{Pkg: o.pkg, Name: o.name, Deps: deps, Tags: o.tags, Platforms: o.plats})
				rec()
				nodes = nodes[:i]
			}
		}
		if i > 0 {
			for _, l := range f.aliasOpts(i) {
				if dup(l[0], l[1]) {
					continue
				}
				for j := 0; j < i; j++ {
					nodes = append(nodes, nodeSpec{Pkg: l[0], Name: l[1], Alias: true, Actual: j})
					rec()
					nodes = nodes[:i]
				}
			}
		}
	}
	for size = f.minN; size <= f.maxN; size++ {
		rec()
	}
	vrep.AddInt("configurations["+f.name+"]", famEvals)
	if shard == 0 {
		vrep.Set("graphs["+f.name+"]", gi)
	}
	return nil
}

func TestVerif(t *testing.T) {
	if raw := os.Getenv("VERIF_REPLAY"); raw != "" {
		var c cfg
		if err := json.Unmarshal([]byte(raw), &c); err != nil {
			vrep.Broken("bad replay: %v", err)
			vrep.Done()
			return
		}
		if sh, _ := vrep.Shard(); sh == 0 {
			p, err := prepare(c.Query)
			if err != nil {
				vrep.Broken("%v", err)
			} else {
				evaluate(c.Family, c.Nodes, p, "replay")
				e := reference(c.Nodes, p)
				vrep.Sample(map[string]any{"config": c, "reference_must": labelsOf(c.Nodes, e.must), "reference_may": labelsOf(c.Nodes, e.may), "error_required": e.errRequired, "error_allowed": e.errAllowed})
			}
			vrep.Counts(evals, evals, realRuns, evals)
		}
		vrep.Done()
		return
	}
	shard, shards := vrep.Shard()
	sampleShard = shard == 0
	for _, f := range families(vrep.Thorough()) {
		f := f
		if err := f.run(shard, shards); err != nil {
			vrep.Broken("family %s: %v", f.name, err)
		}
	}
	vrep.Counts(evals, graphsSeen, realRuns, evals)
	vrep.AddInt("configurations_with_alias_root_of_undefined_status", ambiguous)
	for k, v := range undefinedSeen {
		vrep.AddInt("undefined_alias_root/"+k, v)
	}
	vrep.Done()
}
