// Package vlockos replaces "os" in the instrumented workspace_locker.go: every
// file-system call becomes a scheduling point followed by the REAL system call
// (so O_EXCL / write-through-unlinked-fd / unlink semantics are the kernel's);
// only process ids and liveness come from a virtual process table, and a
// virtual process may crash (never run again, pid dead) at any of these points.
package vlockos

import (
	"fmt"
	"os"
	"strconv"
	"strings"
	"sync"
	"syscall"

	"grog/internal/zverif/vs"
)

var (
	ErrNotExist = os.ErrNotExist
	ErrExist    = os.ErrExist
	ErrInvalid  = os.ErrInvalid
	Interrupt   = os.Interrupt
)

const (
	O_RDWR   = os.O_RDWR
	O_CREATE = os.O_CREATE
	O_EXCL   = os.O_EXCL
	O_TRUNC  = os.O_TRUNC
	O_WRONLY = os.O_WRONLY
	O_RDONLY = os.O_RDONLY
	O_APPEND = os.O_APPEND
	O_SYNC   = os.O_SYNC
)

type FileMode = os.FileMode
type Process = os.Process
type FileInfo = os.FileInfo

func SameFile(a, b FileInfo) bool { return os.SameFile(a, b) }

func Stat(name string) (FileInfo, error) {
	step("stat")
	fi, err := os.Stat(name)
	W.event("p%d stats the lock path -> %v", W.self(), short(err))
	return fi, err
}

func inode(fi FileInfo) uint64 {
	if st, ok := fi.Sys().(*syscall.Stat_t); ok {
		return st.Ino
	}
	return 0
}

// TryLockFile replaces the locker's flock helper: a scheduling/crash point followed by the real flock.
func TryLockFile(f *File) error {
	if f == nil {
		return os.ErrInvalid
	}
	step("flock")
	err := syscall.Flock(int(f.f.Fd()), syscall.LOCK_EX|syscall.LOCK_NB)
	w := W
	me := w.self()
	if err == nil {
		if fi, serr := f.f.Stat(); serr == nil {
			w.mu.Lock()
			w.flockedBy[inode(fi)] = me
			f.locked = true
			w.mu.Unlock()
		}
	}
	w.event("p%d flock(lock file #%d) -> %v", me, f.gen, short(err))
	return err
}

func FindProcess(pid int) (*os.Process, error) { return os.FindProcess(pid) }

// ---- virtual process table (reset per execution by the harness) ----

type World struct {
	mu      sync.Mutex
	pidOf   map[int]int  // thread id -> pid
	alive   map[int]bool // pid -> alive
	Crashes int          // crashes still allowed
	crashed map[int]bool
	OnCrash func(pid int)
	// lock-file ownership tracking for classifying a mutual exclusion failure
	gen        int
	owner      int             // pid that created the current lock file (0 = none / pre-existing)
	ownerWrote bool            // owner finished writing its pid
	lastView   map[int]string  // pid -> what the process last observed about the lock file
	flockedBy  map[uint64]int  // inode -> pid holding the kernel lock on it
	openFiles  map[int][]*File // pid -> files it has open (closed by the "kernel" when the process crashes)
	inoGen     map[uint64]int
	HarmfulLog []string
	FirstHarm  string
	Events     []string
}

var W *World

func NewWorld() *World {
	W = &World{pidOf: map[int]int{}, alive: map[int]bool{}, crashed: map[int]bool{}, lastView: map[int]string{}, flockedBy: map[uint64]int{}, openFiles: map[int][]*File{}}
	return W
}

func (w *World) Register(pid int, alive bool) {
	w.mu.Lock()
	w.alive[pid] = alive
	w.mu.Unlock()
}

// Bind makes the calling managed goroutine the virtual process pid.
func (w *World) Bind(pid int) {
	w.mu.Lock()
	w.pidOf[vs.ThreadID()] = pid
	w.alive[pid] = true
	w.mu.Unlock()
}

func (w *World) Kill(pid int) {
	w.mu.Lock()
	w.alive[pid] = false
	w.mu.Unlock()
}

func (w *World) IsAlive(pid int) bool {
	w.mu.Lock()
	defer w.mu.Unlock()
	return w.alive[pid]
}

func (w *World) self() int {
	w.mu.Lock()
	defer w.mu.Unlock()
	return w.pidOf[vs.ThreadID()]
}

func (w *World) setView(v string) {
	w.mu.Lock()
	w.lastView[w.pidOf[vs.ThreadID()]] = v
	w.mu.Unlock()
}

func (w *World) event(format string, a ...any) {
	w.mu.Lock()
	w.Events = append(w.Events, fmt.Sprintf(format, a...))
	w.mu.Unlock()
}

var never = new(int)

// step is a scheduling point and a potential crash point of the calling process.
func step(site string) {
	vs.Point(site)
	w := W
	if w == nil {
		return
	}
	pid := w.self()
	if pid == 0 {
		return
	}
	w.mu.Lock()
	can := w.Crashes > 0
	w.mu.Unlock()
	if can && vs.Choose("crash-before:"+site, 2) == 1 {
		w.mu.Lock()
		w.Crashes--
		w.alive[pid] = false
		w.crashed[pid] = true
		cb := w.OnCrash
		files := w.openFiles[pid]
		w.openFiles[pid] = nil
		w.mu.Unlock()
		for _, f := range files {
			f.closeQuietly() // a dead process's descriptors are closed by the kernel (releases its flock)
		}
		w.event("p%d CRASHES before %s", pid, site)
		if cb != nil {
			cb(pid)
		}
		vs.BlockOn(never, "crashed") // never scheduled again
	}
}

func Getpid() int {
	if W == nil {
		return os.Getpid()
	}
	return W.self()
}

// ProcessRunning replaces the liveness probe (kill -0).
func ProcessRunning(pid int) bool {
	step("kill-0")
	r := pid > 0 && W.IsAlive(pid)
	W.setView(map[bool]string{true: "live-pid", false: "dead-pid"}[r])
	W.event("p%d probes pid %d -> alive=%v", W.self(), pid, r)
	return r
}

type File struct {
	f      *os.File
	gen    int
	locked bool
	closed bool
}

func (f *File) closeQuietly() {
	w := W
	w.mu.Lock()
	if f.closed {
		w.mu.Unlock()
		return
	}
	f.closed = true
	if f.locked {
		if fi, err := f.f.Stat(); err == nil {
			delete(w.flockedBy, inode(fi))
		}
	}
	w.mu.Unlock()
	f.f.Close()
}

func (f *File) Fd() uintptr { return f.f.Fd() }

func (f *File) Stat() (FileInfo, error) {
	if f == nil {
		return nil, os.ErrInvalid
	}
	return f.f.Stat()
}

func (f *File) Truncate(n int64) error {
	if f == nil {
		return os.ErrInvalid
	}
	step("truncate")
	return f.f.Truncate(n)
}

func (f *File) WriteAt(b []byte, off int64) (int, error) {
	if f == nil {
		return 0, os.ErrInvalid
	}
	step("write")
	n, err := f.f.WriteAt(b, off)
	w := W
	w.mu.Lock()
	if w.gen == f.gen && err == nil {
		w.ownerWrote = true
	}
	w.mu.Unlock()
	w.event("p%d writes its pid into lock file #%d", w.self(), f.gen)
	return n, err
}

func (f *File) Read(b []byte) (int, error) {
	if f == nil {
		return 0, os.ErrInvalid
	}
	return f.f.Read(b)
}

// PathError / NewFile: pass-throughs, so that a locker that opens its file with a raw system call still builds
type PathError = os.PathError

func NewFile(fd uintptr, name string) *File {
	step("newfile")
	f := os.NewFile(fd, name)
	if f == nil {
		return nil
	}
	w := W
	w.mu.Lock()
	me := w.pidOf[vs.ThreadID()]
	w.gen++
	file := &File{f: f, gen: w.gen}
	w.openFiles[me] = append(w.openFiles[me], file)
	w.mu.Unlock()
	return file
}

func OpenFile(name string, flag int, perm FileMode) (*File, error) {
	step("open")
	f, err := os.OpenFile(name, flag, perm)
	w := W
	if err != nil {
		w.event("p%d open -> %v", w.self(), short(err))
		return nil, err
	}
	w.mu.Lock()
	me := w.pidOf[vs.ThreadID()]
	g := w.gen
	created := flag&os.O_EXCL != 0
	if fi, serr := f.Stat(); serr == nil && flag&os.O_EXCL == 0 {
		// without O_EXCL the path may have existed: a new generation only for a new inode
		if w.inoGen == nil {
			w.inoGen = map[uint64]int{}
		}
		if old, ok := w.inoGen[inode(fi)]; ok {
			g = old
		} else {
			w.gen++
			g = w.gen
			w.inoGen[inode(fi)] = g
			created = true
		}
	} else if created {
		w.gen++
		g = w.gen
	}
	if flag&os.O_EXCL != 0 {
		w.owner = me
		w.ownerWrote = false
		w.lastView[me] = "its-own-lock"
	}
	file := &File{f: f, gen: g}
	w.openFiles[me] = append(w.openFiles[me], file)
	w.mu.Unlock()
	if created {
		w.event("p%d open -> created lock file #%d", w.self(), g)
	} else {
		w.event("p%d open -> opened existing lock file #%d", w.self(), g)
	}
	return file, nil
}

func (f *File) Write(b []byte) (int, error) {
	if f == nil {
		return 0, os.ErrInvalid
	}
	step("write")
	n, err := f.f.Write(b)
	w := W
	w.mu.Lock()
	if w.gen == f.gen && err == nil {
		w.ownerWrote = true
	}
	w.mu.Unlock()
	w.event("p%d writes its pid into lock file #%d", w.self(), f.gen)
	return n, err
}

func (f *File) Close() error {
	if f == nil {
		return os.ErrInvalid
	}
	f.closeQuietly()
	return nil
}

func ReadFile(name string) ([]byte, error) {
	step("read")
	b, err := os.ReadFile(name)
	switch {
	case err != nil:
		W.setView("read-error")
	case len(strings.TrimSpace(string(b))) == 0:
		W.setView("empty-file")
	default:
		if _, convErr := strconv.Atoi(strings.TrimSpace(string(b))); convErr != nil {
			W.setView("unparsable-content")
		} else {
			W.setView("a-pid")
		}
	}
	W.event("p%d reads lock file -> %q err=%v", W.self(), string(b), short(err))
	return b, err
}

// MkdirAll: the locker recreates the lock directory when it was removed while it waited.
func MkdirAll(path string, perm FileMode) error {
	step("mkdirall")
	return os.MkdirAll(path, perm)
}

func Remove(name string) error {
	step("remove")
	w := W
	w.mu.Lock()
	owner, wrote, g := w.owner, w.ownerWrote, w.gen
	w.mu.Unlock()
	var lockedBy int
	if fi, serr := os.Stat(name); serr == nil {
		w.mu.Lock()
		lockedBy = w.flockedBy[inode(fi)]
		w.mu.Unlock()
	}
	err := os.Remove(name)
	me := w.self()
	if err == nil {
		harm := ""
		if lockedBy != 0 && lockedBy != me && w.IsAlive(lockedBy) {
			harm = "kernel-locked-file-of-live-holder-unlinked"
			owner = lockedBy
		} else if owner != 0 && owner != me && w.IsAlive(owner) {
			w.mu.Lock()
			view := w.lastView[me]
			w.mu.Unlock()
			_ = wrote
			harm = "live-lock-removed-by-process-that-saw-" + view
		}
		w.mu.Lock()
		w.owner = 0
		if harm != "" {
			w.HarmfulLog = append(w.HarmfulLog, fmt.Sprintf("p%d removed lock file #%d of live p%d (%s)", me, g, owner, harm))
			if w.FirstHarm == "" {
				w.FirstHarm = harm
			}
		}
		w.mu.Unlock()
	}
	w.event("p%d removes lock file #%d -> %v", me, g, short(err))
	return err
}

func short(err error) string {
	if err == nil {
		return "ok"
	}
	if pe, ok := err.(*os.PathError); ok {
		return pe.Err.Error()
	}
	return err.Error()
}
