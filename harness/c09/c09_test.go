// C09: cache keys are canonical. Families of target states built around every
// boundary of the hasher's byte stream are pushed through the real hashing API
// under both hash algorithms; key equality must coincide with equality of the
// canonical state tuple named in the property statement.
package c09

import (
	"encoding/json"
	"fmt"
	"os"
	"path/filepath"
	"sort"
	"strings"
	"testing"

	"grog/internal/analysis"
	"grog/internal/config"
	"grog/internal/hashing"
	"grog/internal/label"
	"grog/internal/model"
	"grog/internal/output"
	"grog/internal/proto/gen"
	"grog/internal/zverif/vrep"
)

type file struct {
	Path    string `json:"path"`
	Content string `json:"content"`
	Missing bool   `json:"missing,omitempty"`
	// Symlink: the input is a symbolic link to a file with this content outside the package (a linked input stands for the bytes behind it)
	Symlink bool `json:"symlink,omitempty"`
}

type state struct {
	Pkg         string            `json:"pkg"`
	Name        string            `json:"name"`
	Command     string            `json:"command"`
	Inputs      []file            `json:"inputs"`
	Outputs     []string          `json:"outputs"` // type::identifier
	BinOutput   string            `json:"bin_output,omitempty"`
	DepHashes   []string          `json:"dep_hashes"`
	Fingerprint map[string]string `json:"fingerprint"`
	OS          string            `json:"os"`
	Arch        string            `json:"arch"`
	Tags        []string          `json:"tags"`
	Root        int               `json:"root"` // which workspace root directory to use
}

func (s state) clone() state {
	c := s
	c.Inputs = append([]file{}, s.Inputs...)
	c.Outputs = append([]string{}, s.Outputs...)
	c.DepHashes = append([]string{}, s.DepHashes...)
	c.Tags = append([]string{}, s.Tags...)
	c.Fingerprint = map[string]string{}
	for k, v := range s.Fingerprint {
		c.Fingerprint[k] = v
	}
	return c
}

// canonical is the tuple of the property statement, encoded injectively (JSON).
func (s state) canonical() string {
	type in struct{ P, C string }
	ins := []in{}
	for _, f := range s.Inputs {
		c := "C:" + f.Content
		if f.Missing {
			c = "MISSING"
		}
		ins = append(ins, in{f.Path, c})
	}
	sort.Slice(ins, func(i, j int) bool { return ins[i].P < ins[j].P || (ins[i].P == ins[j].P && ins[i].C < ins[j].C) })
	outs := append([]string{}, s.Outputs...)
	if s.BinOutput != "" {
		outs = append(outs, s.BinOutput)
	}
	sort.Strings(outs)
	deps := append([]string{}, s.DepHashes...)
	sort.Strings(deps)
	fk := []string{}
	for k := range s.Fingerprint {
		fk = append(fk, k)
	}
	sort.Strings(fk)
	fp := [][2]string{}
	for _, k := range fk {
		fp = append(fp, [2]string{k, s.Fingerprint[k]})
	}
	platform := s.OS + "/" + s.Arch
	for _, t := range s.Tags {
		if t == model.TagMultiplatformCache {
			platform = "<any>"
		}
	}
	b, _ := json.Marshal([]any{"//" + s.Pkg + ":" + s.Name, s.Command, ins, outs, deps, fp, platform})
	return string(b)
}

var roots []string

func parseOut(def string) model.Output {
	parts := strings.SplitN(def, "::", 2)
	return model.NewOutput(parts[0], parts[1])
}

var dirCounter int

// key materialises the input files under a fresh package directory and calls
// the real hashing API.
// keyTwice hashes the same model.Target value twice (the hasher sorts slices in
// place, so the second call sees a different declaration order).
var lastTargetRepeat string

func key(s state, algo string) (string, error) {
	root := roots[s.Root]
	config.Global.WorkspaceRoot = root
	config.Global.OS = s.OS
	config.Global.Arch = s.Arch
	config.Global.HashAlgorithm = algo
	pkgDir := filepath.Join(root, s.Pkg)
	os.RemoveAll(pkgDir)
	if err := os.MkdirAll(pkgDir, 0o755); err != nil {
		return "", err
	}
	var inputs []string
	for _, f := range s.Inputs {
		inputs = append(inputs, f.Path)
		if f.Missing {
			continue
		}
		p := filepath.Join(pkgDir, f.Path)
		os.MkdirAll(filepath.Dir(p), 0o755)
		if f.Symlink {
			behind := filepath.Join(root, ".behind-"+s.Pkg, f.Path)
			os.MkdirAll(filepath.Dir(behind), 0o755)
			os.Remove(behind)
			if err := os.WriteFile(behind, []byte(f.Content), 0o644); err != nil {
				return "", err
			}
			if err := os.Symlink(behind, p); err != nil {
				return "", err
			}
			continue
		}
		if err := os.WriteFile(p, []byte(f.Content), 0o644); err != nil {
			return "", err
		}
	}
	t := model.Target{
		Label:       label.TargetLabel{Package: s.Pkg, Name: s.Name},
		Command:     s.Command,
		Inputs:      inputs,
		Fingerprint: s.Fingerprint,
		Tags:        s.Tags,
	}
	for _, o := range s.Outputs {
		t.Outputs = append(t.Outputs, parseOut(o))
	}
	if s.BinOutput != "" {
		t.BinOutput = parseOut(s.BinOutput)
	}
	deps := append([]string{}, s.DepHashes...)
	k, err := hashing.GetTargetChangeHash(t, deps)
	if err == nil {
		// the same target object hashed again must give the same key
		k2, err2 := hashing.GetTargetChangeHash(t, append([]string{}, s.DepHashes...))
		if err2 == nil && k2 != k {
			lastTargetRepeat = fmt.Sprintf("%s then %s", k, k2)
		}
	}
	return k, err
}

func base() state {
	return state{
		Pkg: "p", Name: "t", Command: "cmd",
		Inputs:      []file{{Path: "f1", Content: "x"}, {Path: "f2", Content: "y"}},
		Outputs:     []string{"file::o1"},
		DepHashes:   []string{"d1"},
		Fingerprint: map[string]string{"k": "v"},
		OS:          "linux", Arch: "amd64",
	}
}

// splits returns every way of cutting every string of length <= n over the
// alphabet into (left, right).
func splits(alpha string, n int) [][2]string {
	var strs []string
	var rec func(cur string)
	rec = func(cur string) {
		strs = append(strs, cur)
		if len(cur) == n {
			return
		}
		for _, c := range alpha {
			rec(cur + string(c))
		}
	}
	rec("")
	var out [][2]string
	for _, s := range strs {
		for i := 0; i <= len(s); i++ {
			out = append(out, [2]string{s[:i], s[i:]})
		}
	}
	return out
}

func perms(n int) [][]int {
	if n == 0 {
		return [][]int{{}}
	}
	var out [][]int
	for _, p := range perms(n - 1) {
		for i := 0; i <= len(p); i++ {
			q := append(append(append([]int{}, p[:i]...), n-1), p[i:]...)
			out = append(out, q)
		}
	}
	return out
}

type family struct {
	name   string
	states []state
}

func families(n int) []family {
	var fams []family
	sp := splits("a,=:", n)
	add := func(name string, mk func(l, r string) (state, bool)) {
		f := family{name: name}
		for _, lr := range sp {
			if s, ok := mk(lr[0], lr[1]); ok {
				f.states = append(f.states, s)
			}
		}
		fams = append(fams, f)
	}
	// label | command  (target names may contain letters only: restrict the left part)
	add("boundary:label|command", func(l, r string) (state, bool) {
		if strings.ContainsAny(l, ",=:") {
			return state{}, false
		}
		s := base()
		s.Name = "t" + l
		s.Command = r + "Z"
		return s, true
	})
	add("boundary:command|inputs", func(l, r string) (state, bool) {
		if strings.ContainsAny(r, ":") { // keep file names portable
			return state{}, false
		}
		s := base()
		s.Command = "cmd" + l
		s.Inputs = []file{{Path: r + "f1", Content: "x"}}
		return s, true
	})
	add("boundary:inputs|outputs", func(l, r string) (state, bool) {
		if strings.ContainsAny(l, ":") {
			return state{}, false
		}
		s := base()
		s.Inputs = []file{{Path: "f1" + l, Content: "x"}}
		s.Outputs = []string{"file::" + r + "o"}
		return s, true
	})
	// no inputs: command | outputs directly adjacent
	add("boundary:command|outputs(no inputs)", func(l, r string) (state, bool) {
		s := base()
		s.Inputs = nil
		s.Command = "cmd" + l
		s.Outputs = []string{r + "file::o"}
		if !strings.Contains(s.Outputs[0], "::") {
			return state{}, false
		}
		// the output "type" must be a real one; move r into the command side only
		s.Outputs = []string{"file::o"}
		s.Command = "cmd" + l + r
		return s, true
	})
	add("boundary:outputs|dephashes", func(l, r string) (state, bool) {
		s := base()
		s.Outputs = []string{"file::o" + l}
		s.DepHashes = []string{r + "d1"}
		return s, true
	})
	add("boundary:dephashes|fingerprint", func(l, r string) (state, bool) {
		s := base()
		s.DepHashes = []string{"d1" + l}
		s.Fingerprint = map[string]string{r + "k": "v"}
		return s, true
	})
	add("boundary:fingerprint|platform", func(l, r string) (state, bool) {
		s := base()
		s.Fingerprint = map[string]string{"k": "v" + l}
		s.OS = r + "linux"
		return s, true
	})
	add("boundary:fingerprint key|value", func(l, r string) (state, bool) {
		s := base()
		s.Fingerprint = map[string]string{"k" + l: r + "v"}
		return s, true
	})
	add("boundary:file1 end|file2 start", func(l, r string) (state, bool) {
		s := base()
		s.Inputs = []file{{Path: "f1", Content: "x" + l}, {Path: "f2", Content: r + "y"}}
		return s, true
	})
	add("boundary:file1 end|file2 start (both inputs are symbolic links)", func(l, r string) (state, bool) {
		s := base()
		s.Inputs = []file{{Path: "f1", Content: "x" + l, Symlink: true}, {Path: "f2", Content: r + "y", Symlink: true}}
		return s, true
	})
	add("boundary:file1 end|file2 start (the first input is a symbolic link)", func(l, r string) (state, bool) {
		s := base()
		s.Inputs = []file{{Path: "f1", Content: "x" + l, Symlink: true}, {Path: "f2", Content: r + "y"}}
		return s, true
	})
	add("boundary:os|arch", func(l, r string) (state, bool) {
		if strings.Contains(l+r, "/") {
			return state{}, false
		}
		s := base()
		s.OS = "linux" + l
		s.Arch = r + "amd64"
		return s, true
	})
	// list element boundaries containing the separator
	{
		f := family{name: "list:inputs elements"}
		for _, elems := range [][]string{{"a", "b"}, {"a,b"}, {"a", "b", "a,b"}, {"a,b", "b"}, {"a"}, {"b"}, {"a", "a,b"}} {
			s := base()
			s.Inputs = nil
			for _, e := range elems {
				s.Inputs = append(s.Inputs, file{Path: e, Content: ""})
			}
			f.states = append(f.states, s)
		}
		fams = append(fams, f)
	}
	{
		f := family{name: "list:outputs elements"}
		for _, elems := range [][]string{{"file::a", "file::b"}, {"file::a,file::b"}, {"file::a"}, {"file::b"}, {"dir::a", "file::b"}, {"dir::a,file::b"}, {"file::a", "dir::b"},
			// lists WITHOUT any file output (C09-r6m1 recorded the element lengths of file outputs only)
			{"dir::a", "dir::b"}, {"dir::a,dir::b"}, {"docker::a", "docker::b"}, {"docker::a,docker::b"}, {"dir::a", "docker::b"}, {"dir::a,docker::b"}, {"docker::a", "dir::b"}, {"docker::a,dir::b"}} {
			s := base()
			s.Outputs = elems
			f.states = append(f.states, s)
		}
		// bin_output is an output like any other
		s := base()
		s.Outputs = []string{"file::a"}
		s.BinOutput = "file::b"
		f.states = append(f.states, s)
		fams = append(fams, f)
	}
	{
		f := family{name: "list:dep hash elements"}
		for _, elems := range [][]string{{"d1", "d2"}, {"d1,d2"}, {"d1"}, {"d2"}, {"d1", "d1"}, {}} {
			s := base()
			s.DepHashes = elems
			f.states = append(f.states, s)
		}
		fams = append(fams, f)
	}
	{
		f := family{name: "list:fingerprint entries"}
		for _, m := range []map[string]string{
			{"a": "1", "b": "2"}, {"a": "1,b=2"}, {"a": "1"}, {"b": "2"}, {"a": "2", "b": "1"}, {"a=1,b": "2"}, {}, {"a": ""}, {"": "a"}, {"a": "b=c", "a=b": "c"}, {"a": "b=c"}, {"a=b": "c"},
		} {
			s := base()
			s.Fingerprint = m
			f.states = append(f.states, s)
		}
		fams = append(fams, f)
	}
	// (path, content) pairing, missing vs empty
	{
		f := family{name: "inputs:path-content pairing"}
		contents := []string{"", "x", "y", "xy"}
		for _, c1 := range contents {
			for _, c2 := range contents {
				s := base()
				s.Inputs = []file{{Path: "f1", Content: c1}, {Path: "f2", Content: c2}}
				f.states = append(f.states, s)
			}
		}
		fams = append(fams, f)
	}
	{
		f := family{name: "inputs:missing vs empty file"}
		for _, m1 := range []int{0, 1, 2} {
			for _, m2 := range []int{0, 1, 2} {
				s := base()
				mk := func(p string, m int) file {
					switch m {
					case 0:
						return file{Path: p, Missing: true}
					case 1:
						return file{Path: p, Content: ""}
					}
					return file{Path: p, Content: "x"}
				}
				s.Inputs = []file{mk("f1", m1), mk("f2", m2)}
				f.states = append(f.states, s)
			}
			// ... and the same with one and with three declared inputs (a shortcut for the single-input case)
			s1 := base()
			s1.Inputs = []file{{Path: "f1", Missing: m1 == 0, Content: map[int]string{0: "", 1: "", 2: "x"}[m1]}}
			f.states = append(f.states, s1)
			for _, m3 := range []int{0, 1} {
				s3 := base()
				s3.Inputs = []file{{Path: "f0", Content: "z"}, {Path: "f1", Missing: m1 == 0, Content: map[int]string{0: "", 1: "", 2: "x"}[m1]}, {Path: "f2", Missing: m3 == 0}}
				f.states = append(f.states, s3)
			}
		}
		fams = append(fams, f)
	}
	// same-size contents of the inputs that come AFTER a missing one (a loop over the inputs that ends at the first
	// missing file instead of skipping it would drop them; sizes alone would not tell these states apart)
	{
		f := family{name: "inputs:content after a missing input"}
		for _, pre := range [][]file{nil, {{Path: "f0", Content: "z"}}} {
			for _, c2 := range []string{"x", "y"} {
				for _, c3 := range []string{"p", "q"} {
					s := base()
					s.Inputs = append(append([]file{}, pre...), file{Path: "f1", Missing: true}, file{Path: "f2", Content: c2}, file{Path: "f3", Content: c3})
					f.states = append(f.states, s)
				}
			}
		}
		fams = append(fams, f)
	}
	// order permutations (must be equal) combined with a one-element change (must differ)
	{
		f := family{name: "perm:inputs"}
		// different sizes: a per-file size recorded in the wrong order must show
		files := []file{{Path: "a", Content: "1"}, {Path: "b", Content: "22"}, {Path: "c", Content: "333"}, {Path: "d/e", Content: "4444"}}
		for k := 1; k <= 4; k++ {
			for _, p := range perms(k) {
				s := base()
				s.Inputs = nil
				for _, i := range p {
					s.Inputs = append(s.Inputs, files[i])
				}
				f.states = append(f.states, s)
			}
		}
		fams = append(fams, f)
	}
	{
		f := family{name: "perm:outputs"}
		outs := []string{"file::a", "dir::b", "file::c"}
		for k := 1; k <= 3; k++ {
			for _, p := range perms(k) {
				s := base()
				s.Outputs = nil
				for _, i := range p {
					s.Outputs = append(s.Outputs, outs[i])
				}
				f.states = append(f.states, s)
			}
		}
		fams = append(fams, f)
	}
	{
		f := family{name: "perm:dep hashes"}
		ds := []string{"d1", "d2", "d3"}
		for k := 1; k <= 3; k++ {
			for _, p := range perms(k) {
				s := base()
				s.DepHashes = nil
				for _, i := range p {
					s.DepHashes = append(s.DepHashes, ds[i])
				}
				f.states = append(f.states, s)
			}
		}
		fams = append(fams, f)
	}
	{
		// fingerprint insertion orders + growth of the map (re-allocation)
		f := family{name: "perm:fingerprint insertion order"}
		keys := []string{"k1", "k2", "k3", "k4"}
		for k := 1; k <= 4; k++ {
			for _, p := range perms(k) {
				s := base()
				s.Fingerprint = map[string]string{}
				for j := 0; j < 40; j++ { // force growth, then delete
					s.Fingerprint[fmt.Sprint("tmp", j)] = "x"
				}
				for _, i := range p {
					s.Fingerprint[keys[i]] = "v" + keys[i]
				}
				for j := 0; j < 40; j++ {
					delete(s.Fingerprint, fmt.Sprint("tmp", j))
				}
				f.states = append(f.states, s)
			}
		}
		fams = append(fams, f)
	}
	// location / platform / tags
	{
		f := family{name: "env:workspace root, platform, tags"}
		for root := 0; root < 2; root++ {
			for _, os_ := range []string{"linux", "darwin"} {
				for _, arch := range []string{"amd64", "arm64"} {
					for _, tags := range [][]string{nil, {"multiplatform-cache"}, {"x"}, {"no-cache"}, {"x", "multiplatform-cache"}} {
						s := base()
						s.Root, s.OS, s.Arch, s.Tags = root, os_, arch, tags
						f.states = append(f.states, s)
					}
				}
			}
		}
		fams = append(fams, f)
	}
	// single-component changes from the base (everything must differ)
	{
		f := family{name: "single:component change"}
		f.states = append(f.states, base())
		for i := 0; i < 9; i++ {
			s := base()
			switch i {
			case 0:
				s.Name = "t2"
			case 1:
				s.Pkg = "q"
			case 2:
				s.Command = "cmd2"
			case 3:
				s.Inputs[0].Content = "x2"
			case 4:
				s.Inputs[0].Path = "f0"
			case 5:
				s.Outputs = []string{"file::o2"}
			case 6:
				s.DepHashes = []string{"d2"}
			case 7:
				s.Fingerprint = map[string]string{"k": "v2"}
			case 8:
				s.Arch = "arm64"
			}
			f.states = append(f.states, s)
		}
		fams = append(fams, f)
	}
	return fams
}

func sigFor(fam string) string {
	switch {
	case strings.HasPrefix(fam, "boundary:file1 end"), fam == "inputs:path-content pairing":
		return "collision:input file content boundary"
	case fam == "inputs:missing vs empty file":
		return "collision:missing vs empty input file"
	case strings.HasPrefix(fam, "boundary:fingerprint key|value"), fam == "list:fingerprint entries":
		return "collision:fingerprint entry encoding"
	case strings.HasPrefix(fam, "boundary:"):
		return "collision:adjacent components " + strings.TrimPrefix(fam, "boundary:")
	case strings.HasPrefix(fam, "list:"):
		return "collision:" + fam
	}
	return "collision:" + fam
}

func TestVerif(t *testing.T) {
	n := 3
	if vrep.Thorough() {
		n = 4
	}
	n = vrep.EnvInt("VERIF_C09_LEN", n)
	baseDir := "/dev/shm"
	if _, err := os.Stat(baseDir); err != nil {
		baseDir = os.TempDir()
	}
	tmp, err := os.MkdirTemp(baseDir, "vcheck-c09-")
	if err != nil {
		vrep.Broken("mkdtemp: %v", err)
		return
	}
	defer os.RemoveAll(tmp)
	roots = []string{filepath.Join(tmp, "ws-one"), filepath.Join(tmp, "deeper", "ws-two")}
	for _, r := range roots {
		os.MkdirAll(r, 0o755)
	}

	var evals, trans, pairs int64
	for _, fam := range families(n) {
		type rec struct {
			s     state
			canon string
		}
		byKey := map[string][]rec{}      // key(xxh3)+"|"+key(sha256) -> states
		byCanon := map[string][]string{} // canon -> distinct keys
		canonSeen := map[string]struct{}{}
		for _, s := range fam.states {
			k1, err1 := key(s.clone(), config.HashAlgorithmXXH3)
			k2, err2 := key(s.clone(), config.HashAlgorithmSHA256)
			// determinism: asking again gives the same key
			k1b, _ := key(s.clone(), config.HashAlgorithmXXH3)
			evals++
			trans += 3
			if err1 != nil || err2 != nil {
				vrep.Violation("hash-error:"+fam.name, fmt.Sprintf("hashing failed: %v %v", err1, err2), s)
				continue
			}
			if lastTargetRepeat != "" {
				vrep.Violation("nondeterministic-key:same-target-hashed-twice", "hashing the same target object twice gives "+lastTargetRepeat, s)
				lastTargetRepeat = ""
			}
			if k1 != k1b {
				vrep.Violation("nondeterministic-key", fmt.Sprintf("same state hashed twice gives %s and %s", k1, k1b), s)
			}
			if len(s.Fingerprint) > 1 {
				// map iteration order must not leak into the key
				for rep := 0; rep < 12; rep++ {
					kr, _ := key(s.clone(), config.HashAlgorithmXXH3)
					trans++
					if kr != k1 {
						vrep.Violation("nondeterministic-key", fmt.Sprintf("same state hashed again gives %s and %s", k1, kr), s)
						break
					}
				}
			}
			c := s.canonical()
			canonSeen[c] = struct{}{}
			kk := k1 + "|" + k2
			byKey[kk] = append(byKey[kk], rec{s, c})
			found := false
			for _, x := range byCanon[c] {
				if x == kk {
					found = true
				}
			}
			if !found {
				byCanon[c] = append(byCanon[c], kk)
			}
		}
		pairs += int64(len(fam.states)) * int64(len(fam.states)-1) / 2
		// equal canonical state => equal key
		for c, ks := range byCanon {
			if len(ks) > 1 {
				vrep.Violation("unstable:"+fam.name, fmt.Sprintf("one build state has %d different keys: %v (state %s)", len(ks), ks, c), map[string]any{"family": fam.name, "canonical": c})
			}
		}
		// equal key (under BOTH algorithms) => equal canonical state
		for kk, recs := range byKey {
			distinct := map[string]state{}
			for _, r := range recs {
				distinct[r.canon] = r.s
			}
			if len(distinct) > 1 {
				var cs []string
				for c := range distinct {
					cs = append(cs, c)
				}
				sort.Strings(cs)
				if len(cs) > 3 {
					cs = cs[:3]
				}
				vrep.Violation(sigFor(fam.name), fmt.Sprintf("family %q: %d different build states share key %s, e.g. %s", fam.name, len(distinct), strings.SplitN(kk, "|", 2)[0], strings.Join(cs, "  VS  ")), map[string]any{"family": fam.name, "states": []state{distinct[cs[0]], distinct[cs[1]]}})
			}
		}
		if len(canonSeen) > 1 {
			for c := range canonSeen {
				vrep.Nontrivial.Add(fam.name + "|" + c)
			}
		}
		for kk := range byKey {
			vrep.Outcomes.Add(kk)
		}
		vrep.AddInt("families", 1)
	}
	depThroughGraph(&evals, &trans)
	depAssignment(&evals, &trans)
	outputHashFamily(&evals, &trans)
	vrep.Counts(evals, evals, trans, evals)
	vrep.AddInt("state_pairs_compared", pairs)
	b := base()
	vrep.Sample(map[string]any{"family": "boundary:file1 end|file2 start", "state": b, "canonical": b.canonical()})
	vrep.Set("split_string_max_len", n)
	vrep.Done()
}

// depThroughGraph drives the real TargetHasher over a graph in which the
// dependency's output digest reaches the target directly or only through an
// alias (chain): a different digest must give a different key.
func depThroughGraph(evals, trans *int64) {
	config.Global.WorkspaceRoot = roots[0]
	config.Global.OS, config.Global.Arch = "linux", "amd64"
	for _, algo := range []string{config.HashAlgorithmXXH3, config.HashAlgorithmSHA256} {
		config.Global.HashAlgorithm = algo
		for _, shape := range []string{"direct", "alias", "alias-chain", "alias+direct-other"} {
			keys := map[string]string{}
			for _, digest := range []string{"h1", "h2"} {
				dep := &model.Target{Label: label.TL("p", "dep"), Command: "c"}
				other := &model.Target{Label: label.TL("p", "other"), Command: "c"}
				al := &model.Alias{Label: label.TL("p", "al"), Actual: dep.Label}
				al2 := &model.Alias{Label: label.TL("p", "al2"), Actual: al.Label}
				top := &model.Target{Label: label.TL("p", "top"), Command: "c"}
				switch shape {
				case "direct":
					top.Dependencies = []label.TargetLabel{dep.Label}
				case "alias":
					top.Dependencies = []label.TargetLabel{al.Label}
				case "alias-chain":
					top.Dependencies = []label.TargetLabel{al2.Label}
				case "alias+direct-other":
					top.Dependencies = []label.TargetLabel{other.Label, al.Label}
				}
				nodes := model.BuildNodeMapFromNodes(dep, other, al, al2, top)
				graph, err := analysis.BuildGraph(nodes)
				if err != nil {
					vrep.Broken("graph: %v", err)
					return
				}
				dep.OutputHash = digest
				other.OutputHash = "o"
				th := hashing.NewTargetHasher(graph)
				*evals++
				*trans++
				if err := th.SetTargetChangeHash(top); err != nil {
					vrep.Violation("dephash-error:"+shape, err.Error(), map[string]any{"shape": shape})
					continue
				}
				keys[digest] = top.ChangeHash
				vrep.Outcomes.Add(top.ChangeHash)
			}
			vrep.Nontrivial.Add("depgraph|" + shape + "|" + algo)
			if keys["h1"] == keys["h2"] && keys["h1"] != "" {
				vrep.Violation("collision:dependency digest via "+shape, fmt.Sprintf("target //p:top depends on //p:dep (%s); dep output digest h1 vs h2 gives the same key %s", shape, keys["h1"]), map[string]any{"shape": shape, "algo": algo})
			}
		}
	}
}

// depAssignment drives the real TargetHasher over a graph in which the target has TWO dependencies (direct, through
// aliases, one of each; in either declaration order): the key is a function of which dependency has which output
// digest, not of the multiset of digests (output paths are relative to the producing package, so //a:gen and //b:gen
// may well produce "the same" output hash for different files), and it does not depend on the declaration order.
func depAssignment(evals, trans *int64) {
	config.Global.WorkspaceRoot = roots[0]
	config.Global.OS, config.Global.Arch = "linux", "amd64"
	for _, algo := range []string{config.HashAlgorithmXXH3, config.HashAlgorithmSHA256} {
		config.Global.HashAlgorithm = algo
		for _, shape := range []string{"direct+direct", "alias+alias", "direct+alias"} {
			keys := map[string]string{} // "assignment|order" -> key
			for _, assign := range [][2]string{{"h1", "h2"}, {"h2", "h1"}, {"h1", "h1"}} {
				for _, reversed := range []bool{false, true} {
					a := &model.Target{Label: label.TL("a", "gen"), Command: "c"}
					b := &model.Target{Label: label.TL("b", "gen"), Command: "c"}
					ala := &model.Alias{Label: label.TL("top", "ala"), Actual: a.Label}
					alb := &model.Alias{Label: label.TL("top", "alb"), Actual: b.Label}
					top := &model.Target{Label: label.TL("top", "join"), Command: "c"}
					da, db := a.Label, b.Label
					switch shape {
					case "alias+alias":
						da, db = ala.Label, alb.Label
					case "direct+alias":
						db = alb.Label
					}
					top.Dependencies = []label.TargetLabel{da, db}
					if reversed {
						top.Dependencies = []label.TargetLabel{db, da}
					}
					graph, err := analysis.BuildGraph(model.BuildNodeMapFromNodes(a, b, ala, alb, top))
					if err != nil {
						vrep.Broken("graph: %v", err)
						return
					}
					a.OutputHash, b.OutputHash = assign[0], assign[1]
					*evals++
					*trans++
					if err := hashing.NewTargetHasher(graph).SetTargetChangeHash(top); err != nil {
						vrep.Violation("dephash-error:"+shape, err.Error(), map[string]any{"shape": shape})
						continue
					}
					keys[fmt.Sprintf("%s,%s|%v", assign[0], assign[1], reversed)] = top.ChangeHash
					vrep.Outcomes.Add(top.ChangeHash)
				}
			}
			vrep.Nontrivial.Add("depassign|" + shape + "|" + algo)
			id := map[string]any{"shape": shape, "algo": algo}
			if keys["h1,h2|false"] == keys["h2,h1|false"] && keys["h1,h2|false"] != "" {
				vrep.Violation("collision:two dependencies trade their output hashes ("+shape+")", fmt.Sprintf("//top:join depends on //a:gen and //b:gen (%s): (a=h1, b=h2) and (a=h2, b=h1) give the same key %s; output hashes do not say whose outputs they describe", shape, keys["h1,h2|false"]), id)
			}
			for _, as := range []string{"h1,h2", "h2,h1", "h1,h1"} {
				if keys[as+"|false"] != keys[as+"|true"] {
					vrep.Violation("spurious:dependency declaration order ("+shape+")", fmt.Sprintf("declaring the two dependencies in the other order changes the key (%s)", as), id)
				}
			}
		}
	}
}

// outputHashFamily: the output hash of a target result must not depend on the
// order in which (concurrently written) outputs were collected, and must differ
// whenever any path, kind or digest differs.
func outputHashFamily(evals, trans *int64) {
	mk := func(kind, path, digest string, size int64) *gen.Output {
		if kind == "dir" {
			return &gen.Output{Kind: &gen.Output_Directory{Directory: &gen.DirectoryOutput{Path: path, TreeDigest: &gen.Digest{Hash: digest, SizeBytes: size}}}}
		}
		return &gen.Output{Kind: &gen.Output_File{File: &gen.FileOutput{Path: path, Digest: &gen.Digest{Hash: digest, SizeBytes: size}}}}
	}
	type od struct {
		kind, path, digest string
	}
	pool := []od{{"file", "a", "h1"}, {"file", "b", "h1"}, {"file", "a", "h2"}, {"dir", "a", "h1"}, {"file", "ah1", ""}, {"file", "a", "h1b"}, {"file", "b", "h2"}}
	for _, algo := range []string{config.HashAlgorithmXXH3, config.HashAlgorithmSHA256} {
		config.Global.HashAlgorithm = algo
		byKey := map[string]string{}
		byCanon := map[string]string{}
		// all subsets of size <= 3 of the pool, all orders
		n := len(pool)
		for mask := 1; mask < 1<<n; mask++ {
			var idx []int
			for i := 0; i < n; i++ {
				if mask&(1<<i) != 0 {
					idx = append(idx, i)
				}
			}
			if len(idx) > 3 {
				continue
			}
			var canonParts []string
			for _, i := range idx {
				canonParts = append(canonParts, fmt.Sprintf("%q/%q/%q", pool[i].kind, pool[i].path, pool[i].digest))
			}
			sort.Strings(canonParts)
			canon := strings.Join(canonParts, ";")
			for _, p := range perms(len(idx)) {
				var outs []*gen.Output
				for _, j := range p {
					o := pool[idx[j]]
					outs = append(outs, mk(o.kind, o.path, o.digest, 1))
				}
				h, err := output.VerifGetOutputHash(outs)
				*evals++
				*trans++
				if err != nil {
					vrep.Violation("outputhash-error", err.Error(), canon)
					continue
				}
				vrep.Outcomes.Add("oh|" + h)
				vrep.Nontrivial.Add("oh|" + algo + canon)
				if prev, ok := byCanon[canon]; ok && prev != h {
					vrep.Violation("unstable:output hash order", fmt.Sprintf("outputs {%s} hash to %s and %s depending on order", canon, prev, h), canon)
				}
				byCanon[canon] = h
				if prev, ok := byKey[h]; ok && prev != canon {
					if algo == config.HashAlgorithmSHA256 { // report encoding collisions once, under the cryptographic hash
						vrep.Violation("collision:output hash", fmt.Sprintf("output sets {%s} and {%s} share output hash %s", prev, canon, h), canon)
					}
				}
				byKey[h] = canon
			}
		}
	}
}
