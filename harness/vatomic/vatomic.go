// Package vatomic replaces "sync/atomic" in instrumented files: every atomic
// operation is the real one preceded by a scheduling point, so that the
// explorer can order a store in one goroutine against a load in another (e.g.
// the pool's `closed` flag against a sender woken by close()).
package vatomic

import (
	"sync/atomic"

	"grog/internal/zverif/vs"
)

type Bool struct{ v atomic.Bool }

func (b *Bool) Load() bool       { vs.Point("atomic.Load"); return b.v.Load() }
func (b *Bool) Store(x bool)     { vs.Point("atomic.Store"); b.v.Store(x) }
func (b *Bool) Swap(x bool) bool { vs.Point("atomic.Swap"); return b.v.Swap(x) }
func (b *Bool) CompareAndSwap(o, n bool) bool {
	vs.Point("atomic.CAS")
	return b.v.CompareAndSwap(o, n)
}

type Int32 struct{ v atomic.Int32 }

func (b *Int32) Load() int32       { vs.Point("atomic.Load"); return b.v.Load() }
func (b *Int32) Store(x int32)     { vs.Point("atomic.Store"); b.v.Store(x) }
func (b *Int32) Add(x int32) int32 { vs.Point("atomic.Add"); return b.v.Add(x) }
func (b *Int32) CompareAndSwap(o, n int32) bool {
	vs.Point("atomic.CAS")
	return b.v.CompareAndSwap(o, n)
}

type Int64 struct{ v atomic.Int64 }

func (b *Int64) Load() int64       { vs.Point("atomic.Load"); return b.v.Load() }
func (b *Int64) Store(x int64)     { vs.Point("atomic.Store"); b.v.Store(x) }
func (b *Int64) Add(x int64) int64 { vs.Point("atomic.Add"); return b.v.Add(x) }
func (b *Int64) CompareAndSwap(o, n int64) bool {
	vs.Point("atomic.CAS")
	return b.v.CompareAndSwap(o, n)
}

type Uint32 struct{ v atomic.Uint32 }

func (b *Uint32) Load() uint32        { vs.Point("atomic.Load"); return b.v.Load() }
func (b *Uint32) Store(x uint32)      { vs.Point("atomic.Store"); b.v.Store(x) }
func (b *Uint32) Add(x uint32) uint32 { vs.Point("atomic.Add"); return b.v.Add(x) }

type Uint64 struct{ v atomic.Uint64 }

func (b *Uint64) Load() uint64        { vs.Point("atomic.Load"); return b.v.Load() }
func (b *Uint64) Store(x uint64)      { vs.Point("atomic.Store"); b.v.Store(x) }
func (b *Uint64) Add(x uint64) uint64 { vs.Point("atomic.Add"); return b.v.Add(x) }

type Value = atomic.Value

type Pointer[T any] struct{ v atomic.Pointer[T] }

func (p *Pointer[T]) Load() *T   { vs.Point("atomic.Load"); return p.v.Load() }
func (p *Pointer[T]) Store(x *T) { vs.Point("atomic.Store"); p.v.Store(x) }

func AddInt32(addr *int32, delta int32) int32 {
	vs.Point("atomic.Add")
	return atomic.AddInt32(addr, delta)
}
func AddInt64(addr *int64, delta int64) int64 {
	vs.Point("atomic.Add")
	return atomic.AddInt64(addr, delta)
}
func LoadInt32(addr *int32) int32     { vs.Point("atomic.Load"); return atomic.LoadInt32(addr) }
func LoadInt64(addr *int64) int64     { vs.Point("atomic.Load"); return atomic.LoadInt64(addr) }
func StoreInt32(addr *int32, v int32) { vs.Point("atomic.Store"); atomic.StoreInt32(addr, v) }
func StoreInt64(addr *int64, v int64) { vs.Point("atomic.Store"); atomic.StoreInt64(addr, v) }
func CompareAndSwapInt32(addr *int32, o, n int32) bool {
	vs.Point("atomic.CAS")
	return atomic.CompareAndSwapInt32(addr, o, n)
}
