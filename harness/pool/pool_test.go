// Package pool drives the real worker.TaskWorkerPool alone (the narrowest seam that
// reaches its enqueue / worker / shutdown races): N callers call Run on a pool of W
// workers while the context may be cancelled (by an external goroutine = interrupt, or
// by a task that finishes = fail-fast) or the pool may be shut down directly. Every
// schedule with at most d deviations is executed. Oracles on every execution:
//   - no panic (send on a closed channel, ...): C04 "dies from an internal crash"
//   - at no instant more than W tasks are running: C03
//   - no task starts twice, a Run that returns without error returns its own task's result: C03
//   - tasks that start after Shutdown has RETURNED are bounded: at most W buffered jobs
//     plus W jobs already received by a worker: C18
package pool

import (
	"context"
	"fmt"
	"os"
	"sort"
	"strings"
	"sync"
	"testing"
	"time"

	tea "github.com/charmbracelet/bubbletea"
	"go.uber.org/zap"
	"go.uber.org/zap/zapcore"

	"grog/internal/config"
	"grog/internal/console"
	"grog/internal/worker"
	"grog/internal/zverif/explore"
	"grog/internal/zverif/vrep"
	"grog/internal/zverif/vs"
)

var nopLogger = console.NewFromSugared(zap.NewNop().Sugar(), zapcore.ErrorLevel)

type scenario struct {
	Workers int    `json:"workers"`
	Callers int    `json:"callers"`
	Stop    string `json:"stop"` // none | cancel (external goroutine cancels the context) | task0 (task 0 cancels when it ends) | shutdown (external goroutine calls Shutdown)
	Tick    bool   `json:"early_clock_tick,omitempty"`
}

func (s scenario) name() string {
	n := fmt.Sprintf("w=%d/callers=%d/stop=%s", s.Workers, s.Callers, s.Stop)
	if s.Tick {
		n += "/tick"
	}
	return n
}

func (s scenario) scenario() explore.Scenario {
	es := explore.Scenario{Name: s.name(), Desc: s, Run: s.run, Horizon: 3, MaxSteps: 4000}
	if s.Tick {
		es.ClockChoices = 1
	}
	return es
}

func (sc scenario) run(t *testing.T, cfg vs.Config) explore.Exec {
	var mu sync.Mutex
	running, maxRunning := 0, 0
	started := map[int]int{}
	var trace []string
	stopReturned := false
	startsAfterStop := 0
	type ret struct {
		val int
		err error
	}
	type stateMsg struct {
		live   console.TaskStateMap
		atSend map[int]string
	}
	var sent []stateMsg
	returned := map[int]ret{}
	ev := func(format string, a ...any) { trace = append(trace, fmt.Sprintf(format, a...)) }
	res := vs.Run(t, cfg, func() {
		config.Global.DisableNonDeterministicLogging = true
		config.Global.NumWorkers = sc.Workers
		ctx, cancel := context.WithCancel(console.WithLogger(context.Background(), nopLogger))
		defer cancel()
		// like the task UI: keep what the pool sends; a message is a snapshot, the sender must not change it afterwards
		p := worker.NewTaskWorkerPool[int](nopLogger, sc.Workers, func(m tea.Msg) {
			if st, ok := m.(console.TaskStateMsg); ok {
				cp := map[int]string{}
				for k, v := range st.State {
					cp[k] = v.Status
				}
				mu.Lock()
				sent = append(sent, stateMsg{live: st.State, atSend: cp})
				mu.Unlock()
			}
		}, sc.Callers)
		p.StartWorkers(ctx)
		var wg sync.WaitGroup
		for i := 0; i < sc.Callers; i++ {
			i := i
			wg.Add(1)
			vs.Go(fmt.Sprintf("caller%d", i), func() {
				defer wg.Done()
				v, err := p.Run(func(update worker.StatusFunc) (int, error) {
					mu.Lock()
					running++
					if running > maxRunning {
						maxRunning = running
					}
					started[i]++
					if stopReturned {
						startsAfterStop++
					}
					ev("start%d", i)
					mu.Unlock()
					vs.Point(fmt.Sprintf("cmd:%d", i))
					mu.Lock()
					running--
					ev("end%d", i)
					mu.Unlock()
					if sc.Stop == "task0" && i == 0 {
						cancel()
						// the watcher goroutine shuts the pool down; "stop returned" is not observable here
					}
					return 100 + i, nil
				})
				mu.Lock()
				returned[i] = ret{v, err}
				ev("return%d(%v)", i, err != nil)
				mu.Unlock()
			})
		}
		switch sc.Stop {
		case "cancel":
			vs.Go("interrupt", func() {
				vs.Point("interrupt")
				mu.Lock()
				ev("cancel")
				mu.Unlock()
				cancel()
			})
		case "shutdown":
			vs.Go("shutdown", func() {
				vs.Point("shutdown")
				p.Shutdown()
				mu.Lock()
				stopReturned = true
				ev("shutdown-returned")
				mu.Unlock()
			})
		}
		// the body stays alive while anything can still run (a finished body would leave only the default
		// schedule for the rest). With a stop, callers whose job is still queued when the workers leave never
		// return (Walk does not wait for them either): the execution then ends when nothing is enabled any more.
		wg.Wait()
		if sc.Stop == "none" {
			p.Shutdown()
		}
	})
	ex := explore.Exec{Res: res}
	add := func(sig, format string, a ...any) {
		ex.Findings = append(ex.Findings, explore.Finding{Sig: sig, Detail: fmt.Sprintf(format, a...)})
	}
	mu.Lock()
	defer mu.Unlock()
	for _, p := range res.Panics {
		add("C04:panic", "%s; trace %v", p, trace)
	}
	for _, m := range sent {
		same := len(m.live) == len(m.atSend)
		for k, v := range m.live {
			if m.atSend[k] != v.Status {
				same = false
			}
		}
		if !same {
			add("C04:task-state-message-aliases-the-pools-live-map", "a task-state message sent to the UI changed after it was sent (%d entries then, %d now): the UI goroutine iterates a map that the workers keep writing (fatal 'concurrent map iteration and map write' in some schedule)", len(m.atSend), len(m.live))
			break
		}
	}
	if maxRunning > sc.Workers {
		add("C03:more-than-num-workers-running", "%d tasks ran at the same time in a pool of %d workers; trace %v", maxRunning, sc.Workers, trace)
	}
	for i, n := range started {
		if n > 1 {
			add("C03:target-executed-twice", "task %d was started %d times; trace %v", i, n, trace)
		}
	}
	for i, r := range returned {
		if r.err == nil && r.val != 100+i {
			add("C03:run-returns-another-tasks-result", "Run of task %d returned %d; trace %v", i, r.val, trace)
		}
		if r.err == nil && started[i] == 0 {
			add("C05:success-without-execution", "Run of task %d returned success but the task never ran; trace %v", i, trace)
		}
	}
	// jobs accepted before Shutdown may still run: up to W in the queue plus up to W that a worker has
	// already received but not started yet
	if startsAfterStop > 2*sc.Workers {
		add("C18:start-after-interrupt", "%d tasks started after Shutdown had returned (the queue holds at most %d jobs and %d workers may each hold one more); trace %v", startsAfterStop, sc.Workers, sc.Workers, trace)
	}
	if sc.Stop == "none" {
		if res.Deadlock && !res.StepLimit && res.Divergence == "" {
			add("C04:walk-never-returns", "pool without any stop: callers never all returned; blocked: %s; trace %v", strings.Join(res.Blocked, "; "), trace)
		}
		for i := 0; i < sc.Callers; i++ {
			if r, ok := returned[i]; res.BodyDone && (!ok || r.err != nil) {
				add("C04:selected-target-unresolved", "task %d did not complete although nothing stopped the pool (%v); trace %v", i, r.err, trace)
			}
		}
	}
	sort.Strings(trace)
	ex.Outcome = fmt.Sprintf("max=%d ret=%d after=%d", maxRunning, len(returned), startsAfterStop)
	ex.Nontrivial = len(started) > 0
	return ex
}

func scenarios(thorough bool) []scenario {
	var out []scenario
	for _, w := range []int{1, 2} {
		for _, n := range []int{2, 3, 4} {
			if n == 4 && !(thorough || w == 1) {
				continue
			}
			for _, stop := range []string{"none", "cancel", "task0", "shutdown"} {
				out = append(out, scenario{Workers: w, Callers: n, Stop: stop})
			}
		}
	}
	// more callers than the queue and the workers can take: the back-stop timer of enqueue may fire early
	var ticks []scenario
	for _, s := range out {
		if s.Callers > 2*s.Workers {
			s.Tick = true
			ticks = append(ticks, s)
		}
	}
	return append(out, ticks...)
}

func TestVerif(t *testing.T) {
	bound := vrep.EnvInt("VERIF_BOUND", 2)
	deadline := time.Now().Add(time.Duration(vrep.EnvInt("VERIF_BUDGET_S", 30)) * time.Second)
	scs := scenarios(vrep.Thorough())
	if rp := explore.ReplayFromEnv(); rp != nil {
		for _, sc := range scenarios(true) {
			if sc.name() == rp.Scenario {
				explore.RunReplay(t, sc.scenario(), rp.Choices)
			}
		}
		vrep.Done()
		return
	}
	only := os.Getenv("VERIF_ONLY")
	var execs, steps int64
	completedAll := 0
	for b := 1; b <= bound; b++ {
		done, total := 0, 0
		for _, sc := range scs {
			if only != "" && !strings.Contains(sc.name(), only) {
				continue
			}
			total++
			if time.Now().After(deadline) {
				continue
			}
			st := explore.Explore(t, sc.scenario(), explore.Options{Bound: b, Deadline: deadline})
			execs += st.Execs
			steps += st.Steps
			if !st.Capped {
				done++
			}
		}
		vrep.Set(fmt.Sprintf("pool_scenarios_completed_at_bound_%d", b), fmt.Sprintf("%d of %d", done, total))
		if done == total {
			completedAll = b
		} else {
			vrep.Cap("pool harness: deviation bound %d completed for %d of %d scenarios within the wall-clock budget (bound %d is complete for all)", b, done, total, completedAll)
			break
		}
	}
	vrep.Counts(execs, execs, steps, execs)
	vrep.Set("pool_deviation_bound_completed", completedAll)
	if sh, _ := vrep.Shard(); sh == 0 {
		vrep.AddInt("pool_scenarios", int64(len(scs)))
	}
	vrep.Done()
}
