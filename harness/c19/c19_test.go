// C19: graph algorithms scale polynomially, not with the number of paths.
//
// Every operation named by the property is run through the real code on every
// graph of explicitly enumerated families. The code under test is an
// instrumented copy (overlay) in which every function starts with
// vcount.Enter(name); the oracle only looks at the number of function entries:
//
//	(abs)   calls(f, G) <= 8*(V+E)*(V+1) + 64
//	(chain) calls(f, G) <= 4*calls(f, chain with V nodes) + 8*(V+E)   for ladders and dense DAGs
//
// The counter aborts the operation as soon as (abs) is exceeded, so that a
// path-enumerating implementation is detected after at most bound+2 entries.
// Wall-clock time never enters a verdict (the only timer classifies a Walk that
// does not return within 30 s as a hang, which is reported under its own
// signature and is not a C19 verdict).
package c19

import (
	"context"
	"encoding/json"
	"errors"
	"fmt"
	"os"
	"path/filepath"
	"runtime"
	"sort"
	"strings"
	"testing"
	"time"

	"go.uber.org/zap"
	"go.uber.org/zap/zapcore"

	"grog/internal/analysis"
	"grog/internal/cmd/cmds"
	"grog/internal/config"
	"grog/internal/console"
	"grog/internal/dag"
	"grog/internal/label"
	"grog/internal/model"
	"grog/internal/selection"
	"grog/internal/zverif/vcount"
	"grog/internal/zverif/vrep"
)

// counter name of the node routine (see internal/instr/count.go for the naming scheme)
const nameNodeRoutine = "dag.Walker.nodeRoutine"

// ---------------------------------------------------------------- graphs

type gspec struct {
	Family string   `json:"family"` // all-dag | ladder | dense | chain
	Width  int      `json:"width,omitempty"`
	Depth  int      `json:"depth,omitempty"`
	N      int      `json:"n"`
	Mask   uint64   `json:"mask,omitempty"` // all-dag: bit k = k-th pair (i<j) in lexicographic order
	Edges  [][2]int `json:"-"`
	// ordered pairs of nodes that declare the same file output (legal: ordered targets)
	pairs  [][2]int
	source int
	sink   int
	sinks  []int
	// reference reachability
	desc [][]bool // desc[i][j]: j reachable from i (i != j)
	diam bool     // some pair of nodes is connected by two distinct paths
}

func (g *gspec) V() int { return g.N }
func (g *gspec) E() int { return len(g.Edges) }
func (g *gspec) key() string {
	return fmt.Sprintf("%s|w%d|d%d|n%d|m%x", g.Family, g.Width, g.Depth, g.N, g.Mask)
}
func (g *gspec) String() string {
	s := "family=" + g.Family
	if g.Family == "ladder" {
		s += fmt.Sprintf(" width=%d depth=%d", g.Width, g.Depth)
	}
	if g.Family == "all-dag" {
		s += fmt.Sprintf(" edges=%v", g.Edges)
	}
	return s + fmt.Sprintf(" V=%d E=%d", g.V(), g.E())
}

func (g *gspec) finish() *gspec {
	n := g.N
	out := make([][]int, n)
	hasOut := make([]bool, n)
	for _, e := range g.Edges {
		out[e[0]] = append(out[e[0]], e[1])
		hasOut[e[0]] = true
	}
	// edges go i->j with i<j: process nodes in decreasing order
	g.desc = make([][]bool, n)
	paths := make([][]int, n) // number of paths i->j, saturated at 2
	for i := n - 1; i >= 0; i-- {
		g.desc[i] = make([]bool, n)
		paths[i] = make([]int, n)
		for _, j := range out[i] {
			g.desc[i][j] = true
			paths[i][j]++
			for k := 0; k < n; k++ {
				if g.desc[j][k] {
					g.desc[i][k] = true
				}
				paths[i][k] += paths[j][k]
			}
		}
		for k := range paths[i] {
			if paths[i][k] >= 2 {
				paths[i][k] = 2
				g.diam = true
			}
		}
	}
	g.sinks = nil
	for i := 0; i < n; i++ {
		if !hasOut[i] {
			g.sinks = append(g.sinks, i)
		}
	}
	g.source = 0
	g.sink = n - 1
	return g
}

func ladder(w, d int) *gspec {
	g := &gspec{Family: "ladder", Width: w, Depth: d, N: w * (d + 1)}
	for l := 0; l < d; l++ {
		for a := 0; a < w; a++ {
			for b := 0; b < w; b++ {
				g.Edges = append(g.Edges, [2]int{l*w + a, (l+1)*w + b})
			}
		}
	}
	for l := 1; l <= d; l++ { // first node of layer 0 and of layer l share an output
		g.pairs = append(g.pairs, [2]int{0, l * w})
	}
	return g.finish()
}

func chain(n int) *gspec {
	g := &gspec{Family: "chain", N: n}
	for i := 0; i+1 < n; i++ {
		g.Edges = append(g.Edges, [2]int{i, i + 1})
	}
	for j := 2; j < n; j += 2 {
		g.pairs = append(g.pairs, [2]int{0, j})
	}
	if n == 2 {
		g.pairs = append(g.pairs, [2]int{0, 1})
	}
	return g.finish()
}

func allOrderedPairs(g *gspec) {
	for i := 0; i < g.N; i++ {
		for j := 0; j < g.N; j++ {
			if g.desc[i][j] {
				g.pairs = append(g.pairs, [2]int{i, j})
			}
		}
	}
}

func dense(n int) *gspec {
	g := &gspec{Family: "dense", N: n}
	for i := 0; i < n; i++ {
		for j := i + 1; j < n; j++ {
			g.Edges = append(g.Edges, [2]int{i, j})
		}
	}
	g.finish()
	allOrderedPairs(g)
	return g
}

func dagFromMask(n int, mask uint64) *gspec {
	g := &gspec{Family: "all-dag", N: n, Mask: mask}
	k := 0
	for i := 0; i < n; i++ {
		for j := i + 1; j < n; j++ {
			if mask&(1<<uint(k)) != 0 {
				g.Edges = append(g.Edges, [2]int{i, j})
			}
			k++
		}
	}
	g.finish()
	allOrderedPairs(g)
	return g
}

// materialise creates fresh targets (with Dependencies, one input, one distinct
// output plus the shared outputs of g.pairs).
func (g *gspec) targets() []*model.Target {
	ts := make([]*model.Target, g.N)
	for i := range ts {
		ts[i] = &model.Target{
			Label:   label.TL("p", fmt.Sprintf("n%03d", i)),
			Command: "true",
			Inputs:  []string{fmt.Sprintf("in_%03d.txt", i)},
			Outputs: []model.Output{model.NewOutput("file", fmt.Sprintf("out_%03d", i))},
		}
	}
	for _, e := range g.Edges {
		ts[e[1]].Dependencies = append(ts[e[1]].Dependencies, ts[e[0]].Label)
	}
	for _, p := range g.pairs {
		o := model.NewOutput("file", fmt.Sprintf("shared_%03d_%03d", p[0], p[1]))
		ts[p[0]].Outputs = append(ts[p[0]].Outputs, o)
		ts[p[1]].Outputs = append(ts[p[1]].Outputs, o)
	}
	return ts
}

// build creates a fresh graph through the public dag API (not counted).
func (g *gspec) build() (*dag.DirectedTargetGraph, []*model.Target) {
	ts := g.targets()
	nodes := make([]model.BuildNode, len(ts))
	for i, t := range ts {
		nodes[i] = t
	}
	gr := dag.NewDirectedGraphFromTargets(nodes...)
	for _, e := range g.Edges {
		if err := gr.AddEdge(ts[e[0]], ts[e[1]]); err != nil {
			panic(err)
		}
	}
	return gr, ts
}

// ---------------------------------------------------------------- measuring

type result struct {
	calls    int64
	exceeded bool   // aborted by the budget (calls > abs bound)
	at       string // function whose entry crossed the budget
	top      string // most frequently entered function
	wrong    string // result differs from the reference (one line), "" if fine
	hang     bool
	ncalls   int64 // number of API calls made (transitions)
}

func absBound(g *gspec) int64 {
	v, e := int64(g.V()), int64(g.E())
	return 8*(v+e)*(v+1) + 64
}

func topCounter() string {
	best, bn := "", int64(-1)
	for k, n := range vcount.Snapshot() {
		if n > bn || (n == bn && k < best) {
			best, bn = k, n
		}
	}
	return fmt.Sprintf("%s=%d", best, bn)
}

// measure runs fn on the calling goroutine under the budget bound+1.
func measure(bound int64, fn func()) (res result) {
	vcount.SetMode(vcount.ModePanic)
	vcount.Reset()
	vcount.SetBudget(bound + 1)
	defer func() {
		r := recover()
		vcount.SetBudget(0)
		res.calls = vcount.Total()
		res.top = topCounter()
		res.ncalls = 1
		if r != nil {
			be, ok := r.(vcount.BudgetExceeded)
			if !ok {
				panic(r)
			}
			res.exceeded = true
			res.at = be.Name
		}
	}()
	fn()
	return
}

// worst keeps the more expensive of two results (exceeded dominates).
func worst(a, b result) result {
	n := a.ncalls + b.ncalls
	w := a
	if (b.exceeded && !a.exceeded) || (b.exceeded == a.exceeded && b.calls > a.calls) {
		w = b
	}
	if w.wrong == "" {
		w.wrong = a.wrong
	}
	if w.wrong == "" {
		w.wrong = b.wrong
	}
	w.hang = a.hang || b.hang
	w.ncalls = n
	return w
}

func labelSet(nodes []model.BuildNode) map[string]bool {
	m := map[string]bool{}
	for _, n := range nodes {
		m[n.GetLabel().String()] = true
	}
	return m
}

func diffSets(got, want map[string]bool) string {
	var miss, extra []string
	for k := range want {
		if !got[k] {
			miss = append(miss, k)
		}
	}
	for k := range got {
		if !want[k] {
			extra = append(extra, k)
		}
	}
	if len(miss)+len(extra) == 0 {
		return ""
	}
	sort.Strings(miss)
	sort.Strings(extra)
	return fmt.Sprintf("missing %v, unexpected %v", miss, extra)
}

// ---------------------------------------------------------------- operations

type operation struct {
	name string
	run  func(g *gspec, bound int64) result
}

func startNodes(g *gspec, descendants bool) []int {
	if g.Family == "all-dag" { // small graphs: from every node
		all := make([]int, g.N)
		for i := range all {
			all[i] = i
		}
		return all
	}
	if descendants {
		return []int{g.source}
	}
	return []int{g.sink}
}

func (g *gspec) refDesc(ts []*model.Target, i int) map[string]bool {
	m := map[string]bool{}
	for j := 0; j < g.N; j++ {
		if g.desc[i][j] {
			m[ts[j].Label.String()] = true
		}
	}
	return m
}

func (g *gspec) refAnc(ts []*model.Target, i int) map[string]bool {
	m := map[string]bool{}
	for j := 0; j < g.N; j++ {
		if g.desc[j][i] {
			m[ts[j].Label.String()] = true
		}
	}
	return m
}

func opSelect(g *gspec, bound int64) result {
	gr, ts := g.build()
	var pats []label.TargetPattern
	for _, s := range g.sinks {
		pats = append(pats, label.TargetPatternFromLabel(ts[s].Label))
	}
	sel := selection.New(pats, nil, nil, selection.AllTargets)
	var n int
	var err error
	res := measure(bound, func() { n, _, err = sel.SelectTargetsForBuild(gr) })
	if res.exceeded {
		return res
	}
	want := map[string]bool{}
	for _, s := range g.sinks {
		want[ts[s].Label.String()] = true
		for k := range g.refAnc(ts, s) {
			want[k] = true
		}
	}
	got := map[string]bool{}
	for _, t := range ts {
		if t.IsSelected {
			got[t.Label.String()] = true
		}
	}
	if err != nil {
		res.wrong = "error: " + err.Error()
	} else if d := diffSets(got, want); d != "" {
		res.wrong = "selected set: " + d
	} else if n != len(want) {
		res.wrong = fmt.Sprintf("returned count %d, selected %d", n, len(want))
	}
	return res
}

// the same selection with the platform check bypassed (--all-platforms / all_platforms = true)
func opSelectAllPlatforms(g *gspec, bound int64) result {
	prev := config.Global.AllPlatforms
	config.Global.AllPlatforms = true
	defer func() { config.Global.AllPlatforms = prev }()
	return opSelect(g, bound)
}

func opDescendants(g *gspec, bound int64) result {
	var acc result
	for _, i := range startNodes(g, true) {
		gr, ts := g.build()
		var got []model.BuildNode
		res := measure(bound, func() { got = gr.GetDescendants(ts[i]) })
		if !res.exceeded {
			if d := diffSets(labelSet(got), g.refDesc(ts, i)); d != "" {
				res.wrong = fmt.Sprintf("GetDescendants(n%03d) as a set: %s", i, d)
			}
		}
		acc = worst(acc, res)
	}
	return acc
}

func opAncestors(g *gspec, bound int64) result {
	var acc result
	for _, i := range startNodes(g, false) {
		gr, ts := g.build()
		var got []model.BuildNode
		res := measure(bound, func() { got = gr.GetAncestors(ts[i]) })
		if !res.exceeded {
			if d := diffSets(labelSet(got), g.refAnc(ts, i)); d != "" {
				res.wrong = fmt.Sprintf("GetAncestors(n%03d) as a set: %s", i, d)
			}
		}
		acc = worst(acc, res)
	}
	return acc
}

func queryFilter() *selection.Selector {
	tt, err := selection.StringToTargetTypeSelection("all") // default of --target-type
	if err != nil {
		panic(err)
	}
	return selection.New(nil, config.Global.Tags, config.Global.ExcludeTags, tt)
}

// deps -t: the graph part of DepsCmd.Run after the graph has been loaded
// (model.PrintSortedLabels is left out: stdout carries the result protocol).
func opDepsT(g *gspec, bound int64) result {
	gr, ts := g.build()
	target := gr.GetNodes()[ts[g.sink].Label]
	var out []model.BuildNode
	res := measure(bound, func() {
		dependencies := gr.GetAncestors(target)
		out = queryFilter().FilterNodes(dependencies)
	})
	if !res.exceeded {
		if d := diffSets(labelSet(out), g.refAnc(ts, g.sink)); d != "" {
			res.wrong = "deps -t as a set: " + d
		}
	}
	return res
}

func opRdepsT(g *gspec, bound int64) result {
	gr, ts := g.build()
	target := gr.GetNodes()[ts[g.source].Label]
	var out []model.BuildNode
	res := measure(bound, func() {
		rDeps := gr.GetDescendants(target)
		out = queryFilter().FilterNodes(rDeps)
	})
	if !res.exceeded {
		if d := diffSets(labelSet(out), g.refDesc(ts, g.source)); d != "" {
			res.wrong = "rdeps -t as a set: " + d
		}
	}
	return res
}

// changes --dependents=transitive: the part of ChangesCmd.Run after git and
// loading: owner matching with containsFile, GetDescendants per matching
// target, de-duplication, FilterNodes. Two variants: only the source's input
// changed / every input changed (worst case V GetDescendants calls).
func opChanges(g *gspec, bound int64) result {
	var acc result
	for variant := 0; variant < 2; variant++ {
		// graph built through the dag API (BuildGraph is an operation of its own)
		graph, ts := g.build()
		nodes := graph.GetNodes()
		var changedFiles []string
		want := map[string]bool{}
		for i, t := range ts {
			if variant == 1 || i == g.source {
				changedFiles = append(changedFiles, config.GetPathAbsoluteToWorkspaceRoot(filepath.Join(t.Label.Package, t.Inputs[0])))
				want[t.Label.String()] = true
				for k := range g.refDesc(ts, i) {
					want[k] = true
				}
			}
		}
		var out []model.BuildNode
		res := measure(bound, func() {
			var matchingTargets []*model.Target
			for _, target := range nodes.GetTargets() {
				for _, inputFile := range target.Inputs {
					absInputPath := config.GetPathAbsoluteToWorkspaceRoot(filepath.Join(target.Label.Package, inputFile))
					if cmds.VerifContainsFile(changedFiles, absInputPath) {
						matchingTargets = append(matchingTargets, target)
						break
					}
				}
			}
			var resultTargets []*model.Target
			for _, target := range matchingTargets {
				resultTargets = append(resultTargets, target)
				for _, descendant := range graph.GetDescendants(target) {
					if targetDescendant, ok := descendant.(*model.Target); ok {
						resultTargets = append(resultTargets, targetDescendant)
					}
				}
			}
			uniqueLabels := make(map[label.TargetLabel]bool)
			var deduplicatedTargets []model.BuildNode
			for _, target := range resultTargets {
				if !uniqueLabels[target.Label] {
					uniqueLabels[target.Label] = true
					deduplicatedTargets = append(deduplicatedTargets, target)
				}
			}
			out = queryFilter().FilterNodes(deduplicatedTargets)
		})
		if !res.exceeded {
			if d := diffSets(labelSet(out), want); d != "" {
				res.wrong = fmt.Sprintf("changes (variant %d) as a set: %s", variant, d)
			}
		}
		acc = worst(acc, res)
	}
	return acc
}

func opBuildGraph(g *gspec, bound int64) result {
	ts := g.targets()
	var list []model.BuildNode
	for _, t := range ts {
		list = append(list, t)
	}
	nodes := model.BuildNodeMapFromNodes(list...)
	var err error
	res := measure(bound, func() { _, err = analysis.BuildGraph(nodes) })
	if !res.exceeded && err != nil {
		res.wrong = "BuildGraph on an acyclic graph whose shared outputs belong to ordered targets: " + err.Error()
	}
	return res
}

func opFindCycle(g *gspec, bound int64) result {
	gr, _ := g.build()
	var has bool
	res := measure(bound, func() { _, has = gr.FindCycle() })
	if !res.exceeded && has {
		res.wrong = "FindCycle reports a cycle in a DAG"
	}
	return res
}

func opConflicts(g *gspec, bound int64) result {
	gr, _ := g.build()
	var err error
	res := measure(bound, func() { err = analysis.VerifDetectOutputConflicts(gr) })
	if !res.exceeded && err != nil {
		res.wrong = "conflict reported between ordered targets: " + strings.ReplaceAll(err.Error(), "\n", " | ")
	}
	return res
}

var walkCtx context.Context

// failure propagation: Walk with every node selected, the source fails.
func opWalk(g *gspec, bound int64) result {
	gr, ts := g.build()
	roots := map[label.TargetLabel]bool{}
	hasIn := make([]bool, g.N)
	for _, e := range g.Edges {
		hasIn[e[1]] = true
	}
	for i, t := range ts {
		t.IsSelected = true
		if !hasIn[i] {
			roots[t.Label] = true
		}
	}
	failLabel := ts[g.source].Label
	release := make(chan struct{})
	cb := func(ctx context.Context, node model.BuildNode) (dag.CacheResult, error) {
		if roots[node.GetLabel()] {
			<-release // see below
		}
		if node.GetLabel() == failLabel {
			return dag.CacheMiss, errors.New("injected failure")
		}
		return dag.CacheMiss, nil
	}
	w := dag.NewWalker(gr, cb, false)

	vcount.SetMode(vcount.ModeGoexit)
	vcount.Reset()
	vcount.SetBudget(bound + 1)
	exCh := vcount.ExceededCh()
	done := make(chan struct{})
	go func() {
		defer close(done)
		w.Walk(walkCtx)
	}()
	// Walker.Walk starts dependency-free nodes while it is still registering the
	// others (known lost wake-up, not a C19 matter): hold their callbacks until
	// every node routine has been entered, i.e. every node is registered. The
	// 2 s fallback only matters if the counter name changes.
	go func() {
		t0 := time.Now()
		for vcount.Count(nameNodeRoutine) < int64(g.N) {
			runtime.Gosched()
			if time.Since(t0) > 2*time.Second {
				break
			}
		}
		close(release)
	}()
	var res result
	ceiling := time.NewTimer(30 * time.Second)
	defer ceiling.Stop()
	select {
	case <-done:
	case <-exCh:
		w.VerifAbort()
		select {
		case <-done:
		case <-ceiling.C:
			res.hang = true
		}
	case <-ceiling.C:
		res.hang = true
	}
	if be, ok := vcount.Exceeded(); ok {
		res.exceeded = true
		res.at = be.Name
	}
	res.calls = vcount.Total()
	res.top = topCounter()
	res.ncalls = 1
	vcount.SetMode(vcount.ModePanic)
	vcount.SetBudget(0)
	return res
}

var operations = []operation{
	{"SelectTargetsForBuild", opSelect},
	{"SelectTargetsForBuild --all-platforms", opSelectAllPlatforms},
	{"GetDescendants", opDescendants},
	{"GetAncestors", opAncestors},
	{"failure-propagation", opWalk},
	{"BuildGraph", opBuildGraph},
	{"cycle-detection", opFindCycle},
	{"output-conflicts", opConflicts},
	{"deps -t", opDepsT},
	{"rdeps -t", opRdepsT},
	{"changes --dependents=transitive", opChanges},
}

// ---------------------------------------------------------------- driver

type excess struct {
	g      *gspec
	res    result
	bound  int64
	clause string // "abs" | "chain"
	chain  int64
	rel    int64
}

func (x excess) size() int { return x.g.V() + x.g.E() }

type replaySpec struct {
	Op     string `json:"op"`
	Family string `json:"family"`
	Width  int    `json:"width"`
	Depth  int    `json:"depth"`
	N      int    `json:"n"`
	Mask   uint64 `json:"mask"`
}

func TestVerif(t *testing.T) {
	config.Global.WorkspaceRoot = "/dev/shm/vcheck-c19-nonexistent-root" // only used to form path strings
	if _, err := os.Stat("/dev/shm"); err != nil {
		config.Global.WorkspaceRoot = filepath.Join(os.TempDir(), "vcheck-c19-nonexistent-root")
	}
	config.Global.OS, config.Global.Arch = "linux", "amd64"
	walkCtx = console.WithLogger(context.Background(), console.NewFromSugared(zap.NewNop().Sugar(), zapcore.ErrorLevel))

	maxAll, maxDepth, maxDense := 5, 12, 14
	if vrep.Thorough() {
		maxAll, maxDepth = 6, 16
	}
	maxAll = vrep.EnvInt("VERIF_C19_ALLDAG", maxAll)
	maxDepth = vrep.EnvInt("VERIF_C19_DEPTH", maxDepth)
	maxDense = vrep.EnvInt("VERIF_C19_DENSE", maxDense)

	var rp *replaySpec
	if raw := os.Getenv("VERIF_REPLAY"); raw != "" {
		rp = &replaySpec{}
		if err := json.Unmarshal([]byte(raw), rp); err != nil {
			vrep.Broken("bad VERIF_REPLAY: %v", err)
			return
		}
	}

	// graph list: chains first (their counts are the reference of the chain clause)
	var graphs []*gspec
	chainNs := map[int]bool{}
	var big []*gspec
	for _, w := range []int{2, 3} {
		for d := 1; d <= maxDepth; d++ {
			big = append(big, ladder(w, d))
		}
	}
	for n := 2; n <= maxDense; n++ {
		big = append(big, dense(n))
	}
	for _, g := range big {
		chainNs[g.N] = true
	}
	var ns []int
	for n := range chainNs {
		ns = append(ns, n)
	}
	sort.Ints(ns)
	for _, n := range ns {
		graphs = append(graphs, chain(n))
	}
	graphs = append(graphs, big...)
	shard, shards := vrep.Shard()
	idx := 0
	for n := 1; n <= maxAll; n++ {
		for mask := uint64(0); mask < 1<<uint(n*(n-1)/2); mask++ {
			idx++
			if idx%shards != shard {
				continue
			}
			graphs = append(graphs, dagFromMask(n, mask))
		}
	}
	if shard != 0 { // ladders, dense DAGs and chains are evaluated by shard 0 only
		graphs = graphs[len(ns)+len(big):]
	}
	if rp != nil {
		var keep []*gspec
		for _, g := range graphs {
			if g.Family == "chain" && g.N == rp.N {
				keep = append(keep, g)
			} else if g.Family == rp.Family && g.Width == rp.Width && g.Depth == rp.Depth && g.N == rp.N && g.Mask == rp.Mask {
				keep = append(keep, g)
			}
		}
		graphs = keep
	}

	chainCalls := map[string]map[int]int64{} // op -> V -> calls on the chain
	excesses := map[string][]excess{}
	wrongs := map[string][]string{}
	type row struct {
		fam   string
		depth int
		v, e  int
		calls int64
		over  bool
	}
	table := map[string][]row{}
	var evals, apiCalls int64
	samples := 0
	famCount := map[string]int{}

	hungOps := map[string]bool{}
	for _, g := range graphs {
		famCount[g.Family]++
		if g.diam {
			vrep.Nontrivial.Add(g.key())
		}
		bound := absBound(g)
		for _, op := range operations {
			if rp != nil && rp.Op != op.name {
				continue
			}
			if hungOps[op.name] {
				continue // this operation already hung once: do not wait for every further graph
			}
			res := op.run(g, bound)
			evals++
			apiCalls += res.ncalls
			if res.hang {
				hungOps[op.name] = true
				vrep.Violation("walk-hang:"+op.name, fmt.Sprintf("Walk did not return within 30 s on %s (not a cost verdict)", g), map[string]any{"op": op.name, "family": g.Family, "width": g.Width, "depth": g.Depth, "n": g.N, "mask": g.Mask})
				vrep.Cap("operation %s hung on %s; it is skipped for the remaining graphs", op.name, g)
				continue
			}
			if res.wrong != "" {
				wrongs[op.name] = append(wrongs[op.name], fmt.Sprintf("%s: %s", g, res.wrong))
				vrep.Outcomes.Add(op.name + "|wrong-result")
			}
			over := res.exceeded || res.calls > bound
			if g.Family == "chain" {
				if chainCalls[op.name] == nil {
					chainCalls[op.name] = map[int]int64{}
				}
				chainCalls[op.name][g.N] = res.calls
			}
			var x *excess
			if over {
				x = &excess{g: g, res: res, bound: bound, clause: "abs"}
			} else if g.Family == "ladder" || g.Family == "dense" {
				if cc, ok := chainCalls[op.name][g.N]; ok {
					rel := 4*cc + 8*int64(g.V()+g.E())
					if res.calls > rel {
						x = &excess{g: g, res: res, bound: bound, clause: "chain", chain: cc, rel: rel}
					}
				} else if rp == nil || len(graphs) > 1 {
					vrep.Broken("no chain reference for %s V=%d", op.name, g.N)
				}
			}
			if x != nil {
				excesses[op.name] = append(excesses[op.name], *x)
				vrep.Outcomes.Add(op.name + "|exceeded|" + x.clause)
			} else {
				vrep.Outcomes.Add(op.name + "|within-bound")
				vrep.Outcomes.Add(fmt.Sprintf("%s|calls=%d", op.name, res.calls))
			}
			if g.Family != "all-dag" {
				fam := g.Family
				if g.Family == "ladder" {
					fam = fmt.Sprintf("ladder-w%d", g.Width)
				}
				table[op.name] = append(table[op.name], row{fam, g.Depth, g.V(), g.E(), res.calls, over})
			}
			if samples < 4 && ((g.Family == "ladder" && g.Depth == 6) || (g.Family == "chain" && g.N == 14)) && (op.name == "GetDescendants" || op.name == "output-conflicts") {
				samples++
				vrep.Sample(map[string]any{"op": op.name, "family": g.Family, "width": g.Width, "depth": g.Depth, "V": g.V(), "E": g.E(), "calls": res.calls, "aborted_by_budget": res.exceeded, "bound": bound, "hottest": res.top})
			}
		}
	}

	// one violation per operation: the smallest exceeding graph as witness
	for _, op := range operations {
		xs := excesses[op.name]
		if len(xs) > 0 {
			sort.SliceStable(xs, func(i, j int) bool {
				if xs[i].size() != xs[j].size() {
					return xs[i].size() < xs[j].size()
				}
				return xs[i].g.V() < xs[j].g.V()
			})
			x := xs[0]
			perFam := map[string]string{}
			nAbs := 0
			for _, y := range xs {
				fam := y.g.Family
				if fam == "ladder" {
					fam = fmt.Sprintf("ladder-w%d", y.g.Width)
				}
				if _, ok := perFam[fam]; !ok {
					perFam[fam] = fmt.Sprintf("V=%d E=%d", y.g.V(), y.g.E())
					if y.g.Family == "ladder" {
						perFam[fam] = fmt.Sprintf("depth %d ", y.g.Depth) + perFam[fam]
					}
				}
				if y.clause == "abs" {
					nAbs++
				}
			}
			var detail string
			if x.clause == "abs" {
				c := fmt.Sprintf("calls=%d", x.res.calls)
				if x.res.exceeded {
					c = fmt.Sprintf("aborted after %d calls (at %s)", x.res.calls, x.res.at)
				}
				detail = fmt.Sprintf("%s on %s: %s > bound 8(V+E)(V+1)+64=%d; hottest %s", op.name, x.g, c, x.bound, x.res.top)
			} else {
				detail = fmt.Sprintf("%s on %s: calls=%d > 4*calls(chain of %d nodes)=4*%d + 8(V+E) = %d (polynomial bound %d); hottest %s", op.name, x.g, x.res.calls, x.g.V(), x.chain, x.rel, x.bound, x.res.top)
			}
			var fams []string
			for k, v := range perFam {
				fams = append(fams, k+": "+v)
			}
			sort.Strings(fams)
			detail += fmt.Sprintf(". %d graphs exceed (%d of them the polynomial bound); smallest per family: %s", len(xs), nAbs, strings.Join(fams, "; "))
			vrep.Violation("superpolynomial:"+op.name, detail, map[string]any{"op": op.name, "family": x.g.Family, "width": x.g.Width, "depth": x.g.Depth, "n": x.g.N, "mask": x.g.Mask})
		}
		if ws := wrongs[op.name]; len(ws) > 0 {
			sort.Strings(ws)
			vrep.Violation("wrong-result:"+op.name, fmt.Sprintf("%s (%d graphs)", ws[0], len(ws)), map[string]any{"op": op.name})
		}
	}

	// calls as a function of depth / size, per operation
	if shard == 0 && rp == nil {
		tbl := map[string]map[string]string{}
		for op, rows := range table {
			tbl[op] = map[string]string{}
			series := map[string][]string{}
			for _, r := range rows {
				x := fmt.Sprintf("V%d", r.v)
				if strings.HasPrefix(r.fam, "ladder") {
					x = fmt.Sprintf("d%d/V%d", r.depth, r.v)
				}
				c := fmt.Sprint(r.calls)
				if r.over {
					c = ">" + fmt.Sprint(8*int64(r.v+r.e)*int64(r.v+1)+64)
				}
				series[r.fam] = append(series[r.fam], x+":"+c)
			}
			for fam, s := range series {
				tbl[op][fam] = strings.Join(s, " ")
			}
		}
		vrep.Set("calls_by_family", tbl)
		vrep.Set("max_depth", maxDepth)
		vrep.Set("max_alldag_nodes", maxAll)
	}
	for fam, n := range famCount {
		vrep.AddInt("graphs_"+fam, int64(n))
	}
	vrep.Counts(evals, int64(len(graphs)), apiCalls, evals)
	vrep.Done()
}
