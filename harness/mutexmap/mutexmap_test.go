// Package mutexmap drives the real maps.MutexMap (the per-target locks of the
// hasher and of the output registry) alone: G goroutines each lock / unlock the
// same name R times (and one of them a second name), every schedule with at
// most d deviations; mutex and atomic operations of mutex_map.go are scheduling
// points. Oracles: never two holders of one name, Unlock never fails, nobody
// waits forever, no "unlock of unlocked mutex".
package mutexmap

import (
	"fmt"
	"os"
	"strings"
	"sync"
	"testing"
	"time"

	"grog/internal/maps"
	"grog/internal/zverif/explore"
	"grog/internal/zverif/vrep"
	"grog/internal/zverif/vs"
)

type scenario struct {
	Goroutines int `json:"goroutines"`
	Rounds     int `json:"rounds"`
}

func (s scenario) name() string { return fmt.Sprintf("goroutines=%d/rounds=%d", s.Goroutines, s.Rounds) }

func (sc scenario) run(t *testing.T, cfg vs.Config) explore.Exec {
	var mu sync.Mutex
	holders := map[string]int{}
	var problems []string
	var trace []string
	res := vs.Run(t, cfg, func() {
		m := maps.NewMutexMap()
		var wg sync.WaitGroup
		for g := 0; g < sc.Goroutines; g++ {
			g := g
			wg.Add(1)
			vs.Go(fmt.Sprintf("g%d", g), func() {
				defer wg.Done()
				for r := 0; r < sc.Rounds; r++ {
					name := "//p:t"
					if g == 0 && r == 1 {
						name = "//p:other"
					}
					m.Lock(name)
					mu.Lock()
					holders[name]++
					trace = append(trace, fmt.Sprintf("g%d+%s", g, name))
					if holders[name] > 1 {
						problems = append(problems, fmt.Sprintf("g%d holds %s while another goroutine holds it", g, name))
					}
					mu.Unlock()
					vs.Point("critical-section")
					mu.Lock()
					holders[name]--
					trace = append(trace, fmt.Sprintf("g%d-%s", g, name))
					mu.Unlock()
					if err := m.Unlock(name); err != nil {
						mu.Lock()
						problems = append(problems, fmt.Sprintf("g%d: Unlock(%s) failed: %v", g, name, err))
						mu.Unlock()
					}
				}
			})
		}
		wg.Wait()
	})
	ex := explore.Exec{Res: res}
	mu.Lock()
	defer mu.Unlock()
	if len(problems) > 0 {
		ex.Findings = append(ex.Findings, explore.Finding{Sig: "C03:per-target-lock-not-exclusive", Detail: strings.Join(problems, "; ") + fmt.Sprintf("; trace %v", trace)})
	}
	for _, p := range res.Panics {
		ex.Findings = append(ex.Findings, explore.Finding{Sig: "C04:panic", Detail: p + fmt.Sprintf("; trace %v", trace)})
	}
	if res.Deadlock && !res.StepLimit && res.Divergence == "" {
		ex.Findings = append(ex.Findings, explore.Finding{Sig: "C04:per-target-lock-never-acquired", Detail: fmt.Sprintf("goroutines wait forever for a per-target lock nobody holds: %s; trace %v", strings.Join(res.Blocked, "; "), trace)})
	}
	ex.Outcome = fmt.Sprintf("problems=%d deadlock=%v", len(problems), res.Deadlock)
	ex.Nontrivial = true
	return ex
}

func TestVerif(t *testing.T) {
	bound := vrep.EnvInt("VERIF_BOUND", 3)
	deadline := time.Now().Add(time.Duration(vrep.EnvInt("VERIF_BUDGET_S", 20)) * time.Second)
	scs := []scenario{{2, 1}, {2, 2}, {3, 1}, {3, 2}}
	mk := func(sc scenario) explore.Scenario {
		return explore.Scenario{Name: sc.name(), Desc: sc, Run: sc.run, Horizon: 2, MaxSteps: 3000}
	}
	if rp := explore.ReplayFromEnv(); rp != nil {
		for _, sc := range scs {
			if sc.name() == rp.Scenario {
				explore.RunReplay(t, mk(sc), rp.Choices)
			}
		}
		vrep.Done()
		return
	}
	only := os.Getenv("VERIF_ONLY")
	var execs, steps int64
	completed := 0
	for b := 1; b <= bound; b++ {
		done, total := 0, 0
		for _, sc := range scs {
			if only != "" && !strings.Contains(sc.name(), only) {
				continue
			}
			total++
			if time.Now().After(deadline) {
				continue
			}
			st := explore.Explore(t, mk(sc), explore.Options{Bound: b, Deadline: deadline})
			execs += st.Execs
			steps += st.Steps
			if !st.Capped {
				done++
			}
		}
		if done == total {
			completed = b
		} else {
			vrep.Cap("per-target lock harness: deviation bound %d completed for %d of %d scenarios (bound %d complete for all)", b, done, total, completed)
			break
		}
	}
	vrep.Counts(execs, execs, steps, execs)
	vrep.Set("per_target_lock_deviation_bound_completed", completed)
	vrep.Done()
}
