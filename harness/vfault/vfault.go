// Package vfault provides numbered crash points for the fault-enumerating
// checks. It is linked into an instrumented grog binary through the overlay.
//
//	VERIF_FAULT_LOG=<file>   append one line per point instance ("site")
//	VERIF_CRASH=<site>#<n>   SIGKILL the process when the n-th instance of site is reached
//	VERIF_SIGNAL=<site>#<n>:<INT|TERM>  deliver the signal to the own process there
//	VERIF_SIGNAL_STALL_MS=<ms>  ... and keep the goroutine that reached the point there for that long
package vfault

import (
	"os"
	"strconv"
	"strings"
	"sync"
	"syscall"
	"time"
)

var (
	mu      sync.Mutex
	counts  = map[string]int{}
	logFile *os.File
	site    string
	nth     int
	sigSite string
	sigNth  int
	sig     syscall.Signal
	once    sync.Once
)

func setup() {
	if p := os.Getenv("VERIF_FAULT_LOG"); p != "" {
		logFile, _ = os.OpenFile(p, os.O_WRONLY|os.O_CREATE|os.O_APPEND, 0o644)
	}
	parse := func(v string) (string, int) {
		i := strings.LastIndex(v, "#")
		if i < 0 {
			return "", 0
		}
		n, _ := strconv.Atoi(v[i+1:])
		return v[:i], n
	}
	if v := os.Getenv("VERIF_CRASH"); v != "" {
		site, nth = parse(v)
	}
	if v := os.Getenv("VERIF_SIGNAL"); v != "" {
		i := strings.LastIndex(v, ":")
		if i > 0 {
			sigSite, sigNth = parse(v[:i])
			sig = syscall.SIGINT
			if v[i+1:] == "TERM" {
				sig = syscall.SIGTERM
			}
		}
	}
}

// Point is one numbered instance of a crash/signal point.
func Point(s string) {
	once.Do(setup)
	mu.Lock()
	counts[s]++
	n := counts[s]
	if logFile != nil {
		logFile.WriteString(s + "\n")
	}
	mu.Unlock()
	if site != "" && s == site && n == nth {
		syscall.Kill(syscall.Getpid(), syscall.SIGKILL)
		time.Sleep(time.Hour)
	}
	if sigSite != "" && s == sigSite && n == sigNth {
		if tf := os.Getenv("VTRACE"); tf != "" {
			if f, err := os.OpenFile(tf, os.O_WRONLY|os.O_APPEND|os.O_CREATE, 0o644); err == nil {
				f.WriteString("signal " + s + "\n")
				f.Close()
			}
		}
		syscall.Kill(syscall.Getpid(), sig)
		// give the signal handler goroutine a chance to run before continuing
		time.Sleep(50 * time.Millisecond)
		// VERIF_SIGNAL_STALL_MS: the operation that the signal interrupted is slow (a large output, a slow disk):
		// this goroutine stays where it is for that long, grog's handling of the signal goes on without it
		if ms, _ := strconv.Atoi(os.Getenv("VERIF_SIGNAL_STALL_MS")); ms > 0 {
			time.Sleep(time.Duration(ms) * time.Millisecond)
		}
	}
}
