// Package vcount holds deterministic operation counters. Instrumented copies of
// repo files (see /verif/internal/instr/count.go) call Enter at the start of
// every function; a harness sets a budget so that a computation whose number of
// function entries exceeds a stated bound is aborted at once instead of being
// waited for. Wall-clock time is never consulted.
package vcount

import (
	"fmt"
	"math"
	"runtime"
	"sync"
	"sync/atomic"
)

// BudgetExceeded is the sentinel panic value raised by Enter (ModePanic) when
// the total number of entries exceeds the budget. Name is the function whose
// entry crossed the budget, Count the total at that moment.
type BudgetExceeded struct {
	Name  string
	Count int64
}

func (b BudgetExceeded) Error() string {
	return fmt.Sprintf("vcount: budget exceeded at %s (total %d)", b.Name, b.Count)
}

const (
	// ModePanic: Enter panics with BudgetExceeded (for operations that run on
	// the harness goroutine, which recovers).
	ModePanic int32 = iota
	// ModeGoexit: for operations that run on goroutines the harness does not
	// own (dag.Walker's node routines), where a panic could not be recovered:
	// the goroutine that crosses the budget is terminated with runtime.Goexit
	// (its deferred unlocks run), the event is recorded (Exceeded, ExceededCh)
	// and the budget is raised by Grace so that clean-up code can run; a
	// computation that keeps going is terminated again after Grace more entries.
	ModeGoexit
)

// Grace is the number of additional entries allowed after each abort in ModeGoexit.
const Grace = 1 << 16

var (
	total  atomic.Int64
	budget atomic.Int64
	mode   atomic.Int32

	mu       sync.RWMutex
	counters = map[string]*atomic.Int64{}

	exMu   sync.Mutex
	exRec  *BudgetExceeded
	exChan = make(chan struct{})
)

func init() { budget.Store(math.MaxInt64) }

func counter(name string) *atomic.Int64 {
	mu.RLock()
	c := counters[name]
	mu.RUnlock()
	if c != nil {
		return c
	}
	mu.Lock()
	if c = counters[name]; c == nil {
		c = new(atomic.Int64)
		counters[name] = c
	}
	mu.Unlock()
	return c
}

// Enter counts one entry of the named function.
func Enter(name string) {
	counter(name).Add(1)
	if t := total.Add(1); t > budget.Load() {
		exceeded(name, t)
	}
}

func exceeded(name string, t int64) {
	rec := BudgetExceeded{Name: name, Count: t}
	exMu.Lock()
	first := exRec == nil
	if first {
		exRec = &rec
		close(exChan)
	}
	exMu.Unlock()
	if mode.Load() == ModeGoexit {
		budget.Add(Grace)
		runtime.Goexit()
	}
	panic(rec)
}

// SetBudget sets the maximal total number of entries; n <= 0 means unlimited.
func SetBudget(n int64) {
	if n <= 0 {
		n = math.MaxInt64
	}
	budget.Store(n)
}

// SetMode selects ModePanic (default) or ModeGoexit.
func SetMode(m int32) { mode.Store(m) }

// Reset zeroes all counters, the total and the exceeded record. Budget and mode
// are left as they are.
func Reset() {
	mu.Lock()
	for _, c := range counters {
		c.Store(0)
	}
	mu.Unlock()
	total.Store(0)
	exMu.Lock()
	if exRec != nil {
		exRec = nil
		exChan = make(chan struct{})
	}
	exMu.Unlock()
}

// Total returns the number of entries since the last Reset.
func Total() int64 { return total.Load() }

// Count returns the number of entries of one function since the last Reset.
func Count(name string) int64 {
	mu.RLock()
	c := counters[name]
	mu.RUnlock()
	if c == nil {
		return 0
	}
	return c.Load()
}

// Snapshot returns the non-zero per-function counters.
func Snapshot() map[string]int64 {
	out := map[string]int64{}
	mu.RLock()
	for k, c := range counters {
		if n := c.Load(); n != 0 {
			out[k] = n
		}
	}
	mu.RUnlock()
	return out
}

// Exceeded returns the first budget violation since the last Reset.
func Exceeded() (BudgetExceeded, bool) {
	exMu.Lock()
	defer exMu.Unlock()
	if exRec == nil {
		return BudgetExceeded{}, false
	}
	return *exRec, true
}

// ExceededCh returns a channel that is closed at the first budget violation
// after the last Reset (obtain it after Reset).
func ExceededCh() <-chan struct{} {
	exMu.Lock()
	defer exMu.Unlock()
	return exChan
}
