// C10: workspace lock. 2 or 3 virtual processes, each owning a real
// locking.WorkspaceLocker on the same real lock file path, run
// Lock(); critical section; Unlock() under every schedule with <= d deviations
// (a crash of a process at a file-system step and map/select choices count as
// deviations too).
package c10

import (
	"context"
	"fmt"
	"os"
	"path/filepath"
	"strings"
	"testing"
	"time"

	"go.uber.org/zap"
	"go.uber.org/zap/zapcore"

	"grog/internal/config"
	"grog/internal/console"
	"grog/internal/locking"
	"grog/internal/zverif/explore"
	"grog/internal/zverif/vlockos"
	"grog/internal/zverif/vrep"
	"grog/internal/zverif/vs"
	sync "grog/internal/zverif/vsync"
)

type scenario struct {
	Procs  int    `json:"procs"`
	Pre    string `json:"pre_existing_lock_file"` // none | empty | garbage | dead-pid | foreign-live-then-dies
	Crash  bool   `json:"one_crash_allowed"`
	Cancel bool   `json:"waiter_p102_may_be_cancelled"` // Ctrl-C for one process: its context is cancelled at an arbitrary point
}

func (s scenario) name() string {
	return fmt.Sprintf("procs=%d/pre=%s/crash=%v/cancel=%v", s.Procs, s.Pre, s.Crash, s.Cancel)
}

var nop = console.NewFromSugared(zap.NewNop().Sugar(), zapcore.ErrorLevel)
var scratch string

func (sc scenario) run(t *testing.T, cfg vs.Config) explore.Exec {
	dir, err := os.MkdirTemp(scratch, "ws")
	if err != nil {
		panic(err)
	}
	defer os.RemoveAll(dir)
	config.Global.Root = dir
	config.Global.WorkspaceRoot = dir
	lockDir := config.Global.GetWorkspaceRootDir()
	os.MkdirAll(lockDir, 0o755)
	lockPath := filepath.Join(lockDir, "lockfile")
	switch sc.Pre {
	case "empty":
		os.WriteFile(lockPath, nil, 0o644)
	case "garbage":
		os.WriteFile(lockPath, []byte("not-a-pid"), 0o644)
	case "dead-pid":
		os.WriteFile(lockPath, []byte("900"), 0o644)
	case "foreign-live-then-dies":
		os.WriteFile(lockPath, []byte("901"), 0o644)
	}
	w := vlockos.NewWorld()
	w.Register(900, false)
	w.Register(901, sc.Pre == "foreign-live-then-dies")
	if sc.Crash {
		w.Crashes = 1
	}
	holders := 0
	maxHolders := 0
	acquired := map[int]bool{}
	finished := map[int]bool{}
	lockErr := map[int]error{}
	var doubleDetail string
	cancelled102 := false

	res := vs.Run(t, cfg, func() {
		ctx := console.WithLogger(context.Background(), nop)
		var wg sync.WaitGroup
		w.OnCrash = func(pid int) {
			// a crashed process never finishes; a crashed holder keeps "holding" nothing:
			// the property is about LIVE processes between Lock()==nil and Unlock()
			vs.Locked(func() {
				if acquired[pid] && !finished[pid] {
					holders--
				}
				finished[pid] = true
			})
			wg.Done()
		}
		cancelCtx, cancel102 := context.WithCancel(ctx)
		defer cancel102()
		if sc.Cancel {
			vs.Go("ctrl-c-for-p102", func() {
				vs.Point("ctrl-c")
				vs.Event("p102 is interrupted (context cancelled)")
				cancelled102 = true
				cancel102()
			})
		}
		for p := 1; p <= sc.Procs; p++ {
			pid := 100 + p
			wg.Add(1)
			vs.Go(fmt.Sprintf("proc-%d", pid), func() {
				w.Bind(pid)
				locker := locking.NewWorkspaceLocker()
				pctx := ctx
				if pid == 102 {
					pctx = cancelCtx
				}
				if err := locker.Lock(pctx); err != nil {
					if pid == 102 && cancelled102 && pctx.Err() != nil {
						// an interrupted waiter gives up: that is not an error of the lock
						vs.Event("p102 gives up: %v", err)
						vs.Locked(func() { finished[pid] = true })
						wg.Done()
						return
					}
					lockErr[pid] = err
					vs.Locked(func() { finished[pid] = true })
					wg.Done()
					return
				}
				vs.Locked(func() {
					acquired[pid] = true
					holders++
					if holders > maxHolders {
						maxHolders = holders
					}
					if holders > 1 && doubleDetail == "" {
						doubleDetail = fmt.Sprintf("p%d acquired the lock while another live process holds it", pid)
					}
				})
				vs.Event("p%d ACQUIRED", pid)
				vs.Point("critical-section")
				// a crash inside the critical section is offered by the Unlock's remove step
				vs.Locked(func() { holders-- })
				vs.Event("p%d RELEASES", pid)
				_ = locker.Unlock()
				vs.Locked(func() { finished[pid] = true })
				wg.Done()
			})
		}
		if sc.Pre == "foreign-live-then-dies" {
			vs.Go("foreign", func() {
				vs.Point("foreign-dies")
				w.Kill(901)
				vs.Event("foreign pid 901 dies")
			})
		}
		wg.Wait()
	})

	ex := explore.Exec{Res: res}
	add := func(sig, format string, a ...any) {
		ex.Findings = append(ex.Findings, explore.Finding{Sig: sig, Detail: fmt.Sprintf(format, a...)})
	}
	evs := strings.Join(w.Events, "; ")
	if maxHolders > 1 {
		cause := w.FirstHarm
		if cause == "" {
			cause = "unclassified"
		}
		add("C10:two-holders:"+cause, "%s; harmful removals: %v; history: %s", doubleDetail, w.HarmfulLog, evs)
	}
	for _, p := range res.Panics {
		add("C10:panic", "%s", p)
	}
	for pid, e := range lockErr {
		add("C10:lock-error", "p%d: Lock returned %v; history: %s", pid, e, evs)
	}
	if res.Deadlock && !res.StepLimit {
		var waiting []string
		for p := 1; p <= sc.Procs; p++ {
			if !finished[100+p] {
				waiting = append(waiting, fmt.Sprintf("p%d", 100+p))
			}
		}
		add("C10:waiter-never-acquires:pre="+sc.Pre, "live processes %v still wait for the lock after %d clock advances although no live process holds it; history: %s", waiting, res.ClockTicks, evs)
	}
	ex.Outcome = fmt.Sprintf("max=%d acquired=%d dead=%v harm=%s ticks=%d", maxHolders, len(acquired), res.Deadlock, w.FirstHarm, res.ClockTicks)
	ex.Nontrivial = len(acquired) > 0
	return ex
}

func scenarios(thorough bool) []scenario {
	var out []scenario
	procs := []int{2}
	if thorough {
		procs = []int{2, 3}
	}
	for _, n := range procs {
		for _, pre := range []string{"none", "empty", "garbage", "dead-pid", "foreign-live-then-dies"} {
			for _, crash := range []bool{false, true} {
				out = append(out, scenario{Procs: n, Pre: pre, Crash: crash})
			}
		}
	}
	// a waiter that is interrupted while others hold / contend (needs a third process to expose damage)
	out = append(out, scenario{Procs: 3, Pre: "none", Cancel: true}, scenario{Procs: 2, Pre: "none", Cancel: true})
	if thorough {
		out = append(out, scenario{Procs: 3, Pre: "dead-pid", Cancel: true}, scenario{Procs: 3, Pre: "none", Cancel: true, Crash: true})
	}
	return out
}

func TestVerif(t *testing.T) {
	base := "/dev/shm"
	if _, err := os.Stat(base); err != nil {
		base = os.TempDir()
	}
	var err error
	scratch, err = os.MkdirTemp(base, "vcheck-c10-")
	if err != nil {
		vrep.Broken("mkdtemp: %v", err)
		return
	}
	defer os.RemoveAll(scratch)
	// the locker prints progress dots to stdout; keep the protocol stream clean
	devnull, _ := os.OpenFile(os.DevNull, os.O_WRONLY, 0)
	os.Stdout = devnull

	bound := vrep.EnvInt("VERIF_BOUND", 3)
	deadline := time.Now().Add(time.Duration(vrep.EnvInt("VERIF_BUDGET_S", 50)) * time.Second)
	mk := func(sc scenario) explore.Scenario {
		return explore.Scenario{Name: sc.name(), Desc: sc, Run: sc.run, Horizon: 6, MaxSteps: 3000}
	}
	if rp := explore.ReplayFromEnv(); rp != nil {
		for _, sc := range scenarios(true) {
			if sc.name() == rp.Scenario {
				explore.RunReplay(t, mk(sc), rp.Choices)
			}
		}
		vrep.Done()
		return
	}
	scs := scenarios(vrep.Thorough())
	var execs, steps int64
	completedAll := 0
	for b := 1; b <= bound; b++ {
		done := 0
		for _, sc := range scs {
			if time.Now().After(deadline) {
				continue
			}
			st := explore.Explore(t, mk(sc), explore.Options{Bound: b, Deadline: deadline})
			execs += st.Execs
			steps += st.Steps
			if !st.Capped {
				done++
			}
		}
		vrep.Set(fmt.Sprintf("scenarios_completed_at_bound_%d", b), fmt.Sprintf("%d of %d", done, len(scs)))
		if done == len(scs) {
			completedAll = b
		} else {
			vrep.Cap("deviation bound %d completed for %d of %d scenarios within the wall-clock budget (bound %d is complete for all)", b, done, len(scs), completedAll)
			break
		}
	}
	vrep.Counts(execs, execs, steps, execs)
	vrep.Set("deviation_bound", bound)
	vrep.Set("deviation_bound_completed", completedAll)
	vrep.Sample(map[string]any{"scenario": scs[len(scs)/2], "meaning": "virtual processes run real WorkspaceLocker.Lock/Unlock on one real lock file; all schedules (and crash points) with <= bound deviations"})
	vrep.Done()
}
