package c16

import (
	"fmt"
	"os"
	"path/filepath"

	"grog/internal/config"
	"grog/internal/zverif/vrep"
)

// Part (c''): nested packages whose input globs reach the same files under different relative names
// (//p: "q/**/*.txt", //p/q: "**/*.txt", //p/q/r: "*.txt"). Whatever the order in which the packages are
// enriched (worker counts 1, 2, 3, 8, repeated; both creation orders of the BUILD files), every target's
// resolved inputs are relative to ITS package and complete.
func partNestedGlobs(shard, shards int) {
	if shard != 0 {
		return
	}
	reps := 5
	if vrep.Thorough() {
		reps = 30
	}
	want := map[string]string{
		"//p:t/inputs":     `["q/a.txt","q/r/b.txt","x.md"]`,
		"//p/q:t/inputs":   `["a.txt","r/b.txt"]`,
		"//p/q/r:t/inputs": `["b.txt"]`,
	}
	builds := []wsFile{
		{"p/BUILD.json", `{"targets":[{"name":"t","command":"true","inputs":["q/**/*.txt","*.md"]}]}`},
		{"p/q/BUILD.json", `{"targets":[{"name":"t","command":"true","inputs":["**/*.txt"]}]}`},
		{"p/q/r/BUILD.json", `{"targets":[{"name":"t","command":"true","inputs":["*.txt"]}]}`},
	}
	defer func() { config.Global.NumWorkers = 0 }()
	for oi, order := range [][]int{{0, 1, 2}, {2, 1, 0}, {1, 0, 2}} {
		root := filepath.Join(tmp, fmt.Sprintf("ws-nested-%d", oi))
		os.MkdirAll(filepath.Join(root, "p/q/r"), 0o755)
		os.WriteFile(filepath.Join(root, "grog.toml"), nil, 0o644)
		os.WriteFile(filepath.Join(root, "p/x.md"), []byte("x"), 0o644)
		os.WriteFile(filepath.Join(root, "p/q/a.txt"), []byte("a"), 0o644)
		os.WriteFile(filepath.Join(root, "p/q/r/b.txt"), []byte("b"), 0o644)
		for _, i := range order {
			os.WriteFile(filepath.Join(root, builds[i].Path), []byte(builds[i].Content), 0o644)
		}
		config.Global.WorkspaceRoot = root
		caseID := map[string]any{"part": "c''", "files": builds, "creation_order": order}
		for _, w := range []int{1, 2, 3, 8} {
			for rep := 0; rep < reps; rep++ {
				config.Global.NumWorkers = w
				r, finished := loadPackagesGuarded(root)
				evals += int64(len(builds))
				who := fmt.Sprintf("workers=%d rep=%d creation order %v", w, rep, order)
				if !finished {
					vrep.Violation("hang:loadpackages:nested-globs", fmt.Sprintf("LoadPackages did not return within %s (%s)", hangCeiling, who), caseID)
					continue
				}
				if r.panic != "" || r.err != nil {
					vrep.Violation("loadpackages:valid-workspace-rejected:nested-globs", fmt.Sprintf("nested packages are rejected: %v %s (%s)", r.err, r.panic, who), caseID)
					continue
				}
				got := map[string]string{}
				for _, p := range r.pkgs {
					for k, v := range canon(p) {
						if _, ok := want[k]; ok {
							got[k] = v
						}
					}
				}
				for k, v := range want {
					if got[k] != v {
						vrep.Violation("loadpackages:resolved-inputs-depend-on-load-order", fmt.Sprintf("%s = %s, expected %s (globs are resolved relative to the target's own package, whatever was loaded before) (%s)", k, got[k], v, who), caseID)
					}
				}
				noteOutcome("loadpackages|nested-globs|ok")
			}
		}
		vrep.Nontrivial.Add(fmt.Sprintf("c''|%v", order))
		os.RemoveAll(root)
	}
}

// Part (c'''): a workspace that is larger than the loader's internal queue (300 packages) with ONE malformed
// BUILD file that the walker delivers early (root package) or late (zz/): LoadPackages returns an error for every
// worker count - it neither hangs (workers that stop draining the queue while the walker still has files to deliver)
// nor succeeds.
func partLargeWorkspace(shard, shards int) {
	if shard != 1%shards {
		return
	}
	defer func() { config.Global.NumWorkers = 0 }()
	for _, where := range []string{"BUILD.json", "zz/BUILD.json", "BUILD.star"} {
		root := filepath.Join(tmp, "ws-large-"+filepath.Base(filepath.Dir("x/"+where))+filepath.Ext(where))
		os.MkdirAll(root, 0o755)
		os.WriteFile(filepath.Join(root, "grog.toml"), nil, 0o644)
		for i := 0; i < 300; i++ {
			d := filepath.Join(root, fmt.Sprintf("d%03d", i))
			os.MkdirAll(d, 0o755)
			os.WriteFile(filepath.Join(d, "BUILD.json"), []byte(fmt.Sprintf(`{"targets":[{"name":"t%d","command":"true"}]}`, i)), 0o644)
		}
		os.MkdirAll(filepath.Dir(filepath.Join(root, where)), 0o755)
		bad := `{"targets":[{"name":"broken","command":`
		if filepath.Ext(where) == ".star" {
			bad = "target(name = \"broken\", command = )\n"
		}
		os.WriteFile(filepath.Join(root, where), []byte(bad), 0o644)
		config.Global.WorkspaceRoot = root
		caseID := map[string]any{"part": "c'''", "packages": 300, "malformed_file": where, "content": bad}
		for _, w := range []int{1, 2, 8} {
			config.Global.NumWorkers = w
			r, finished := loadPackagesGuarded(root)
			evals += 301
			who := fmt.Sprintf("workers=%d", w)
			switch {
			case !finished:
				vrep.Violation("hang:loadpackages:malformed-file-in-large-workspace", fmt.Sprintf("LoadPackages did not return within %s: 300 valid packages and a malformed %s (%s)", hangCeiling, where, who), caseID)
			case r.panic != "":
				vrep.Violation("panic:loadpackages:malformed-file-in-large-workspace", fmt.Sprintf("LoadPackages panics: %s (%s)", r.panic, who), caseID)
			case r.err == nil:
				vrep.Violation("loadpackages:malformed-file-accepted:large-workspace", fmt.Sprintf("300 valid packages and a malformed %s load without an error (%s)", where, who), caseID)
			default:
				noteOutcome("loadpackages|large-workspace|error:" + errClass(r.err))
			}
			if !finished {
				break // the lost goroutines keep the directory busy: do not pile up more of them
			}
		}
		vrep.Nontrivial.Add("c'''|" + where)
		os.RemoveAll(root)
	}
}

// Part (c''''): many Starlark packages loaded by several workers at once: every package gets exactly the targets
// its own BUILD.star declares (nothing that one evaluation writes may be visible to another one).
func partStarlarkPackages(shard, shards int) {
	if shard != 2%shards {
		return
	}
	reps := 6
	if vrep.Thorough() {
		reps = 30
	}
	const pkgs, perPkg = 24, 30
	root := filepath.Join(tmp, "ws-star")
	os.MkdirAll(root, 0o755)
	os.WriteFile(filepath.Join(root, "grog.toml"), nil, 0o644)
	os.WriteFile(filepath.Join(root, "defs.star"), []byte("def mk(prefix, n):\n    for i in range(n):\n        target(name = prefix + \"_\" + str(i), command = \"echo \" + prefix)\n"), 0o644)
	for p := 0; p < pkgs; p++ {
		d := filepath.Join(root, fmt.Sprintf("s%02d", p))
		os.MkdirAll(d, 0o755)
		os.WriteFile(filepath.Join(d, "BUILD.star"), []byte(fmt.Sprintf("load(\"//defs.star\", \"mk\")\nmk(\"s%02d\", %d)\nalias(name = \"al\", actual = \":s%02d_0\")\n", p, perPkg, p)), 0o644)
	}
	config.Global.WorkspaceRoot = root
	defer func() { config.Global.NumWorkers = 0 }()
	caseID := map[string]any{"part": "c''''", "starlark_packages": pkgs, "targets_per_package": perPkg}
	for _, w := range []int{1, 2, 8} {
		for rep := 0; rep < reps; rep++ {
			config.Global.NumWorkers = w
			r, finished := loadPackagesGuarded(root)
			evals += pkgs
			who := fmt.Sprintf("workers=%d rep=%d", w, rep)
			if !finished {
				vrep.Violation("hang:loadpackages:starlark-packages", fmt.Sprintf("LoadPackages did not return within %s (%s)", hangCeiling, who), caseID)
				return
			}
			if r.panic != "" || r.err != nil {
				vrep.Violation("loadpackages:valid-workspace-rejected:starlark-packages", fmt.Sprintf("%d valid Starlark packages are rejected: %v %s (%s)", pkgs, r.err, r.panic, who), caseID)
				continue
			}
			bad := ""
			seen := 0
			for _, p := range r.pkgs {
				if len(p.Targets) == 0 && len(p.Aliases) == 0 {
					continue
				}
				seen++
				prefix := filepath.Base(p.Path)
				if len(p.Targets) != perPkg || len(p.Aliases) != 1 {
					bad = fmt.Sprintf("package %s has %d targets and %d aliases, its BUILD.star declares %d and 1", p.Path, len(p.Targets), len(p.Aliases), perPkg)
				}
				for l := range p.Targets {
					if l.Package != p.Path || len(l.Name) < len(prefix) || l.Name[:len(prefix)] != prefix {
						bad = fmt.Sprintf("package %s contains %s", p.Path, l)
					}
				}
			}
			if seen != pkgs && bad == "" {
				bad = fmt.Sprintf("%d packages with targets, expected %d", seen, pkgs)
			}
			if bad != "" {
				vrep.Violation("loadpackages:starlark-evaluations-interfere", fmt.Sprintf("%s (%s)", bad, who), caseID)
				return
			}
			noteOutcome("loadpackages|starlark-packages|ok")
		}
	}
	vrep.Nontrivial.Add("c''''")
	os.RemoveAll(root)
}
