// C16: BUILD loaders agree across formats, are deterministic and never crash.
//
//	(a) agree_test.go   – bounded-exhaustive package definitions rendered into every format
//	(b) corrupt_test.go – every single (thorough: double) edit of seed files, no panic / no hang
//	(c') workers_test.go – LoadPackages on small on-disk workspaces under several worker counts
package c16

import (
	"context"
	"fmt"
	"hash/fnv"
	"os"
	"path/filepath"
	"regexp"
	"runtime/debug"
	"strings"
	"testing"
	"time"

	"go.uber.org/zap"
	"go.uber.org/zap/zapcore"

	"grog/internal/config"
	"grog/internal/console"
	"grog/internal/loading"
	"grog/internal/model"
	"grog/internal/zverif/vrep"
)

var (
	logger *console.Logger
	ctx    context.Context
	tmp    string // scratch root of this process
	evals  int64  // files loaded
)

const hangCeiling = 30 * time.Second

// inputFiles are created in every scratch package so that globs and excludes
// resolve to something comparable.
var inputFiles = []string{"a.txt", "src/b.txt", "src/c.txt", "deep/x/c.txt", "src/n.md"}

func mkPackageDir(dir string) error {
	for _, f := range inputFiles {
		p := filepath.Join(dir, f)
		if err := os.MkdirAll(filepath.Dir(p), 0o755); err != nil {
			return err
		}
		if err := os.WriteFile(p, []byte(f), 0o644); err != nil {
			return err
		}
	}
	return nil
}

// loadResult is the observation of loading one BUILD file.
type loadResult struct {
	Pkg     *model.Package
	Matched bool
	Err     error
	Stage   string // "load" or "enrich" (where Err came from)
	Panic   string // "" or "<class>@<function>"
	PanicV  string
	Hang    bool
}

func loaderName(fileName string) string {
	switch {
	case fileName == "BUILD.json":
		return "json"
	case fileName == "BUILD.yaml" || fileName == "BUILD.yml":
		return "yaml"
	case fileName == "BUILD.star" || fileName == "BUILD.bzl":
		return "starlark"
	case fileName == "Makefile":
		return "makefile"
	case strings.HasSuffix(fileName, ".grog.sh") || strings.HasSuffix(fileName, ".grog.py"):
		return "script"
	}
	return "other"
}

var digitsRe = regexp.MustCompile(`[0-9]+`)

func panicClass(v any) string {
	s := fmt.Sprint(v)
	switch {
	case strings.Contains(s, "index out of range"):
		return "index-out-of-range"
	case strings.Contains(s, "slice bounds out of range"):
		return "slice-bounds-out-of-range"
	case strings.Contains(s, "nil pointer dereference"):
		return "nil-dereference"
	case strings.Contains(s, "nil map"):
		return "nil-map-write"
	}
	s = digitsRe.ReplaceAllString(s, "N")
	s = strings.Map(func(r rune) rune {
		if r >= 'a' && r <= 'z' || r >= 'A' && r <= 'Z' || r == 'N' {
			return r
		}
		return '-'
	}, s)
	if len(s) > 40 {
		s = s[:40]
	}
	return s
}

// panicSite extracts the first frame below the panic that belongs to the repo
// (preferably to grog/internal/loading) from a debug.Stack() dump.
func panicSite(stack string) string {
	lines := strings.Split(stack, "\n")
	start := 0
	for i, l := range lines {
		if strings.HasPrefix(l, "panic(") {
			start = i + 1
		}
	}
	fn := func(l string) string {
		if i := strings.LastIndex(l, "("); i > 0 {
			l = l[:i]
		}
		if i := strings.LastIndex(l, "/"); i >= 0 {
			l = l[i+1:]
		}
		// loading.(*makefileParser).handleTarget -> handleTarget
		parts := strings.Split(l, ".")
		return parts[len(parts)-1]
	}
	first := ""
	for _, l := range lines[start:] {
		if strings.HasPrefix(l, "\t") || l == "" {
			continue
		}
		if strings.HasPrefix(l, "grog/internal/loading.") {
			return fn(l)
		}
		if first == "" && !strings.HasPrefix(l, "runtime.") && !strings.Contains(l, "zverif") {
			first = fn(l)
		}
	}
	if first == "" {
		return "unknown"
	}
	return first
}

// loadFile writes content as dir/fileName (dir must be below the workspace
// root), loads it through the real package loader followed by the real
// enrichment step, under recover and the hang ceiling.
func loadFile(dir, fileName string, content []byte) loadResult {
	path := filepath.Join(dir, fileName)
	if err := os.WriteFile(path, content, 0o755); err != nil {
		vrep.Broken("write %s: %v", path, err)
		return loadResult{Err: err, Stage: "harness"}
	}
	defer os.Remove(path)
	evals++
	done := make(chan loadResult, 1)
	go func() {
		var r loadResult
		defer func() {
			if v := recover(); v != nil {
				r = loadResult{PanicV: fmt.Sprint(v), Panic: panicClass(v) + "@" + panicSite(string(debug.Stack()))}
			}
			done <- r
		}()
		pl := loading.NewPackageLoader(logger)
		dto, matched, err := pl.LoadIfMatched(ctx, path, fileName)
		if err != nil {
			r = loadResult{Err: err, Stage: "load", Matched: matched}
			return
		}
		if !matched {
			r = loadResult{}
			return
		}
		pkgPath, err := config.GetPackagePath(path)
		if err != nil {
			r = loadResult{Err: err, Stage: "harness", Matched: true}
			return
		}
		pkg, err := loading.VerifC16EnrichPackage(logger, pkgPath, dto)
		if err != nil {
			r = loadResult{Err: err, Stage: "enrich", Matched: true}
			return
		}
		r = loadResult{Pkg: pkg, Matched: true}
	}()
	timer := time.NewTimer(hangCeiling)
	defer timer.Stop()
	select {
	case r := <-done:
		return r
	case <-timer.C:
		return loadResult{Hang: true}
	}
}

var wordRe = regexp.MustCompile(`^[A-Za-z]+:?$`)

// errClass maps an error to a coarse, input-independent class: its first four
// words, with every word that is not purely alphabetic replaced by "_".
func errClass(err error) string {
	words := strings.Fields(err.Error())
	if len(words) > 4 {
		words = words[:4]
	}
	for i, w := range words {
		if !wordRe.MatchString(w) {
			words[i] = "_"
		}
	}
	return strings.Join(words, " ")
}

func (r loadResult) outcome() string {
	switch {
	case r.Hang:
		return "hang"
	case r.Panic != "":
		return "panic:" + r.Panic
	case r.Err != nil:
		return "error[" + r.Stage + "]:" + errClass(r.Err)
	case !r.Matched:
		return "no-package"
	}
	return "ok"
}

// checkRobust applies the "never a panic or a hang" oracle to one observation.
func checkRobust(r loadResult, fileName string, content []byte, origin any) {
	ld := loaderName(fileName)
	noteOutcome(ld + "|" + r.outcome())
	if r.Hang {
		vrep.Violation("hang:"+ld, fmt.Sprintf("loading %s did not return within %s; content %q", fileName, hangCeiling, clip(string(content), 300)),
			map[string]any{"file": fileName, "content": string(content), "origin": origin})
	}
	if r.outcome() == "no-package" && (ld == "json" || ld == "yaml" || ld == "starlark") {
		// a file with a BUILD file name is either a package or an error: silently ignoring it hides a malformed file
		vrep.Violation("build-file-silently-ignored:"+ld, fmt.Sprintf("loading %s reports neither a package nor an error; content %q", fileName, clip(string(content), 300)),
			map[string]any{"file": fileName, "content": string(content), "origin": origin})
	}
	if r.Panic != "" {
		vrep.Violation("panic:"+ld+":"+r.Panic, fmt.Sprintf("loading %s panics (%s); content %q", fileName, r.PanicV, clip(string(content), 300)),
			map[string]any{"file": fileName, "content": string(content), "origin": origin})
	}
}

var outcomesSeen = map[string]bool{}

func noteOutcome(o string) {
	vrep.Outcomes.Add(o)
	if !outcomesSeen[o] {
		outcomesSeen[o] = true
		if vrep.EnvInt("VERIF_C16_DEBUG", 0) == 1 {
			vrep.Log("outcome %s", o)
		}
	}
}

func clip(s string, n int) string {
	if len(s) > n {
		return s[:n] + "…"
	}
	return s
}

func hash64(s string) uint64 {
	h := fnv.New64a()
	h.Write([]byte(s))
	return h.Sum64()
}

func TestVerif(t *testing.T) {
	baseDir := "/dev/shm"
	if _, err := os.Stat(baseDir); err != nil {
		baseDir = os.TempDir()
	}
	var err error
	tmp, err = os.MkdirTemp(baseDir, "vcheck-c16-")
	if err != nil {
		vrep.Broken("mkdtemp: %v", err)
		return
	}
	defer os.RemoveAll(tmp)
	logger = console.NewFromSugared(zap.NewNop().Sugar(), zapcore.ErrorLevel)
	ctx = console.WithLogger(context.Background(), logger)
	config.Global.OS, config.Global.Arch = "linux", "amd64"

	shard, shards := vrep.Shard()
	t0 := time.Now()
	partAgree(shard, shards)
	partLoads(shard, shards)
	t1 := time.Now()
	partCorrupt(shard, shards)
	t2 := time.Now()
	partWorkers(shard, shards)
	partNestedGlobs(shard, shards)
	partLargeWorkspace(shard, shards)
	partStarlarkPackages(shard, shards)
	t3 := time.Now()
	if shard == 0 {
		vrep.Set("shard0_seconds_agree_corrupt_workers", []float64{t1.Sub(t0).Seconds(), t2.Sub(t1).Seconds(), t3.Sub(t2).Seconds()})
		vrep.Set("pkl_excluded", true)
	}
	vrep.Counts(evals, evals, evals, evals)
	vrep.Done()
}
