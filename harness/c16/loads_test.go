package c16

import (
	"fmt"
	"os"
	"path/filepath"
	"sort"
	"strings"

	"grog/internal/config"
	"grog/internal/zverif/vrep"
)

// Part (a'): Starlark load() structures. A BUILD.star that obtains its values
// through load() must describe the same package as the BUILD.json that
// spells them out. Modules (workspace root ws-l, package p):
//
//	p/defs.star        NAME = "top"
//	p/sub/defs.star    NAME = "sub"
//	p/sub/macros.star  load("defs.star", "NAME")  -> resolves to p/sub/defs.star;  SUBNAME = NAME;  def mk(n): target(...)
//	p/common.star      target(name = "common", ...) at top level;  C = "c"
//	lib.star           load("//p/defs.star", "NAME");  ROOTNAME = NAME + "-via-root"
//
// Every sequence of 1..3 load statements over 12 spellings (absolute, relative,
// "./", "x/../", nested relative, one file through several spellings) is rendered;
// load i binds its value to a private name and declares target t<i>_<value>.
// The expected package follows from resolving each spelling to its file; a
// module's top-level target() is registered once however often and through
// whichever spellings the module is loaded.
type loadSpelling struct {
	text   string // the load() string
	symbol string // symbol loaded
	value  string // its value in the resolved file
	common bool   // resolves to p/common.star (registers //p:common once)
}

var loadSpellings = []loadSpelling{
	{"defs.star", "NAME", "top", false},
	{"./defs.star", "NAME", "top", false},
	{"//p/defs.star", "NAME", "top", false},
	{"sub/../defs.star", "NAME", "top", false},
	{"sub/defs.star", "NAME", "sub", false},
	{"//p/sub/defs.star", "NAME", "sub", false},
	{"sub/macros.star", "SUBNAME", "sub", false},
	{"//p/sub/macros.star", "SUBNAME", "sub", false},
	{"common.star", "C", "c", true},
	{"//p/common.star", "C", "c", true},
	{"../lib.star", "ROOTNAME", "top-via-root", false},
	{"//lib.star", "ROOTNAME", "top-via-root", false},
}

func partLoads(shard, shards int) {
	root := filepath.Join(tmp, "ws-l")
	dir := filepath.Join(root, "p")
	os.MkdirAll(filepath.Join(dir, "sub"), 0o755)
	os.WriteFile(filepath.Join(root, "grog.toml"), nil, 0o644)
	files := map[string]string{
		"p/defs.star":       "NAME = \"top\"\n",
		"p/sub/defs.star":   "NAME = \"sub\"\n",
		"p/sub/macros.star": "load(\"defs.star\", \"NAME\")\nSUBNAME = NAME\n",
		"p/common.star":     "target(name = \"common\", command = \"c\")\nC = \"c\"\n",
		"lib.star":          "load(\"//p/defs.star\", \"NAME\")\nROOTNAME = NAME + \"-via-root\"\n",
	}
	for f, c := range files {
		if err := os.WriteFile(filepath.Join(root, f), []byte(c), 0o644); err != nil {
			vrep.Broken("write %s: %v", f, err)
			return
		}
	}
	prevRoot := config.Global.WorkspaceRoot
	config.Global.WorkspaceRoot = root
	defer func() { config.Global.WorkspaceRoot = prevRoot }()
	n := len(loadSpellings)
	idx := 0
	var seqs int64
	var run func(seq []int)
	check := func(seq []int) {
		idx++
		if idx%shards != shard {
			return
		}
		seqs++
		var sb strings.Builder
		want := map[string]bool{}
		for i, s := range seq {
			sp := loadSpellings[s]
			fmt.Fprintf(&sb, "load(%q, v%d = %q)\n", sp.text, i, sp.symbol)
			want[fmt.Sprintf("t%d_%s", i, sp.value)] = true
			if sp.common {
				want["common"] = true
			}
		}
		for i := range seq {
			fmt.Fprintf(&sb, "target(name = \"t%d_\" + v%d, command = \"x\")\n", i, i)
		}
		content := sb.String()
		res := loadFile(dir, "BUILD.star", []byte(content))
		checkRobust(res, "BUILD.star", []byte(content), map[string]any{"part": "a-loads", "loads": seq})
		replay := map[string]any{"part": "a-loads", "BUILD.star": content, "modules": files}
		var wantL []string
		for k := range want {
			wantL = append(wantL, k)
		}
		sort.Strings(wantL)
		if res.Err != nil {
			vrep.Violation("starlark:valid-load-structure-rejected", fmt.Sprintf("BUILD.star %q (expected targets %v) is rejected: %v", content, wantL, res.Err), replay)
			return
		}
		if res.Pkg == nil {
			return
		}
		var got []string
		for _, t := range res.Pkg.Targets {
			got = append(got, t.Label.Name)
		}
		sort.Strings(got)
		if strings.Join(got, ",") != strings.Join(wantL, ",") {
			vrep.Violation("starlark:load-resolves-to-wrong-module", fmt.Sprintf("BUILD.star %q loads to targets %v, the equivalent BUILD.json declares %v (a load() string is resolved relative to the file that contains it; a module is evaluated once)", content, got, wantL), replay)
		}
		vrep.Nontrivial.Add("a-loads|" + content)
	}
	run = func(seq []int) {
		if len(seq) > 0 {
			check(seq)
		}
		if len(seq) == 3 {
			return
		}
		for s := 0; s < n; s++ {
			run(append(append([]int{}, seq...), s))
		}
	}
	run(nil)
	vrep.AddInt("a_load_structures", seqs)
}
