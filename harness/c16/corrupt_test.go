package c16

import (
	"fmt"
	"os"
	"path/filepath"
	"strings"

	"grog/internal/config"
	"grog/internal/zverif/vrep"
)

// 16-byte alphabet of the replace / insert edits.
var alphabet = []byte{'#', ':', '@', '\n', '{', '}', '"', '[', ',', ' ', '-', '(', ')', '=', 'a', 0}

type seed struct {
	Name string
	File string
	Text string
}

var seeds = []seed{
	{"json", "BUILD.json", `{"targets":[
{"name":"t","command":"echo","dependencies":[":x"],
"inputs":["src/*.txt"],"outputs":["dir::d"],
"timeout":"30s","fingerprint":{"k":"v"}}],
"aliases":[{"name":"al","actual":":t"}]}
`},
	{"yaml", "BUILD.yaml", `default_platforms: [linux/amd64]
targets:
  - name: t
    command: echo
    dependencies: [":x"]
    inputs:
      - src/*.txt
    outputs: ["dir::d"]
    timeout: 30s
    fingerprint: {k: v}
aliases:
  - name: al
    actual: :t
`},
	{"starlark", "BUILD.star", `target(
    name = "t",
    command = "echo",
    dependencies = [":x"],
    inputs = ["src/*.txt"],
    outputs = ["dir::d"],
    output_checks = [{"command": "c"}],
    fingerprint = {"k": "v"},
    timeout = "30s",
)
alias(name = "al", actual = ":t")
`},
	{"starlark-load", "BUILD.star", `load("//rules.star", "m")
m("t")
`},
	{"makefile", "Makefile", `# @grog
# name: n
# inputs:
#   - src/*.txt
# tags: [a]
t:
	echo

# @grog
# outputs:
#   - dir::d
u: t
	echo
`},
	{"script", "s.grog.sh", `#!/bin/sh
# @grog
# name: s
# dependencies:
#   - //q:y
# timeout: 30s
echo hi
`},
}

// tiny seeds for the exhaustive double-edit family (thorough tier)
var tinySeeds = []seed{
	{"makefile-tiny", "Makefile", "# @grog\n# tags: [a]\nt:\n\tx\n"},
	{"script-tiny", "s.grog.sh", "# @grog\n# name: s\nx\n"},
	{"yaml-tiny", "BUILD.yaml", "targets:\n- name: t\n"},
	{"json-tiny", "BUILD.json", `{"targets":[{"name":"t"}]}`},
	{"starlark-tiny", "BUILD.star", `target(name="t")`},
}

const rulesStar = `def m(n):
    target(name = n, command = "x", tags = ["a"])
`

// edits returns the result of every single edit of s (duplicates included):
// every offset x {delete, replace by each alphabet byte, insert each alphabet
// byte before it (and at the end)}, every truncation prefix, every line
// deleted, every line duplicated, every two adjacent lines swapped.
func edits(s string, visit func(kind string, out string)) {
	n := len(s)
	for i := 0; i < n; i++ {
		visit("delete", s[:i]+s[i+1:])
		for _, c := range alphabet {
			visit("replace", s[:i]+string([]byte{c})+s[i+1:])
		}
	}
	for i := 0; i <= n; i++ {
		for _, c := range alphabet {
			visit("insert", s[:i]+string([]byte{c})+s[i:])
		}
	}
	for i := 0; i < n; i++ {
		visit("truncate", s[:i])
	}
	lines := strings.SplitAfter(s, "\n")
	if len(lines) > 0 && lines[len(lines)-1] == "" {
		lines = lines[:len(lines)-1]
	}
	join := func(ls []string) string { return strings.Join(ls, "") }
	for i := range lines {
		visit("line-delete", join(lines[:i])+join(lines[i+1:]))
		visit("line-duplicate", join(lines[:i+1])+lines[i]+join(lines[i+1:]))
		if i+1 < len(lines) {
			visit("line-swap", join(lines[:i])+lines[i+1]+lines[i]+join(lines[i+2:]))
		}
	}
}

func partCorrupt(shard, shards int) {
	root := filepath.Join(tmp, "ws-b")
	dir := filepath.Join(root, "p")
	if err := mkPackageDir(dir); err != nil {
		vrep.Broken("mkdir: %v", err)
		return
	}
	os.WriteFile(filepath.Join(root, "grog.toml"), nil, 0o644)
	os.WriteFile(filepath.Join(root, "rules.star"), []byte(rulesStar), 0o644)
	config.Global.WorkspaceRoot = root

	seen := map[uint64]bool{}
	var loaded, identical, generated int64
	run := func(sd seed, content string, depth int) {
		generated++
		if content == sd.Text {
			identical++
			return
		}
		h := hash64(sd.File + "\x00" + content)
		if int(h%uint64(shards)) != shard || seen[h] {
			return
		}
		seen[h] = true
		loaded++
		res := loadFile(dir, sd.File, []byte(content))
		checkRobust(res, sd.File, []byte(content), map[string]any{"part": "b", "seed": sd.Name, "edits": depth})
		vrep.Nontrivial.Add("b|" + sd.File + "|" + content)
	}

	for _, sd := range seeds {
		// the seed itself must load (otherwise the family would be vacuous)
		if shard == 0 {
			res := loadFile(dir, sd.File, []byte(sd.Text))
			checkRobust(res, sd.File, []byte(sd.Text), map[string]any{"part": "b", "seed": sd.Name, "edits": 0})
			if res.outcome() != "ok" {
				vrep.Broken("seed %s does not load: %s %v", sd.Name, res.outcome(), res.Err)
			}
		}
		edits(sd.Text, func(kind, out string) { run(sd, out, 1) })
		if shard == 0 {
			vrep.AddInt("b_seed_bytes:"+sd.Name, int64(len(sd.Text)))
		}
	}
	if shard == 0 {
		// over-long lines (longer than a line scanner's default token of 64 KiB) before / inside / after the annotated part of
		// the line-oriented formats: the file still contains its annotations, so it is a package or an error, never nothing
		long := "# " + strings.Repeat("x", 70000) + "\n"
		for _, sd := range seeds {
			if sd.File != "Makefile" && sd.File != "s.grog.sh" {
				continue
			}
			lines := strings.SplitAfter(sd.Text, "\n")
			for pos := 0; pos <= len(lines); pos++ {
				content := strings.Join(lines[:pos], "") + long + strings.Join(lines[pos:], "")
				res := loadFile(dir, sd.File, []byte(content))
				origin := map[string]any{"part": "b", "seed": sd.Name, "over_long_line_before_line": pos}
				checkRobust(res, sd.File, []byte(content[:200]), origin)
				if res.outcome() == "no-package" {
					vrep.Violation("build-file-silently-ignored:"+loaderName(sd.File)+":over-long-line", fmt.Sprintf("%s with its annotations intact and a 70 KiB comment line inserted before line %d loads to nothing and reports no error", sd.File, pos), origin)
				}
				loaded++
			}
		}
	}
	single := loaded
	typeConfusion(dir, shard, shards, &loaded)
	confusion := loaded - single
	if shard == 0 {
		vrep.Set("b_single_edits_generated_incl_duplicates", generated)
		vrep.Sample(map[string]any{"part": "b", "seed": seeds[4].Name, "file": seeds[4].File, "text": seeds[4].Text,
			"edits": "every offset x {delete, replace/insert each of 16 bytes}, truncations, line delete/duplicate/swap"})
	}
	if vrep.Thorough() || vrep.EnvInt("VERIF_C16_DOUBLE", 0) == 1 {
		gen0 := generated
		for _, sd := range tinySeeds {
			if shard == 0 {
				res := loadFile(dir, sd.File, []byte(sd.Text))
				if res.outcome() != "ok" {
					vrep.Broken("seed %s does not load: %s %v", sd.Name, res.outcome(), res.Err)
				}
			}
			first := map[string]bool{}
			edits(sd.Text, func(kind, out string) {
				if first[out] {
					return
				}
				first[out] = true
				run(sd, out, 1)
				edits(out, func(kind2, out2 string) { run(sd, out2, 2) })
			})
			if shard == 0 {
				vrep.AddInt("b_seed_bytes:"+sd.Name, int64(len(sd.Text)))
			}
		}
		if shard == 0 {
			vrep.Set("b_double_edits_generated_incl_duplicates", generated-gen0)
			var names []string
			for _, sd := range tinySeeds {
				names = append(names, fmt.Sprintf("%s (%d bytes)", sd.Name, len(sd.Text)))
			}
			vrep.Cap("double edits are exhaustive only for the tiny seeds %s; the six full seeds get single edits only", strings.Join(names, ", "))
		}
	} else if shard == 0 {
		vrep.Cap("quick tier: single edits only (double edits of the two tiny seeds run in the thorough tier)")
	}
	vrep.AddInt("b_corrupted_files_loaded_single_edit", single)
	vrep.AddInt("b_type_confusion_files_loaded", confusion)
	vrep.AddInt("b_corrupted_files_loaded_double_edit", loaded-single-confusion)
	if shard == 0 {
		vrep.Set("b_identical_to_seed_not_loaded", identical)
	}
}

// ---------------------------------------------------------------------------
// type confusion: every node of a rich package tree replaced by each of
// null, [], {}, "", 0, true, [null], {"a": null}; rendered to JSON, block YAML
// and (for nodes inside a target()/alias() call) Starlark.

func rawNode(j, y, st string) node { return node{kind: nRaw, raw: [3]string{j, y, st}} }

func replacements() []node {
	null := rawNode("null", "null", "None")
	m := node{kind: nMap}
	m.put("a", null)
	return []node{null, {kind: nList}, {kind: nMap}, str(""), rawNode("0", "0", "0"), rawNode("true", "true", "True"),
		{kind: nList, items: []node{null}}, m}
}

func countNodes(n node) int {
	c := 1
	for _, it := range n.items {
		c += countNodes(it)
	}
	return c
}

// replaceAt returns a copy of n in which the idx-th node (pre-order) is repl,
// and the depth of that node.
func replaceAt(n node, idx *int, repl node, depth int, hit *int) node {
	if *idx == 0 {
		*idx = -1
		*hit = depth
		return repl
	}
	*idx--
	c := n
	c.items = make([]node, len(n.items))
	for i, it := range n.items {
		if *idx >= 0 {
			c.items[i] = replaceAt(it, idx, repl, depth+1, hit)
		} else {
			c.items[i] = it
		}
	}
	return c
}

func typeConfusion(dir string, shard, shards int, loaded *int64) {
	d := bases()[1]
	d.Targets[0].Checks = []check{{Command: "test -f o.txt", Expected: sp("ok")}}
	d.Aliases = []aliasDef{{"al", ":t"}}
	d.DefaultPlatforms = []string{"linux/amd64"}
	tree := pkgNode(d)
	n := countNodes(tree)
	var cases int64
	for pos := 0; pos < n; pos++ {
		for ri, repl := range replacements() {
			idx, depth := pos, 0
			mut := replaceAt(tree, &idx, repl, 0, &depth)
			rs := []rendering{{"json", "BUILD.json", renderJSONTree(mut)}, {"yaml", "BUILD.yaml", renderYAMLTree(mut)}}
			if depth >= 3 { // inside the arguments of a target()/alias() call
				rs = append(rs, rendering{"starlark", "BUILD.star", renderStarNode(mut)})
			}
			for _, r := range rs {
				cases++
				if int(hash64(r.file+"\x00"+r.text)%uint64(shards)) != shard {
					continue
				}
				*loaded++
				res := loadFile(dir, r.file, []byte(r.text))
				checkRobust(res, r.file, []byte(r.text), map[string]any{"part": "b", "family": "type-confusion", "node": pos, "replacement": ri})
				vrep.Nontrivial.Add("b|" + r.file + "|" + r.text)
			}
		}
	}
	if shard == 0 {
		vrep.Set("b_type_confusion_files", cases)
		vrep.Set("b_type_confusion_tree_nodes", n)
	}
}
