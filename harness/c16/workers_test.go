package c16

import (
	"encoding/json"
	"fmt"
	"os"
	"path/filepath"
	"sort"
	"strings"
	"time"

	"grog/internal/analysis"
	"grog/internal/config"
	"grog/internal/loading"
	"grog/internal/model"
	"grog/internal/zverif/vrep"
)

type wsFile struct{ Path, Content string }

type scenario struct {
	Name   string
	Files  []wsFile // a/BUILD.json and a/BUILD.yaml are files 0 and 1
	Expect string   // "accept" or "reject"
}

const (
	wsStar = `target(
    name = "b1",
    command = "echo b1",
    dependencies = ["//a:a1"],
)
`
	wsMake = `# @grog
# inputs:
#   - a.txt
c1:
	cat a.txt
`
)

func scenarios() []scenario {
	mk := func(name, js, ya, expect string) scenario {
		return scenario{name, []wsFile{{"a/BUILD.json", js}, {"a/BUILD.yaml", ya}, {"b/BUILD.star", wsStar}, {"c/Makefile", wsMake}}, expect}
	}
	return []scenario{
		mk("disjoint", `{"targets":[{"name":"a1","command":"echo a1","outputs":["a1.txt"]}]}`,
			"targets:\n  - name: a2\n    command: echo a2\n    dependencies:\n      - :a1\naliases:\n  - name: al\n    actual: :a1\n", "accept"),
		// one of the two files of the package defines aliases only (a file without targets is not "nothing to merge")
		mk("alias-only-yaml", `{"targets":[{"name":"a1","command":"echo a1","outputs":["a1.txt"]},{"name":"a2","command":"echo a2","dependencies":[":a1"]}]}`,
			"aliases:\n  - name: al\n    actual: :a1\n", "accept"),
		mk("alias-only-json", `{"aliases":[{"name":"al","actual":":a1"}]}`,
			"targets:\n  - name: a1\n    command: echo a1\n  - name: a2\n    command: echo a2\n    dependencies:\n      - :a1\n", "accept"),
		mk("duplicate-target", `{"targets":[{"name":"a1","command":"echo a1"}]}`,
			"targets:\n  - name: a1\n    command: echo other\n  - name: a2\n    command: echo a2\n", "reject"),
		mk("duplicate-alias", `{"targets":[{"name":"a1","command":"echo a1"}],"aliases":[{"name":"z","actual":":a1"}]}`,
			"targets:\n  - name: a2\n    command: echo a2\naliases:\n  - name: z\n    actual: :a2\n", "reject"),
		mk("alias-in-json-target-in-yaml", `{"targets":[{"name":"a1","command":"echo a1"}],"aliases":[{"name":"z","actual":":a1"}]}`,
			"targets:\n  - name: z\n    command: echo z\n", "reject"),
		mk("target-in-json-alias-in-yaml", `{"targets":[{"name":"z","command":"echo z"}]}`,
			"targets:\n  - name: a1\n    command: echo a1\naliases:\n  - name: z\n    actual: :a1\n", "reject"),
	}
}

func dumpPackages(pkgs []*model.Package) string {
	var parts []string
	for _, p := range pkgs {
		b, _ := json.Marshal(canon(p))
		parts = append(parts, string(b))
	}
	sort.Strings(parts)
	return strings.Join(parts, "\n")
}

type lpResult struct {
	pkgs  []*model.Package
	err   error
	panic string
}

func loadPackagesGuarded(dir string) (lpResult, bool) {
	done := make(chan lpResult, 1)
	go func() {
		var r lpResult
		defer func() {
			if v := recover(); v != nil {
				r = lpResult{panic: fmt.Sprint(v)}
			}
			done <- r
		}()
		// the same three steps as loading.MustLoadGraphForBuild
		pkgs, err := loading.LoadPackages(ctx, dir)
		if err == nil {
			var nodes model.BuildNodeMap
			nodes, err = model.BuildNodeMapFromPackages(pkgs)
			if err == nil {
				_, err = analysis.BuildGraph(nodes)
			}
		}
		r = lpResult{pkgs: pkgs, err: err}
	}()
	t := time.NewTimer(hangCeiling)
	defer t.Stop()
	select {
	case r := <-done:
		return r, true
	case <-t.C:
		return lpResult{}, false
	}
}

func rawDirOrder(dir string) []string {
	f, err := os.Open(dir)
	if err != nil {
		return nil
	}
	defer f.Close()
	ents, _ := f.ReadDir(-1)
	var names []string
	for _, e := range ents {
		names = append(names, e.Name())
	}
	return names
}

// dupKind maps a scenario to the duplicate class it exercises (one signature per root cause).
func dupKind(name string) string {
	switch name {
	case "duplicate-target":
		return "target-vs-target"
	case "duplicate-alias":
		return "alias-vs-alias"
	}
	return "alias-vs-target"
}

func partWorkers(shard, shards int) {
	reps := 5
	if vrep.Thorough() {
		reps = 40
	}
	workerCounts := []int{1, 2, 3, 8}
	defer func() { config.Global.NumWorkers = 0 }()
	for si, sc := range scenarios() {
		if si%shards != shard {
			continue
		}
		type obs struct{ who, created, raw string }
		verdicts := map[string]obs{} // "accept"/"reject" -> first observation
		dumps := map[string]obs{}    // package set -> first observation
		var rawOrders []string
		var caseID map[string]any
		for oi, yamlFirst := range []bool{false, true} {
			root := filepath.Join(tmp, fmt.Sprintf("ws-c-%d-%d", si, oi))
			order := []int{0, 1, 2, 3}
			if yamlFirst {
				order = []int{1, 0, 2, 3}
			}
			for _, d := range []string{"a", "b", "c"} {
				os.MkdirAll(filepath.Join(root, d), 0o755)
			}
			os.WriteFile(filepath.Join(root, "grog.toml"), nil, 0o644)
			os.WriteFile(filepath.Join(root, "c", "a.txt"), []byte("x"), 0o644)
			for _, i := range order {
				f := sc.Files[i]
				if err := os.WriteFile(filepath.Join(root, f.Path), []byte(f.Content), 0o644); err != nil {
					vrep.Broken("write: %v", err)
					return
				}
			}
			config.Global.WorkspaceRoot = root
			created := sc.Files[order[0]].Path
			raw := strings.Join(rawDirOrder(filepath.Join(root, "a")), ",")
			rawOrders = append(rawOrders, raw)
			caseID = map[string]any{"part": "c'", "scenario": sc.Name, "files": sc.Files}
			for _, w := range workerCounts {
				for rep := 0; rep < reps; rep++ {
					config.Global.NumWorkers = w
					r, finished := loadPackagesGuarded(root)
					evals += int64(len(sc.Files))
					o := obs{fmt.Sprintf("workers=%d rep=%d", w, rep), created, raw}
					if !finished {
						noteOutcome("loadpackages|hang")
						vrep.Violation("hang:loadpackages:"+sc.Name, fmt.Sprintf("LoadPackages did not return within %s (%s)", hangCeiling, o.who), caseID)
						continue
					}
					if r.panic != "" {
						noteOutcome("loadpackages|panic")
						vrep.Violation("panic:loadpackages:"+sc.Name, fmt.Sprintf("LoadPackages panics: %s (%s)", r.panic, o.who), caseID)
						continue
					}
					verdict := "accept"
					if r.err != nil {
						verdict = "reject"
						noteOutcome("loadpackages|" + sc.Name + "|error:" + errClass(r.err))
					} else {
						noteOutcome("loadpackages|" + sc.Name + "|ok")
						d := dumpPackages(r.pkgs)
						if _, ok := dumps[d]; !ok {
							dumps[d] = o
						}
					}
					if _, ok := verdicts[verdict]; !ok {
						verdicts[verdict] = o
					}
				}
			}
			vrep.Nontrivial.Add(fmt.Sprintf("c|%s|%v", sc.Name, yamlFirst))
			vrep.AddInt("c_loadpackages_calls", int64(len(workerCounts)*reps))
			os.RemoveAll(root)
		}
		if len(rawOrders) == 2 && rawOrders[0] == rawOrders[1] {
			vrep.Cap("scenario %s: creating the two same-directory BUILD files in either order gives the same raw directory order (%s); walk order within the directory was not varied", sc.Name, rawOrders[0])
		}
		desc := func(o obs) string {
			return fmt.Sprintf("%s, created first %s, raw directory order [%s]", o.who, o.created, o.raw)
		}
		acc, accepted := verdicts["accept"]
		rej, rejected := verdicts["reject"]
		switch {
		case sc.Expect == "reject" && accepted:
			detail := fmt.Sprintf("a/BUILD.json and a/BUILD.yaml define the same label (%s), yet LoadPackages + BuildNodeMapFromPackages + BuildGraph succeed (%s)", sc.Name, desc(acc))
			if rejected {
				detail += fmt.Sprintf("; the same files are rejected under another walk order / worker count (%s)", desc(rej))
			}
			vrep.Violation("loadpackages:duplicate-label-accepted:"+dupKind(sc.Name), detail, caseID)
		case sc.Expect == "accept" && rejected:
			vrep.Violation("loadpackages:valid-workspace-rejected:"+sc.Name, fmt.Sprintf("disjoint BUILD files are rejected (%s)", desc(rej)), caseID)
		}
		if sc.Expect == "accept" {
			if len(dumps) > 1 {
				var ws []string
				for _, o := range dumps {
					ws = append(ws, desc(o))
				}
				sort.Strings(ws)
				vrep.Violation("loadpackages:package-set-varies:"+sc.Name, fmt.Sprintf("%d different package sets for one workspace (first seen at %v)", len(dumps), ws), caseID)
			}
			for d, o := range dumps {
				for _, want := range []string{"//a:a1", "//a:a2", "//a:al", "//b:b1", "//c:c1"} {
					if !strings.Contains(d, `\"`+want+`\"`) {
						vrep.Violation("loadpackages:label-missing-after-merge", fmt.Sprintf("%s is missing from the loaded packages (%s)", want, desc(o)), caseID)
					}
				}
			}
			if sc.Name == "disjoint" {
				vrep.Sample(map[string]any{"part": "c'", "scenario": sc.Name, "files": sc.Files, "worker_counts": workerCounts, "repetitions": reps, "raw_directory_orders_of_a": rawOrders})
			}
		}
	}
}
