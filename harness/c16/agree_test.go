package c16

import (
	"bytes"
	"encoding/json"
	"fmt"
	"os"
	"path/filepath"
	"sort"
	"strconv"
	"strings"

	"grog/internal/config"
	"grog/internal/model"
	"grog/internal/zverif/vrep"
)

// ---------------------------------------------------------------------------
// package definitions (format independent). nil = field absent, empty = present but empty.

type kv struct{ K, V string }

type check struct {
	Command  string
	Expected *string
}

type targetDef struct {
	Name        string
	Command     *string
	Deps        []string
	Inputs      []string
	Excl        []string
	Outputs     []string
	BinOutput   *string
	Checks      []check
	Tags        []string
	Fingerprint []kv
	Platforms   []string
	Env         []kv
	Timeout     *string
}

type aliasDef struct{ Name, Actual string }

type pkgDef struct {
	Pkg              string // "" = root package, else directory below the workspace root
	Targets          []targetDef
	Aliases          []aliasDef
	DefaultPlatforms []string
	Invalid          bool // contains a value every loader must reject
}

func sp(s string) *string { return &s }

func cpStr(p *string) *string {
	if p == nil {
		return nil
	}
	v := *p
	return &v
}

func cpList[T any](l []T) []T {
	if l == nil {
		return nil
	}
	return append(make([]T, 0, len(l)), l...)
}

func (d pkgDef) clone() pkgDef {
	c := d
	c.Targets = cpList(d.Targets)
	for i, t := range c.Targets {
		t.Command, t.BinOutput, t.Timeout = cpStr(t.Command), cpStr(t.BinOutput), cpStr(t.Timeout)
		t.Deps, t.Inputs, t.Excl, t.Outputs = cpList(t.Deps), cpList(t.Inputs), cpList(t.Excl), cpList(t.Outputs)
		t.Tags, t.Platforms = cpList(t.Tags), cpList(t.Platforms)
		t.Fingerprint, t.Env = cpList(t.Fingerprint), cpList(t.Env)
		t.Checks = cpList(t.Checks)
		for j := range t.Checks {
			t.Checks[j].Expected = cpStr(t.Checks[j].Expected)
		}
		c.Targets[i] = t
	}
	c.Aliases = cpList(d.Aliases)
	c.DefaultPlatforms = cpList(d.DefaultPlatforms)
	return c
}

// key is an injective encoding of the definition (absent and empty differ).
func (d pkgDef) key() string {
	var b strings.Builder
	ws := func(s string) { b.WriteString(strconv.Itoa(len(s))); b.WriteByte(':'); b.WriteString(s) }
	wp := func(p *string) {
		if p == nil {
			b.WriteByte('~')
		} else {
			ws(*p)
		}
	}
	wl := func(l []string) {
		if l == nil {
			b.WriteByte('~')
			return
		}
		b.WriteByte('[')
		for _, s := range l {
			ws(s)
		}
		b.WriteByte(']')
	}
	wkv := func(l []kv) {
		if l == nil {
			b.WriteByte('~')
			return
		}
		b.WriteByte('{')
		for _, e := range l {
			ws(e.K)
			ws(e.V)
		}
		b.WriteByte('}')
	}
	ws(d.Pkg)
	if d.Invalid {
		b.WriteByte('!')
	}
	for _, t := range d.Targets {
		b.WriteByte('T')
		ws(t.Name)
		wp(t.Command)
		wl(t.Deps)
		wl(t.Inputs)
		wl(t.Excl)
		wl(t.Outputs)
		wp(t.BinOutput)
		if t.Checks == nil {
			b.WriteByte('~')
		} else {
			b.WriteByte('[')
			for _, c := range t.Checks {
				ws(c.Command)
				wp(c.Expected)
			}
			b.WriteByte(']')
		}
		wl(t.Tags)
		wkv(t.Fingerprint)
		wl(t.Platforms)
		wkv(t.Env)
		wp(t.Timeout)
	}
	if d.Aliases == nil {
		b.WriteByte('~')
	} else {
		b.WriteByte('A')
		for _, a := range d.Aliases {
			ws(a.Name)
			ws(a.Actual)
		}
	}
	b.WriteByte('P')
	wl(d.DefaultPlatforms)
	return b.String()
}

func bases() []pkgDef {
	return []pkgDef{
		{Pkg: "", Targets: []targetDef{{Name: "t", Command: sp("echo hi")}}},
		{Pkg: "p", Targets: []targetDef{
			{
				Name: "t", Command: sp("echo hi"), Deps: []string{":x"},
				Inputs: []string{"a.txt", "src/*.txt"}, Excl: []string{"src/c.txt"},
				Outputs: []string{"o.txt"}, BinOutput: sp("bin/tool.sh"),
				Checks: []check{{Command: "test -f o.txt"}}, Tags: []string{"a"},
				Fingerprint: []kv{{"k", "v"}}, Platforms: []string{"linux/amd64"},
				Env: []kv{{"A", "1"}}, Timeout: sp("30s"),
			},
			{Name: "x", Command: sp("echo x"), Outputs: []string{"dir::xd"}},
		}},
	}
}

type value struct {
	label string
	apply func(d *pkgDef)
}

type field struct {
	name   string
	values []value
}

const dupMarker = "\x00dup"

func t0(f func(t *targetDef)) func(d *pkgDef) { return func(d *pkgDef) { f(&d.Targets[0]) } }

func strList(set func(t *targetDef, v []string), vals ...[]string) []value {
	var out []value
	for _, v := range vals {
		v := v
		lab := "absent"
		if v != nil {
			lab = strings.Join(v, ",")
			if len(v) == 0 {
				lab = "empty"
			}
		}
		out = append(out, value{lab, t0(func(t *targetDef) { set(t, v) })})
	}
	return out
}

func invalid(v value) value {
	ap := v.apply
	return value{v.label + "(invalid)", func(d *pkgDef) { ap(d); d.Invalid = true }}
}

func fields() []field {
	optStr := func(set func(t *targetDef, v *string), vals ...*string) []value {
		var out []value
		for _, v := range vals {
			v := v
			lab := "absent"
			if v != nil {
				lab = strconv.Quote(*v)
			}
			out = append(out, value{lab, t0(func(t *targetDef) { set(t, v) })})
		}
		return out
	}
	kvs := func(set func(t *targetDef, v []kv), vals ...[]kv) []value {
		var out []value
		for _, v := range vals {
			v := v
			lab := "absent"
			if v != nil {
				lab = fmt.Sprint(v)
			}
			out = append(out, value{lab, t0(func(t *targetDef) { set(t, v) })})
		}
		return out
	}
	fs := []field{
		{"name", []value{
			{"t", t0(func(t *targetDef) { t.Name = "t" })},
			{"a-b.c_1", t0(func(t *targetDef) { t.Name = "a-b.c_1" })},
		}},
		{"command", optStr(func(t *targetDef, v *string) { t.Command = v },
			nil, sp(""), sp("echo hi"), sp("echo a\necho b\n"), sp(`printf "%s: #x" 'y' \\ $V {z} [w] > o.txt`))},
		{"dependencies", strList(func(t *targetDef, v []string) { t.Deps = v },
			nil, []string{}, []string{":x"}, []string{"//q:y"}, []string{"//q"}, []string{":x", "//q/r:y"}, []string{"//:rootdep"})},
		{"inputs", strList(func(t *targetDef, v []string) { t.Inputs = v },
			nil, []string{}, []string{"a.txt"}, []string{"src/*.txt"}, []string{"**/*.txt"}, []string{"a.txt", "src/*.txt"}, []string{"missing.txt"}, []string{"src/*.txt", "src/b.txt"})},
		{"exclude_inputs", strList(func(t *targetDef, v []string) { t.Excl = v },
			nil, []string{}, []string{"src/b.txt"}, []string{"src/*.txt"}, []string{"a.txt", "**/c.txt"}, []string{"nomatch/*"})},
		{"outputs", strList(func(t *targetDef, v []string) { t.Outputs = v },
			nil, []string{}, []string{"o.txt"}, []string{"dir::d"}, []string{"o.txt", "dir::d/e"}, []string{"docker::img:tag"})},
		{"bin_output", optStr(func(t *targetDef, v *string) { t.BinOutput = v },
			nil, sp(""), sp("bin/tool.sh"), sp("file::bin/t"))},
		{"output_checks", nil},
		{"tags", strList(func(t *targetDef, v []string) { t.Tags = v },
			nil, []string{}, []string{"no-cache"}, []string{"a", "b"})},
		{"fingerprint", kvs(func(t *targetDef, v []kv) { t.Fingerprint = v },
			nil, []kv{}, []kv{{"k", "v"}}, []kv{{"k", "v"}, {"a", "1"}})},
		{"platforms", strList(func(t *targetDef, v []string) { t.Platforms = v },
			nil, []string{}, []string{"linux/amd64"}, []string{"linux/amd64", "darwin/arm64"})},
		{"environment_variables", kvs(func(t *targetDef, v []kv) { t.Env = v },
			nil, []kv{}, []kv{{"A", "1"}}, []kv{{"A", "1"}, {"B", "x y"}})},
		{"timeout", optStr(func(t *targetDef, v *string) { t.Timeout = v },
			nil, sp(""), sp("30s"), sp("1m"))},
		{"aliases", nil},
		{"default_platforms", nil},
		{"extra_target", nil},
	}
	byName := func(n string) *field {
		for i := range fs {
			if fs[i].name == n {
				return &fs[i]
			}
		}
		panic(n)
	}
	// one value per validated field that every loader must reject
	f := byName("dependencies")
	f.values = append(f.values, invalid(value{"bad", t0(func(t *targetDef) { t.Deps = []string{"bad"} })}))
	f = byName("outputs")
	f.values = append(f.values, invalid(value{"bogus::x", t0(func(t *targetDef) { t.Outputs = []string{"bogus::x"} })}))
	f = byName("bin_output")
	f.values = append(f.values, invalid(value{"dir::d", t0(func(t *targetDef) { t.BinOutput = sp("dir::d") })}))
	f = byName("timeout")
	f.values = append(f.values, invalid(value{"bogus", t0(func(t *targetDef) { t.Timeout = sp("bogus") })}))

	checks := [][]check{nil, {}, {{Command: "test -f o.txt"}}, {{Command: `grep -q "a: b" o.txt`, Expected: sp("ok")}},
		{{Command: "test -f o.txt"}, {Command: "cat o.txt", Expected: sp("x y")}}}
	f = byName("output_checks")
	for _, c := range checks {
		c := c
		lab := "absent"
		if c != nil {
			lab = fmt.Sprintf("%d checks", len(c))
			for _, x := range c {
				if x.Expected != nil {
					lab += "+expected"
				}
			}
		}
		f.values = append(f.values, value{lab, t0(func(t *targetDef) { t.Checks = c })})
	}
	f = byName("aliases")
	for _, a := range [][]aliasDef{nil, {}, {{"al", ":t"}}, {{"al", "//q:y"}, {"al2", "//q"}}} {
		a := a
		lab := "absent"
		if a != nil {
			lab = fmt.Sprint(a)
		}
		f.values = append(f.values, value{lab, func(d *pkgDef) { d.Aliases = a }})
	}
	f.values = append(f.values, invalid(value{"alias named like the target", func(d *pkgDef) { d.Aliases = []aliasDef{{dupMarker, ":x"}} }}))
	f = byName("default_platforms")
	for _, p := range [][]string{nil, {}, {"linux/arm64"}} {
		p := p
		lab := "absent"
		if p != nil {
			lab = fmt.Sprint(p)
		}
		f.values = append(f.values, value{lab, func(d *pkgDef) { d.DefaultPlatforms = p }})
	}
	f = byName("extra_target")
	f.values = []value{
		{"none", func(d *pkgDef) { d.Targets = d.Targets[:1] }},
		{"x", func(d *pkgDef) {
			d.Targets = append(d.Targets[:1], targetDef{Name: "x", Command: sp("echo x"), Outputs: []string{"dir::xd"}})
		}},
		invalid(value{"same name as target 0", func(d *pkgDef) {
			d.Targets = append(d.Targets[:1], targetDef{Name: dupMarker, Command: sp("echo dup")})
		}}),
	}
	return fs
}

func finalize(d *pkgDef) {
	for i := range d.Targets {
		if d.Targets[i].Name == dupMarker {
			d.Targets[i].Name = d.Targets[0].Name
		}
	}
	for i := range d.Aliases {
		if d.Aliases[i].Name == dupMarker {
			d.Aliases[i].Name = d.Targets[0].Name
		}
	}
}

type override struct{ f, v int }

// enumerate calls visit for the base definitions with every assignment of at
// most maxOv fields (fields in increasing order, every value of each).
func enumerate(maxOv int, visit func(id string, d pkgDef)) {
	fs := fields()
	for bi, b := range bases() {
		var rec func(start int, ovs []override)
		rec = func(start int, ovs []override) {
			d := b.clone()
			id := fmt.Sprintf("base%d", bi)
			for _, o := range ovs {
				fs[o.f].values[o.v].apply(&d)
				id += fmt.Sprintf("|%s=%s", fs[o.f].name, fs[o.f].values[o.v].label)
			}
			finalize(&d)
			visit(id, d)
			if len(ovs) == maxOv {
				return
			}
			for f := start; f < len(fs); f++ {
				for v := range fs[f].values {
					rec(f+1, append(append([]override{}, ovs...), override{f, v}))
				}
			}
		}
		rec(0, nil)
	}
}

// ---------------------------------------------------------------------------
// rendering

const (
	nStr = iota
	nList
	nMap
	nRaw // a literal that is not a string: raw[0] JSON, raw[1] YAML, raw[2] Starlark
)

type node struct {
	kind  int
	s     string
	items []node
	keys  []string
	raw   [3]string
}

func str(s string) node { return node{kind: nStr, s: s} }
func list(ss []string) node {
	n := node{kind: nList}
	for _, s := range ss {
		n.items = append(n.items, str(s))
	}
	return n
}
func (n *node) put(k string, v node) { n.keys = append(n.keys, k); n.items = append(n.items, v) }
func kvNode(m []kv) node {
	n := node{kind: nMap}
	for _, e := range m {
		n.put(e.K, str(e.V))
	}
	return n
}

// targetNode builds the configuration of one target in documented field order.
func targetNode(t targetDef, withName, withCommand bool) node {
	n := node{kind: nMap}
	if withName {
		n.put("name", str(t.Name))
	}
	if withCommand && t.Command != nil {
		n.put("command", str(*t.Command))
	}
	if t.Deps != nil {
		n.put("dependencies", list(t.Deps))
	}
	if t.Inputs != nil {
		n.put("inputs", list(t.Inputs))
	}
	if t.Excl != nil {
		n.put("exclude_inputs", list(t.Excl))
	}
	if t.Outputs != nil {
		n.put("outputs", list(t.Outputs))
	}
	if t.BinOutput != nil {
		n.put("bin_output", str(*t.BinOutput))
	}
	if t.Checks != nil {
		l := node{kind: nList}
		for _, c := range t.Checks {
			m := node{kind: nMap}
			m.put("command", str(c.Command))
			if c.Expected != nil {
				m.put("expected_output", str(*c.Expected))
			}
			l.items = append(l.items, m)
		}
		n.put("output_checks", l)
	}
	if t.Tags != nil {
		n.put("tags", list(t.Tags))
	}
	if t.Fingerprint != nil {
		n.put("fingerprint", kvNode(t.Fingerprint))
	}
	if t.Platforms != nil {
		n.put("platforms", list(t.Platforms))
	}
	if t.Env != nil {
		n.put("environment_variables", kvNode(t.Env))
	}
	if t.Timeout != nil {
		n.put("timeout", str(*t.Timeout))
	}
	return n
}

func pkgNode(d pkgDef) node {
	n := node{kind: nMap}
	if d.DefaultPlatforms != nil {
		n.put("default_platforms", list(d.DefaultPlatforms))
	}
	ts := node{kind: nList}
	for _, t := range d.Targets {
		ts.items = append(ts.items, targetNode(t, true, true))
	}
	n.put("targets", ts)
	if d.Aliases != nil {
		as := node{kind: nList}
		for _, a := range d.Aliases {
			m := node{kind: nMap}
			m.put("name", str(a.Name))
			m.put("actual", str(a.Actual))
			as.items = append(as.items, m)
		}
		n.put("aliases", as)
	}
	return n
}

func jsonStr(s string) string {
	var b bytes.Buffer
	e := json.NewEncoder(&b)
	e.SetEscapeHTML(false)
	e.Encode(s)
	return strings.TrimSuffix(b.String(), "\n")
}

func renderJSONNode(n node, ind string) string {
	switch n.kind {
	case nStr:
		return jsonStr(n.s)
	case nRaw:
		return n.raw[0]
	case nList:
		if len(n.items) == 0 {
			return "[]"
		}
		var parts []string
		for _, it := range n.items {
			parts = append(parts, ind+"  "+renderJSONNode(it, ind+"  "))
		}
		return "[\n" + strings.Join(parts, ",\n") + "\n" + ind + "]"
	}
	if len(n.items) == 0 {
		return "{}"
	}
	var parts []string
	for i, it := range n.items {
		parts = append(parts, ind+"  "+jsonStr(n.keys[i])+": "+renderJSONNode(it, ind+"  "))
	}
	return "{\n" + strings.Join(parts, ",\n") + "\n" + ind + "}"
}

func renderJSON(d pkgDef) string   { return renderJSONNode(pkgNode(d), "") + "\n" }
func renderJSONTree(n node) string { return renderJSONNode(n, "") + "\n" }

var yamlReserved = map[string]bool{"true": true, "false": true, "null": true, "yes": true, "no": true, "on": true, "off": true, "y": true, "n": true, "~": true}

// yamlPlainOK: the string can be written as an unquoted (plain) YAML scalar,
// in the style of the examples in the documentation (":x", "src/*.js", "dir::d", "echo hi").
func yamlPlainOK(s string) bool {
	if s == "" || yamlReserved[strings.ToLower(s)] {
		return false
	}
	if _, err := strconv.ParseFloat(s, 64); err == nil {
		return false
	}
	isAlnum := func(c byte) bool {
		return c >= 'a' && c <= 'z' || c >= 'A' && c <= 'Z' || c >= '0' && c <= '9'
	}
	c := s[0]
	if !(isAlnum(c) || c == '_' || c == '.' || c == '/' || (c == ':' && len(s) > 1 && isAlnum(s[1]))) {
		return false
	}
	for i := 0; i < len(s); i++ {
		c := s[i]
		switch {
		case isAlnum(c), strings.IndexByte("_./*@=-", c) >= 0:
		case c == ':':
			if i == len(s)-1 || s[i+1] == ' ' {
				return false
			}
		case c == ' ':
			if i == len(s)-1 || s[i+1] == '#' || s[i+1] == ' ' {
				return false
			}
		default:
			return false
		}
	}
	return true
}

func yamlScalar(s string) string {
	if yamlPlainOK(s) {
		return s
	}
	return jsonStr(s) // a JSON string is a valid YAML double-quoted scalar
}

// yamlBlock returns the literal block form ("|" header and lines) of a clean multi-line string.
func yamlBlock(s string) (string, []string, bool) {
	if !strings.Contains(s, "\n") || strings.HasSuffix(s, "\n\n") {
		return "", nil, false
	}
	header := "|-"
	body := s
	if strings.HasSuffix(s, "\n") {
		header = "|"
		body = strings.TrimSuffix(s, "\n")
	}
	lines := strings.Split(body, "\n")
	for _, l := range lines {
		if l == "" || l[0] == ' ' || l[0] == '\t' || l[len(l)-1] == ' ' {
			return "", nil, false
		}
		for i := 0; i < len(l); i++ {
			if l[i] < 0x20 || l[i] > 0x7e {
				return "", nil, false
			}
		}
	}
	return header, lines, true
}

func yamlLines(n node) []string {
	switch n.kind {
	case nStr:
		return []string{yamlScalar(n.s)}
	case nRaw:
		return []string{n.raw[1]}
	case nList:
		if len(n.items) == 0 {
			return []string{"[]"}
		}
		var out []string
		for _, it := range n.items {
			ls := yamlLines(it)
			for i, l := range ls {
				if i == 0 {
					out = append(out, "- "+l)
				} else {
					out = append(out, "  "+l)
				}
			}
		}
		return out
	}
	if len(n.items) == 0 {
		return []string{"{}"}
	}
	var out []string
	for i, it := range n.items {
		k := yamlScalar(n.keys[i])
		switch {
		case it.kind == nStr:
			if h, lines, ok := yamlBlock(it.s); ok {
				out = append(out, k+": "+h)
				for _, l := range lines {
					out = append(out, "  "+l)
				}
			} else {
				out = append(out, k+": "+yamlScalar(it.s))
			}
		case len(it.items) == 0:
			out = append(out, k+": "+yamlLines(it)[0])
		default:
			out = append(out, k+":")
			for _, l := range yamlLines(it) {
				out = append(out, "  "+l)
			}
		}
	}
	return out
}

func renderYAML(d pkgDef) string   { return renderYAMLTree(pkgNode(d)) }
func renderYAMLTree(n node) string { return strings.Join(yamlLines(n), "\n") + "\n" }

func starStr(s string) string {
	if strings.Contains(s, "\n") && !strings.ContainsAny(s, "\\\"") {
		return `"""` + s + `"""`
	}
	return strconv.Quote(s)
}

func starLit(n node) string {
	switch n.kind {
	case nStr:
		return starStr(n.s)
	case nRaw:
		return n.raw[2]
	case nList:
		var parts []string
		for _, it := range n.items {
			parts = append(parts, starLit(it))
		}
		return "[" + strings.Join(parts, ", ") + "]"
	}
	var parts []string
	for i, it := range n.items {
		parts = append(parts, strconv.Quote(n.keys[i])+": "+starLit(it))
	}
	return "{" + strings.Join(parts, ", ") + "}"
}

func starCall(fn string, n node) string {
	var b strings.Builder
	b.WriteString(fn + "(\n")
	for i, it := range n.items {
		b.WriteString("    " + n.keys[i] + " = " + starLit(it) + ",\n")
	}
	b.WriteString(")\n")
	return b.String()
}

func renderStar(d pkgDef) string { return renderStarNode(pkgNode(d)) }

// renderStarNode renders a package tree as target()/alias() calls (package-level
// default_platforms has no Starlark form and is skipped).
func renderStarNode(pkg node) string {
	var parts []string
	for i, k := range pkg.keys {
		fn := map[string]string{"targets": "target", "aliases": "alias"}[k]
		if fn == "" || pkg.items[i].kind != nList {
			continue
		}
		for _, it := range pkg.items[i].items {
			if it.kind == nMap {
				parts = append(parts, starCall(fn, it))
			}
		}
	}
	return strings.Join(parts, "\n")
}

// renderMakefile: one annotated goal per target. With explicitName the goal is
// called goal_<i> and the annotation carries `name:`; otherwise the goal name
// is the target name (documented default). The command of the definition must
// be "make <goal>" (see makefileTwin).
//
// ruleTail is what follows the colon of every rule line: nothing, ordinary
// prerequisites, or order-only prerequisites — make syntax that does not change
// the goal's name, so the loaded target must be the same in all three.
func renderMakefile(d pkgDef, explicitName bool, ruleTail string) string {
	var b strings.Builder
	for i, t := range d.Targets {
		goal := t.Name
		if explicitName {
			goal = fmt.Sprintf("goal_%d", i)
		}
		b.WriteString("# @grog\n")
		n := targetNode(t, explicitName, false)
		if len(n.items) > 0 {
			for _, l := range yamlLines(n) {
				b.WriteString("# " + l + "\n")
			}
		}
		b.WriteString(goal + ":" + ruleTail + "\n\t@true\n\n")
	}
	return b.String()
}

// rule lines with something after the colon (C16-r6m1 took the whole line as the goal name)
var mkRuleTails = []struct{ name, text string }{
	{"prereqs", " lib.o main.c"},
	{"order-only", " | gen_dir"},
}

// makefileTwin returns the definition a Makefile can express: every command is
// `make <goal>`. ok=false when the definition has package-level parts
// (aliases, default_platforms) that annotations cannot carry.
func makefileTwin(d pkgDef, explicitName bool) (pkgDef, bool) {
	if len(d.Aliases) > 0 || len(d.DefaultPlatforms) > 0 {
		return pkgDef{}, false
	}
	c := d.clone()
	c.Aliases, c.DefaultPlatforms = nil, nil
	for i := range c.Targets {
		goal := c.Targets[i].Name
		if explicitName {
			goal = fmt.Sprintf("goal_%d", i)
		}
		c.Targets[i].Command = sp("make " + goal)
	}
	return c, true
}

// ---------------------------------------------------------------------------
// canonical view of a loaded package

func canon(p *model.Package) map[string]string {
	m := map[string]string{}
	m["path"] = p.Path
	var labels, aliasLabels []string
	j := func(v any) string {
		b, _ := json.Marshal(v)
		if string(b) == "null" || string(b) == "[]" || string(b) == "{}" {
			return "[]" // nil and empty collections are the same value
		}
		return string(b)
	}
	sortedKV := func(mm map[string]string) [][2]string {
		var out [][2]string
		for k, v := range mm {
			out = append(out, [2]string{k, v})
		}
		sort.Slice(out, func(i, j int) bool { return out[i][0] < out[j][0] })
		return out
	}
	for l, t := range p.Targets {
		ls := l.String()
		labels = append(labels, ls)
		if t.Label != l {
			m[ls+"/label"] = t.Label.String()
		}
		m[ls+"/command"] = t.Command
		set := map[string]bool{}
		for _, in := range t.Inputs {
			set[in] = true
		}
		var ins []string
		for in := range set {
			ins = append(ins, in)
		}
		sort.Strings(ins)
		m[ls+"/inputs"] = j(ins)
		m[ls+"/exclude_inputs"] = j(t.ExcludeInputs)
		var outs []string
		for _, o := range t.Outputs {
			outs = append(outs, o.Type+"::"+o.Identifier)
		}
		m[ls+"/outputs"] = j(outs)
		m[ls+"/bin_output"] = ""
		if t.BinOutput.IsSet() {
			m[ls+"/bin_output"] = t.BinOutput.Type + "::" + t.BinOutput.Identifier
		}
		var deps []string
		for _, dl := range t.Dependencies {
			deps = append(deps, dl.String())
		}
		m[ls+"/dependencies"] = j(deps)
		m[ls+"/tags"] = j(t.Tags)
		m[ls+"/fingerprint"] = j(sortedKV(t.Fingerprint))
		m[ls+"/platforms"] = j(t.Platforms)
		m[ls+"/timeout"] = t.Timeout.String()
		m[ls+"/output_checks"] = j(t.OutputChecks)
		m[ls+"/environment_variables"] = j(sortedKV(t.EnvironmentVariables))
	}
	for l, a := range p.Aliases {
		aliasLabels = append(aliasLabels, l.String())
		m[l.String()+"/alias_actual"] = a.Actual.String()
	}
	sort.Strings(labels)
	sort.Strings(aliasLabels)
	m["labels"] = j(labels)
	m["alias_labels"] = j(aliasLabels)
	return m
}

func fieldOf(key string) string {
	if i := strings.LastIndex(key, "/"); i >= 0 {
		return key[i+1:]
	}
	return key
}

// fields of the Makefile comparison that the property statement names
var makefileJudged = map[string]bool{"path": true, "labels": true, "alias_labels": true, "label": true, "command": true, "inputs": true,
	"exclude_inputs": true, "outputs": true, "dependencies": true, "tags": true, "fingerprint": true, "platforms": true, "timeout": true}

// fields that are reported as "dropped" when the Makefile result has no value at all
var makefileDroppable = map[string]bool{"exclude_inputs": true, "fingerprint": true, "platforms": true, "timeout": true,
	"outputs": true, "dependencies": true, "tags": true, "inputs": true}

func emptyCanon(field, v string) bool {
	return v == "[]" || v == "" || (field == "timeout" && v == "0s")
}

// ---------------------------------------------------------------------------

type rendering struct {
	format, file, text string
}

func pkgDir(root string, d pkgDef) string { return filepath.Join(root, d.Pkg) }

// compare loads every rendering and compares it with the first one (JSON).
func compare(root, id string, d pkgDef, rs []rendering) {
	dir := pkgDir(root, d)
	var ref map[string]string
	var refRes loadResult
	for i, r := range rs {
		res := loadFile(dir, r.file, []byte(r.text))
		replay := map[string]any{"id": id, "definition": d, "format": r.format, "file": r.file, "rendering": r.text, "reference_rendering": rs[0].text}
		checkRobust(res, r.file, []byte(r.text), map[string]any{"part": "a", "id": id})
		if res.Panic != "" || res.Hang {
			continue
		}
		if res.Err == nil && !res.Matched {
			vrep.Violation("format-disagreement:"+r.format+":not-recognised", fmt.Sprintf("%s: %s rendering yields no package", id, r.format), replay)
			continue
		}
		if i == 0 {
			refRes = res
			if res.Err == nil {
				ref = canon(res.Pkg)
				vrep.AddInt("a_reference_loads_accepted", 1)
				if d.Invalid {
					vrep.AddInt("a_invalid_definitions_accepted_by_json", 1)
				}
			} else {
				vrep.AddInt("a_reference_loads_rejected", 1)
				if !d.Invalid {
					vrep.Broken("definition %s is meant to be valid but the JSON rendering is rejected: %v\n%s", id, res.Err, r.text)
				}
			}
			continue
		}
		if refRes.Panic != "" || refRes.Hang {
			continue
		}
		if r.format == "makefile" && refRes.Err != nil && res.Err == nil && strings.Contains(refRes.Err.Error(), "bin output") {
			// bin_output is not among the fields judged for Makefile annotations
			vrep.AddInt("makefile_unjudged_field_differs:bin_output", 1)
			continue
		}
		if r.format == "makefile" && refRes.Err != nil && res.Err == nil && strings.Contains(refRes.Err.Error(), "failed to parse timeout") {
			// same root cause as a dropped valid timeout: the annotation's timeout never reaches the target
			vrep.Violation("makefile:field-dropped:timeout", fmt.Sprintf("%s: json rejects the invalid timeout (%v) but the Makefile annotation's timeout is ignored, so the file loads", id, refRes.Err), replay)
			continue
		}
		if (res.Err == nil) != (refRes.Err == nil) {
			vrep.Violation("format-disagreement:"+r.format+":accept-reject",
				fmt.Sprintf("%s: json err=%v but %s err=%v", id, refRes.Err, r.format, res.Err), replay)
			continue
		}
		if res.Err != nil {
			continue
		}
		got := canon(res.Pkg)
		keys := map[string]bool{}
		for k := range ref {
			keys[k] = true
		}
		for k := range got {
			keys[k] = true
		}
		var ks []string
		for k := range keys {
			ks = append(ks, k)
		}
		sort.Strings(ks)
		dropped := map[string]bool{}
		for _, k := range ks {
			if ref[k] == got[k] {
				continue
			}
			f := fieldOf(k)
			if r.format == "makefile" {
				if !makefileJudged[f] {
					vrep.AddInt("makefile_unjudged_field_differs:"+f, 1)
					continue
				}
				if f == "inputs" && dropped["exclude_inputs"] {
					continue // consequence of the dropped excludes
				}
				if makefileDroppable[f] && emptyCanon(f, got[k]) && !emptyCanon(f, ref[k]) {
					dropped[f] = true
					vrep.Violation("makefile:field-dropped:"+f,
						fmt.Sprintf("%s: annotation field %s is ignored: json gives %s=%s, Makefile gives %s", id, f, k, ref[k], got[k]), replay)
					continue
				}
			}
			vrep.Violation("format-disagreement:"+r.format+":"+f,
				fmt.Sprintf("%s: %s: json=%s %s=%s", id, k, ref[k], r.format, got[k]), replay)
		}
	}
}

func partAgree(shard, shards int) {
	root := filepath.Join(tmp, "ws-a")
	for _, b := range bases() {
		if err := mkPackageDir(pkgDir(root, b)); err != nil {
			vrep.Broken("mkdir: %v", err)
			return
		}
	}
	os.WriteFile(filepath.Join(root, "grog.toml"), nil, 0o644)
	config.Global.WorkspaceRoot = root

	maxOv := 2
	if vrep.Thorough() {
		maxOv = 3
	}
	maxOv = vrep.EnvInt("VERIF_C16_OVERRIDES", maxOv)
	seen := map[uint64]bool{}
	mine := func(key string) bool {
		h := hash64(key)
		if int(h%uint64(shards)) != shard || seen[h] {
			return false
		}
		seen[h] = true
		return true
	}
	var enumerated, distinct, twins int64
	sampled, mkSampled := false, false
	enumerate(maxOv, func(id string, d pkgDef) {
		enumerated++
		if mine("def|" + d.key()) {
			distinct++
			rs := []rendering{{"json", "BUILD.json", renderJSON(d)}, {"yaml", "BUILD.yaml", renderYAML(d)}}
			if d.DefaultPlatforms == nil {
				rs = append(rs, rendering{"starlark", "BUILD.star", renderStar(d)})
			} else {
				vrep.AddInt("starlark_inexpressible", 1)
			}
			compare(root, id, d, rs)
			vrep.Nontrivial.Add("a|" + d.key())
			if !sampled && shard == 0 && len(d.Targets) == 2 && !d.Invalid {
				sampled = true
				vrep.Sample(map[string]any{"part": "a", "id": id, "json": rs[0].text, "yaml": rs[1].text, "starlark": rs[len(rs)-1].text})
			}
		}
		for _, explicit := range []bool{false, true} {
			tw, ok := makefileTwin(d, explicit)
			if !ok {
				continue
			}
			if !mine(fmt.Sprintf("twin%v|%s", explicit, tw.key())) {
				continue
			}
			twins++
			style := "goal-is-name"
			if explicit {
				style = "explicit-name"
			}
			rs := []rendering{{"json", "BUILD.json", renderJSON(tw)}, {"makefile", "Makefile", renderMakefile(tw, explicit, "")}}
			compare(root, id+"|makefile:"+style, tw, rs)
			for _, tail := range mkRuleTails {
				rt := []rendering{rs[0], {"makefile", "Makefile", renderMakefile(tw, explicit, tail.text)}}
				compare(root, id+"|makefile:"+style+":"+tail.name, tw, rt)
				vrep.AddInt("a_makefile_rule_line_variants", 1)
			}
			vrep.Nontrivial.Add("a-mk|" + style + tw.key())
			if explicit && shard == 0 && len(tw.Targets) == 2 && !tw.Invalid && !mkSampled {
				mkSampled = true
				vrep.Sample(map[string]any{"part": "a", "id": id + "|makefile", "json": rs[0].text, "makefile": rs[1].text})
			}
		}
	})
	if shard == 0 {
		vrep.Set("a_definitions_enumerated_incl_duplicates", enumerated)
		vrep.Set("a_max_fields_varied_at_once", maxOv)
		nvals := 0
		for _, f := range fields() {
			nvals += len(f.values)
		}
		vrep.Set("a_fields_and_values", fmt.Sprintf("%d fields, %d values, 2 bases", len(fields()), nvals))
	}
	vrep.AddInt("a_distinct_definitions", distinct)
	vrep.AddInt("a_distinct_makefile_definitions", twins)
}
