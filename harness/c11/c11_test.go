// C11: invalid build graphs are rejected before anything runs; valid ones are
// accepted. Every graph of a set of explicitly stated bounded families (up to 4
// nodes; targets and aliases; arbitrary dependency subsets incl. self and
// dangling labels; duplicate labels within a file / across BUILD files of one
// package; output and input path spellings over two nested packages) is pushed
// through the real load -> node map -> graph -> constraints pipeline of
// `grog build` / `grog check` and the accept/reject verdict is compared with a
// reference validator written from the property statement and the docs.
package c11

import (
	"encoding/json"
	"fmt"
	"os"
	"path"
	"sort"
	"strings"
	"testing"

	"go.uber.org/zap"
	"go.uber.org/zap/zapcore"

	"grog/internal/analysis"
	"grog/internal/config"
	"grog/internal/console"
	"grog/internal/loading"
	"grog/internal/model"
	"grog/internal/zverif/vrep"
)

// ---------------------------------------------------------------------------
// graph specification
// ---------------------------------------------------------------------------

const (
	kAlias    = iota // alias, plain name
	kAliasT          // alias whose *name* ends in "test" (an alias is not a target)
	kPlain           // plain target
	kTest            // test target: name ends in "test"
	kTestonly        // non-test target tagged "testonly"
)

var kindNames = [...]string{"alias", "alias-named-test", "plain", "test", "testonly"}
var pkgPaths = [...]string{"p", "p/q"}

const danglingLabel = "//p:zz"

// spec is one node of a generated graph. Deps holds node indices; the value
// len(nodes) denotes the dangling label //p:zz. For aliases Deps has exactly
// one element (the `actual`).
type spec struct {
	Pkg  int      `json:"pkg"`  // 0 = package "p", 1 = package "p/q"
	File int      `json:"file"` // which BUILD file of the package defines the node
	Base string   `json:"base"` // name without the "test" suffix
	Kind int      `json:"kind"`
	Deps []int    `json:"deps"`
	Outs []string `json:"outs,omitempty"`
	Bin  string   `json:"bin,omitempty"`
	Ins  []string `json:"ins,omitempty"`
}

func (s *spec) isAlias() bool { return s.Kind == kAlias || s.Kind == kAliasT }

func (s *spec) name() string {
	if s.Kind == kTest || s.Kind == kAliasT {
		return s.Base + "test"
	}
	return s.Base
}

// mnode is a materialised node: names and labels resolved.
type mnode struct {
	s        *spec
	pkg      string
	name     string
	label    string // canonical //pkg:name
	deps     []string
	alias    bool
	test     bool
	testonly bool
}

func materialise(nodes []*spec, out []mnode) []mnode {
	out = out[:0]
	for _, s := range nodes {
		n := mnode{s: s, pkg: pkgPaths[s.Pkg], name: s.name(), alias: s.isAlias(), test: s.Kind == kTest, testonly: s.Kind == kTestonly}
		n.label = "//" + n.pkg + ":" + n.name
		out = append(out, n)
	}
	for i := range out {
		ds := make([]string, 0, len(out[i].s.Deps))
		for _, d := range out[i].s.Deps {
			if d >= len(out) {
				ds = append(ds, danglingLabel)
			} else {
				ds = append(ds, out[d].label)
			}
		}
		out[i].deps = ds
	}
	return out
}

func (n *mnode) describe() string {
	var b strings.Builder
	fmt.Fprintf(&b, "%s[%s", n.label, kindNames[n.s.Kind])
	if n.s.File != 0 {
		fmt.Fprintf(&b, " file#%d", n.s.File)
	}
	if n.alias {
		fmt.Fprintf(&b, " actual=%s", strings.Join(n.deps, ","))
	} else {
		if len(n.deps) > 0 {
			fmt.Fprintf(&b, " deps=%s", strings.Join(n.deps, ","))
		}
		if len(n.s.Outs) > 0 {
			fmt.Fprintf(&b, " outputs=%s", strings.Join(n.s.Outs, ","))
		}
		if n.s.Bin != "" {
			fmt.Fprintf(&b, " bin_output=%s", n.s.Bin)
		}
		if len(n.s.Ins) > 0 {
			fmt.Fprintf(&b, " inputs=%s", strings.Join(n.s.Ins, ","))
		}
	}
	b.WriteString("]")
	return b.String()
}

func describeGraph(ns []mnode) string {
	var parts []string
	for i := range ns {
		parts = append(parts, ns[i].describe())
	}
	return strings.Join(parts, " ")
}

// graphKey is an injective encoding of the materialised graph (family independent).
func graphKey(ns []mnode) string {
	var b strings.Builder
	for i := range ns {
		n := &ns[i]
		b.WriteString(n.label)
		b.WriteByte('|')
		b.WriteByte(byte('0' + n.s.Kind))
		b.WriteByte(byte('0' + n.s.File))
		b.WriteByte('|')
		for _, d := range n.deps {
			b.WriteString(d)
			b.WriteByte(',')
		}
		b.WriteByte('|')
		for _, o := range n.s.Outs {
			b.WriteString(o)
			b.WriteByte(',')
		}
		b.WriteByte('|')
		b.WriteString(n.s.Bin)
		b.WriteByte('|')
		for _, o := range n.s.Ins {
			b.WriteString(o)
			b.WriteByte(',')
		}
		b.WriteByte(';')
	}
	return b.String()
}

// ---------------------------------------------------------------------------
// the real pipeline (as MustLoadGraphForBuild + RunBuild / CheckCmd run it)
// ---------------------------------------------------------------------------

var logger *console.Logger

type result struct {
	accepted bool
	stage    string // enrich | merge | nodemap | graph | constraints | accepted
	class    string // error class derived from the diagnostic
	msg      string
}

func classifyMsg(msg string) string {
	has := func(s string) bool { return strings.Contains(msg, s) }
	switch {
	case has("duplicate target label"), has("duplicate alias label"):
		return "duplicate"
	case has("conflicting outputs"):
		var k []string
		if has("both declare docker image") {
			k = append(k, "docker")
		}
		if has("both write file output") {
			k = append(k, "file")
		}
		if has("overlapping directories") {
			k = append(k, "dirs")
		}
		if has("overlaps file output") {
			k = append(k, "dir-file")
		}
		return "conflict:" + strings.Join(k, "+")
	case has("cannot add self-loop"):
		return "self-loop"
	case has("cycle detected"):
		return "cycle"
	case has("not found"):
		return "undefined-dep"
	case has("is not relative"):
		if strings.HasPrefix(msg, "input ") {
			return "input-absolute"
		}
		return "output-absolute"
	case has("points outside the package"):
		return "input-escape"
	case has("points outside the repository"):
		return "output-escape"
	case has("has no command"):
		return "test-without-command"
	case has("which is a test target"):
		return "test-dep"
	case has("which is tagged"):
		return "testonly-dep"
	}
	if len(msg) > 40 {
		msg = msg[:40]
	}
	return "other:" + msg
}

func depString(from *mnode, lbl string) string {
	// same package -> relative spelling, other package -> absolute spelling
	prefix := "//" + from.pkg + ":"
	if strings.HasPrefix(lbl, prefix) {
		return lbl[len(prefix)-1:]
	}
	return lbl
}

// runPipeline loads the nodes in the given order: nodes are appended to the
// target/alias lists of their BUILD file in that order, BUILD files are loaded
// in order of first appearance (the first one of a package becomes the package,
// later ones are merged into it exactly as LoadPackages does) and packages are
// handed over in order of first appearance.
func runPipeline(ns []mnode, order []int) (res result) {
	stage := "enrich"
	defer func() {
		if r := recover(); r != nil {
			res = result{accepted: false, stage: "panic:" + stage, class: "panic", msg: fmt.Sprint(r)}
		}
	}()
	type fileKey struct{ pkg, file int }
	var fileOrder []fileKey
	dtos := map[fileKey]*loading.PackageDTO{}
	for _, i := range order {
		n := &ns[i]
		fk := fileKey{n.s.Pkg, n.s.File}
		dto := dtos[fk]
		if dto == nil {
			dto = &loading.PackageDTO{SourceFilePath: fmt.Sprintf("/vcheck-c11-ws/root/%s/BUILD%d.json", n.pkg, n.s.File)}
			dtos[fk] = dto
			fileOrder = append(fileOrder, fk)
		}
		if n.alias {
			dto.Aliases = append(dto.Aliases, &loading.AliasDTO{Name: n.name, Actual: depString(n, n.deps[0])})
			continue
		}
		t := &loading.TargetDTO{Name: n.name, Command: "true", Outputs: n.s.Outs, BinOutput: n.s.Bin, Inputs: n.s.Ins}
		for _, d := range n.deps {
			t.Dependencies = append(t.Dependencies, depString(n, d))
		}
		if n.testonly {
			t.Tags = []string{"testonly"}
		}
		dto.Targets = append(dto.Targets, t)
	}
	loaded := map[string]*model.Package{}
	var packages []*model.Package
	for _, fk := range fileOrder {
		stage = "enrich"
		pm, err := loading.VerifC11EnrichPackage(logger, pkgPaths[fk.pkg], *dtos[fk])
		if err != nil {
			return result{stage: stage, class: classifyMsg(err.Error()), msg: err.Error()}
		}
		if existing, ok := loaded[pkgPaths[fk.pkg]]; ok {
			stage = "merge"
			if err := loading.VerifC11MergePackages(pm, existing); err != nil {
				return result{stage: stage, class: classifyMsg(err.Error()), msg: err.Error()}
			}
			continue
		}
		loaded[pkgPaths[fk.pkg]] = pm
		packages = append(packages, pm)
	}
	stage = "nodemap"
	nodes, err := model.BuildNodeMapFromPackages(packages)
	if err != nil {
		return result{stage: stage, class: classifyMsg(err.Error()), msg: err.Error()}
	}
	stage = "graph"
	graph, err := analysis.BuildGraph(nodes)
	if err != nil {
		return result{stage: stage, class: classifyMsg(err.Error()), msg: err.Error()}
	}
	stage = "constraints"
	errs := analysis.CheckTargetConstraints(logger, graph.GetNodes())
	if len(errs) > 0 {
		set := map[string]struct{}{}
		var msgs []string
		for _, e := range errs {
			set[classifyMsg(e.Error())] = struct{}{}
			msgs = append(msgs, e.Error())
		}
		var cl []string
		for c := range set {
			cl = append(cl, c)
		}
		sort.Strings(cl)
		return result{stage: stage, class: strings.Join(cl, "+"), msg: strings.Join(msgs, " ; ")}
	}
	return result{accepted: true, stage: "accepted", class: "ok"}
}

// ---------------------------------------------------------------------------
// reference validator (from the property statement + docs only)
// ---------------------------------------------------------------------------

type verdict struct {
	defects        []string // in fixed priority order, de-duplicated
	selfOverlap    string   // one target whose own outputs overlap (not a defect)
	orderedOverlap string   // overlapping outputs between ordered targets (not a defect): "direct" | "via-alias"
	features       []string // further features of interest of valid graphs
	ambiguous      string   // non-empty: the generator produced a case the statement does not define
}

func (v *verdict) add(c string) {
	for _, d := range v.defects {
		if d == c {
			return
		}
	}
	v.defects = append(v.defects, c)
}

func (v *verdict) feature(c string) {
	for _, d := range v.features {
		if d == c {
			return
		}
	}
	v.features = append(v.features, c)
}

func splitOut(def string) (typ, id string) {
	if i := strings.Index(def, "::"); i >= 0 {
		return def[:i], def[i+2:]
	}
	return "file", def
}

func normPath(pkg, rel string) string { return path.Clean(path.Join(pkg, rel)) }

func escapes(clean string) bool { return clean == ".." || strings.HasPrefix(clean, "../") }

func within(p, dir string) bool { return strings.HasPrefix(p, dir+"/") }

// overlapKind says whether (and how) two declared outputs overlap.
func overlapKind(pa, a, pb, b string) (kind string, ambiguous bool) {
	ta, ia := splitOut(a)
	tb, ib := splitOut(b)
	if ta == "docker" || tb == "docker" {
		if ta == tb && ia == ib {
			return "docker-tag", false
		}
		return "", false
	}
	na, nb := normPath(pa, ia), normPath(pb, ib)
	rawSame := pa+"/"+ia == pb+"/"+ib
	suffix := ""
	if !rawSame {
		suffix = ":normalised"
	}
	switch {
	case ta == "file" && tb == "file":
		if na == nb {
			return "same-file" + suffix, false
		}
		// the statement says nothing about a file output at x and another file output at x/y
		return "", false
	case ta == "dir" && tb == "dir":
		if na == nb {
			return "same-dir" + suffix, false
		}
		if within(na, nb) || within(nb, na) {
			return "nested-dirs", false
		}
		return "", false
	}
	f, d := na, nb
	if ta == "dir" {
		f, d = nb, na
	}
	if f == d {
		return "", true // a file output and a directory output at the very same path: not defined by the statement
	}
	if within(f, d) {
		return "file-in-dir", false
	}
	return "", false
}

func allOuts(s *spec) []string {
	if s.Bin == "" {
		return s.Outs
	}
	return append(append([]string{}, s.Outs...), s.Bin)
}

func reference(ns []mnode) verdict {
	var v verdict
	n := len(ns)
	// 1. duplicate labels
	index := map[string]int{}
	dup := false
	for i := range ns {
		if j, ok := index[ns[i].label]; ok {
			dup = true
			a, b := "target", "target"
			if ns[i].alias {
				a = "alias"
			}
			if ns[j].alias {
				b = "alias"
			}
			kinds := "target+target"
			if a != b {
				kinds = "target+alias"
			} else if a == "alias" {
				kinds = "alias+alias"
			}
			scope := "same-file"
			if ns[i].s.File != ns[j].s.File {
				scope = "across-files"
			}
			v.add("duplicate:" + kinds + ":" + scope)
			continue
		}
		index[ns[i].label] = i
	}
	if dup {
		// labels no longer denote a single node: the other defect classes are not defined
		return v
	}
	// 2. undefined labels, adjacency
	adj := make([]uint8, n)
	for i := range ns {
		for _, d := range ns[i].deps {
			j, ok := index[d]
			if !ok {
				if ns[i].alias {
					v.add("undefined-dep:alias-actual")
				} else {
					v.add("undefined-dep:target-dep")
				}
				continue
			}
			adj[i] |= 1 << uint(j)
		}
	}
	// 3./4. self reference and cycles; reach = transitive closure over >= 1 edges
	closure := func(adj []uint8) []uint8 {
		reach := append([]uint8{}, adj...)
		for round := 0; round < n; round++ {
			for i := 0; i < n; i++ {
				for j := 0; j < n; j++ {
					if reach[i]&(1<<uint(j)) != 0 {
						reach[i] |= reach[j]
					}
				}
			}
		}
		return reach
	}
	reach := closure(adj)
	for i := range ns {
		if adj[i]&(1<<uint(i)) != 0 {
			if ns[i].alias {
				v.add("self-loop:alias")
			} else {
				v.add("self-loop:target")
			}
		}
	}
	// longer cycles: ignore self edges
	adjNoSelf := make([]uint8, n)
	for i := range adj {
		adjNoSelf[i] = adj[i] &^ (1 << uint(i))
	}
	reachNoSelf := closure(adjNoSelf)
	cyc, cycAlias := false, false
	for i := range ns {
		if reachNoSelf[i]&(1<<uint(i)) != 0 {
			cyc = true
			if ns[i].alias {
				cycAlias = true
			}
		}
	}
	if cyc {
		if cycAlias {
			v.add("cycle-through-alias")
		} else {
			v.add("cycle:targets-only")
		}
	}
	// 5. output overlaps between targets that are not ordered by dependency
	adjTargets := make([]uint8, n)
	for i := range ns {
		if ns[i].alias {
			continue
		}
		for j := range ns {
			if !ns[j].alias && adj[i]&(1<<uint(j)) != 0 {
				adjTargets[i] |= 1 << uint(j)
			}
		}
	}
	reachTargets := closure(adjTargets)
	ordered := func(r []uint8, i, j int) bool { return r[i]&(1<<uint(j)) != 0 || r[j]&(1<<uint(i)) != 0 }
	for i := 0; i < n; i++ {
		if ns[i].alias {
			continue
		}
		oi := allOuts(ns[i].s)
		for a := 0; a < len(oi); a++ {
			for b := a + 1; b < len(oi); b++ {
				k, amb := overlapKind(ns[i].pkg, oi[a], ns[i].pkg, oi[b])
				if amb {
					v.ambiguous = "file and directory output at the same path"
				}
				if k != "" {
					v.selfOverlap = k
				}
			}
		}
		for j := i + 1; j < n; j++ {
			if ns[j].alias {
				continue
			}
			for _, a := range oi {
				for _, b := range allOuts(ns[j].s) {
					k, amb := overlapKind(ns[i].pkg, a, ns[j].pkg, b)
					if amb {
						v.ambiguous = "file and directory output at the same path"
					}
					if k == "" {
						continue
					}
					if !ordered(reach, i, j) {
						v.add("overlap:" + k)
					} else if ordered(reachTargets, i, j) {
						if v.orderedOverlap == "" {
							v.orderedOverlap = "direct"
						}
					} else {
						v.orderedOverlap = "via-alias"
					}
				}
			}
		}
	}
	// 6. inputs escaping the package / absolute; 7. outputs escaping the workspace
	for i := range ns {
		if ns[i].alias {
			continue
		}
		for _, in := range ns[i].s.Ins {
			if path.IsAbs(in) {
				v.add("input:absolute")
				continue
			}
			c := path.Clean(in)
			if escapes(c) {
				if strings.HasPrefix(in, "../") {
					v.add("input:escape")
				} else {
					v.add("input:escape:normalised")
				}
			} else if c != in {
				v.feature("input-with-dotdot-staying-inside")
			}
		}
		for _, o := range allOuts(ns[i].s) {
			typ, id := splitOut(o)
			if typ == "docker" {
				continue
			}
			if escapes(normPath(ns[i].pkg, id)) {
				v.add("output-escape:" + typ)
			} else if strings.HasPrefix(id, "../") {
				v.feature("output-in-parent-directory-inside-workspace")
			}
		}
	}
	// 8. test / testonly dependency rules (aliases stand for what they point to)
	for i := range ns {
		t := &ns[i]
		if t.alias || t.test {
			continue
		}
		for _, d := range t.deps {
			cur, ok := index[d]
			hops := 0
			for ok && ns[cur].alias && hops <= n {
				cur, ok = index[ns[cur].deps[0]]
				hops++
			}
			if !ok || ns[cur].alias {
				continue // undefined or alias loop: reported by other classes
			}
			how := "direct"
			if hops > 0 {
				how = "via-alias"
			}
			dep := &ns[cur]
			switch {
			case dep.test:
				v.add("test-dep:" + how)
			case dep.testonly && !t.testonly:
				v.add("testonly-dep:" + how)
			case dep.testonly && t.testonly:
				v.feature("testonly-depends-on-testonly")
			}
			if hops > 0 && ns[index[d]].s.Kind == kAliasT && !dep.test {
				v.feature("dep-on-alias-named-test-of-non-test-target")
			}
		}
	}
	for i := range ns {
		if ns[i].test {
			for _, d := range ns[i].deps {
				if j, ok := index[d]; ok && (ns[j].testonly || ns[j].test) {
					v.feature("test-depends-on-test-or-testonly")
				}
			}
		}
	}
	return v
}

// classPriority orders the defect classes for naming an "accepts:" violation.
var classOrder = []string{"duplicate", "undefined-dep", "self-loop", "cycle", "overlap", "input", "output-escape", "test-dep", "testonly-dep"}

func primaryDefect(v *verdict) string {
	for _, p := range classOrder {
		for _, d := range v.defects {
			if d == p || strings.HasPrefix(d, p+":") || strings.HasPrefix(d, p+"-") {
				return d
			}
		}
	}
	return v.defects[0]
}

// ---------------------------------------------------------------------------
// families (each one is a full Cartesian product over its stated alphabet)
// ---------------------------------------------------------------------------

type alpha struct {
	kinds   []int
	pool    func(i, n int) []int // candidate dependency indices of node i (n = dangling)
	single  bool                 // targets have at most one dependency instead of any subset
	pkgs    []int
	files   []int
	bases   func(i int) []string
	outs    []string // "" = none
	seconds []string // second output: "" none, "bin=<path>" as bin_output, otherwise an extra outputs entry
	ins     []string // "" = none
}

type family struct {
	name  string
	n     int
	opts  [][]spec
	perms bool // run under every permutation of the node order
}

func (f *family) size() int64 {
	t := int64(1)
	for _, o := range f.opts {
		t *= int64(len(o))
	}
	return t
}

func subsets(pool []int) [][]int {
	out := [][]int{}
	for m := 0; m < 1<<uint(len(pool)); m++ {
		s := []int{}
		for i, p := range pool {
			if m&(1<<uint(i)) != 0 {
				s = append(s, p)
			}
		}
		out = append(out, s)
	}
	return out
}

func poolAll(i, n int) []int { // every node incl. self, plus the dangling label
	p := []int{}
	for j := 0; j <= n; j++ {
		p = append(p, j)
	}
	return p
}
func poolNodes(i, n int) []int { // every node incl. self
	return poolAll(i, n)[:n]
}
func poolOthers(i, n int) []int {
	p := []int{}
	for j := 0; j < n; j++ {
		if j != i {
			p = append(p, j)
		}
	}
	return p
}
func poolLower(i, n int) []int {
	p := []int{}
	for j := 0; j < i; j++ {
		p = append(p, j)
	}
	return p
}

func basesDistinct(i int) []string { return []string{string(rune('a' + i))} }
func basesReverse(i int) []string  { return []string{string(rune('d' - i))} }
func basesAB(i int) []string       { return []string{"a", "b"} }

func build(name string, n int, a alpha) family {
	f := family{name: name, n: n}
	if a.pkgs == nil {
		a.pkgs = []int{0}
	}
	if a.files == nil {
		a.files = []int{0}
	}
	if a.bases == nil {
		a.bases = basesDistinct
	}
	if a.outs == nil {
		a.outs = []string{""}
	}
	if a.seconds == nil {
		a.seconds = []string{""}
	}
	if a.ins == nil {
		a.ins = []string{""}
	}
	for i := 0; i < n; i++ {
		var opts []spec
		pool := a.pool(i, n)
		var depsets [][]int
		if a.single {
			depsets = append(depsets, []int{})
			for _, p := range pool {
				depsets = append(depsets, []int{p})
			}
		} else {
			depsets = subsets(pool)
		}
		for _, pkg := range a.pkgs {
			for _, file := range a.files {
				for _, base := range a.bases(i) {
					for _, kind := range a.kinds {
						if kind == kAlias || kind == kAliasT {
							for _, p := range pool {
								opts = append(opts, spec{Pkg: pkg, File: file, Base: base, Kind: kind, Deps: []int{p}})
							}
							continue
						}
						for _, ds := range depsets {
							for _, o := range a.outs {
								for _, sec := range a.seconds {
									if sec != "" && strings.TrimPrefix(sec, "bin=") == o {
										continue // the very same output string twice: not defined by the statement
									}
									for _, in := range a.ins {
										s := spec{Pkg: pkg, File: file, Base: base, Kind: kind, Deps: ds}
										if o != "" {
											s.Outs = append(s.Outs, o)
										}
										if strings.HasPrefix(sec, "bin=") {
											s.Bin = sec[4:]
										} else if sec != "" {
											s.Outs = append(s.Outs, sec)
										}
										if in != "" {
											s.Ins = []string{in}
										}
										opts = append(opts, s)
									}
								}
							}
						}
					}
				}
			}
		}
		f.opts = append(f.opts, opts)
	}
	return f
}

var outsFull = []string{"", "o", "./o", "d/../o", "dir::d", "dir::d/", "dir::d/e", "d/f", "../x", "../../x", "docker::t", "dir::../../y"}
var outsSibling = []string{"", "o", "../../root-x/f", "../../root2", "dir::../../root.bak", "../../../root-x/f", "../../../root_", "dir::../../../rootx/d", "../../ro/f", "../../../ro"}
var outsReduced = []string{"", "o", "./o", "dir::d", "d/f", "docker::t"}
var outsMid = []string{"", "o", "d/../o", "dir::d/", "dir::d/e", "d/f", "../../x", "docker::t"}
var insFull = []string{"", "i", "../i", "/abs", "d/../i", "d/../../i"}

func families(thorough bool) []family {
	var fs []family
	allKinds := []int{kAlias, kAliasT, kPlain, kTest, kTestonly}
	// S: dependency structure, kinds, alias placement (pkg p, one file, no paths)
	for n := 1; n <= 3; n++ {
		fs = append(fs, build(fmt.Sprintf("structure/n%d", n), n, alpha{kinds: allKinds, pool: poolAll}))
	}
	if thorough {
		fs = append(fs, build("structure/n4", 4, alpha{kinds: []int{kAlias, kPlain, kTest, kTestonly}, pool: poolNodes}))
	} else {
		fs = append(fs, build("structure/n4-reduced", 4, alpha{kinds: []int{kAlias, kPlain, kTest, kTestonly}, pool: poolOthers}))
	}
	// O: output spellings x ordering, two nested packages
	for n := 1; n <= 3; n++ {
		fs = append(fs, build(fmt.Sprintf("outputs/n%d", n), n, alpha{kinds: []int{kAlias, kPlain}, pool: poolOthers, pkgs: []int{0, 1}, outs: outsFull}))
	}
	if thorough {
		fs = append(fs, build("outputs/n4-dag", 4, alpha{kinds: []int{kAlias, kPlain}, pool: poolLower, pkgs: []int{0, 1}, outs: outsMid, bases: basesReverse}))
	} else {
		fs = append(fs, build("outputs/n4-dag-reduced", 4, alpha{kinds: []int{kAlias, kPlain}, pool: poolLower, outs: outsReduced, bases: basesReverse}))
	}
	// O': outputs that leave the workspace into a sibling directory whose name extends the
	// workspace directory's name (the workspace is /vcheck-c11-ws/root): a containment test on
	// path strings instead of path components accepts them
	for n := 1; n <= 2; n++ {
		fs = append(fs, build(fmt.Sprintf("sibling-escapes/n%d", n), n, alpha{kinds: []int{kAlias, kPlain}, pool: poolOthers, pkgs: []int{0, 1}, outs: outsSibling}))
	}
	for n := 1; n <= 2; n++ {
		fs = append(fs, build(fmt.Sprintf("two-outputs/n%d", n), n, alpha{kinds: []int{kAlias, kPlain}, pool: poolOthers, pkgs: []int{0, 1}, outs: outsFull, seconds: []string{"", "dir::d/e", "bin=d/f", "docker::u"}}))
	}
	// D: duplicate labels: names from {a,b}, two packages, two BUILD files per package, every node order
	dupKinds := []int{kAlias, kPlain}
	if thorough {
		dupKinds = []int{kAlias, kPlain, kTestonly}
	}
	for n := 2; n <= 3; n++ {
		f := build(fmt.Sprintf("duplicates/n%d", n), n, alpha{kinds: dupKinds, pool: poolOthers, single: true, pkgs: []int{0, 1}, files: []int{0, 1}, bases: basesAB})
		f.perms = true
		fs = append(fs, f)
	}
	// DS: sibling directory names that sort between a parent and its children ('-' and '.' sort before '/'):
	// overlap detection must not depend on the order in which directory outputs are compared
	outsSiblings := []string{"", "dir::d", "dir::d-x", "dir::d.x", "dir::d/e", "d-x/f", "dir::dx", "d/e/f"}
	fs = append(fs, build("dir-siblings/n3", 3, alpha{kinds: []int{kPlain}, pool: poolLower, outs: outsSiblings}))
	if thorough {
		fs = append(fs, build("dir-siblings/n4", 4, alpha{kinds: []int{kPlain}, pool: poolLower, outs: outsSiblings}))
	}
	// I: input spellings
	for n := 1; n <= 3; n++ {
		fs = append(fs, build(fmt.Sprintf("inputs/n%d", n), n, alpha{kinds: []int{kAlias, kPlain}, pool: poolOthers, pkgs: []int{0, 1}, ins: insFull}))
	}
	if thorough {
		// M: everything at once over small alphabets
		fs = append(fs, build("mixed/n3", 3, alpha{kinds: []int{kAlias, kPlain, kTest, kTestonly}, pool: poolOthers, outs: []string{"", "o", "./o", "dir::d", "d/f"}, ins: []string{"", "../i"}}))
	}
	return fs
}

func permutations(n int) [][]int {
	if n == 0 {
		return [][]int{{}}
	}
	var out [][]int
	for _, p := range permutations(n - 1) {
		for i := len(p); i >= 0; i-- {
			q := append(append(append([]int{}, p[:i]...), n-1), p[i:]...)
			out = append(out, q)
		}
	}
	return out
}

// ---------------------------------------------------------------------------
// the check
// ---------------------------------------------------------------------------

type stats struct {
	evals, execs  int64
	counts        map[string]int64
	samplesWanted map[string]bool
}

func (st *stats) inc(k string) { st.counts[k]++ }

type replayCase struct {
	Family string   `json:"family"`
	Nodes  []spec   `json:"nodes"`
	Order  []int    `json:"order,omitempty"`
	Graph  []string `json:"graph,omitempty"`
}

func mkReplay(fam string, ns []mnode, order []int) replayCase {
	rc := replayCase{Family: fam, Order: order}
	for i := range ns {
		rc.Nodes = append(rc.Nodes, *ns[i].s)
		rc.Graph = append(rc.Graph, ns[i].describe())
	}
	return rc
}

func rejectSignature(v *verdict, r result) string {
	if strings.HasPrefix(r.stage, "panic") {
		return "panic:" + r.stage
	}
	if strings.HasPrefix(r.class, "conflict") {
		switch {
		case v.selfOverlap != "":
			return "rejects:valid:self-overlap:" + v.selfOverlap
		case v.orderedOverlap == "via-alias":
			return "rejects:valid:ordered-overlap:via-alias"
		case v.orderedOverlap != "":
			return "rejects:valid:ordered-overlap"
		}
		return "rejects:valid:conflict-without-overlap:" + r.class
	}
	return "rejects:valid:" + r.stage + ":" + r.class
}

// checkGraph evaluates one graph; orders lists the node orders to run.
func checkGraph(st *stats, fam string, ns []mnode, orders [][]int) {
	v := reference(ns)
	if v.ambiguous != "" {
		vrep.Broken("generator produced a case the statement does not define (%s): %s", v.ambiguous, describeGraph(ns))
		return
	}
	st.evals++
	expectAccept := len(v.defects) == 0
	hasEdgeOrOutput := false
	for i := range ns {
		if len(ns[i].deps) > 0 || len(ns[i].s.Outs) > 0 || ns[i].s.Bin != "" {
			hasEdgeOrOutput = true
		}
	}
	if hasEdgeOrOutput {
		vrep.Nontrivial.Add(graphKey(ns))
	}
	// bookkeeping: the reference itself must be exercised
	if expectAccept {
		st.inc("expect:accept")
		if v.orderedOverlap != "" {
			st.inc("valid:ordered-overlap:" + v.orderedOverlap)
		}
		if v.selfOverlap != "" {
			st.inc("valid:self-overlap:" + v.selfOverlap)
		}
		for _, f := range v.features {
			st.inc("valid:" + f)
		}
	} else {
		st.inc("expect:reject")
		for _, d := range v.defects {
			st.inc("class:" + d)
		}
		if len(v.defects) == 1 {
			st.inc("sole:" + v.defects[0])
		}
	}
	var first result
	for oi, order := range orders {
		r := runPipeline(ns, order)
		st.execs++
		vrep.Outcomes.Add(r.stage + "|" + r.class)
		if oi == 0 {
			first = r
		} else if r.accepted != first.accepted {
			vrep.Violation("order-dependent-verdict", fmt.Sprintf("graph %s: order %v gives %s (%s) but order %v gives %s (%s)", describeGraph(ns), orders[0], first.stage, first.msg, order, r.stage, r.msg), mkReplay(fam, ns, order))
		}
		if strings.HasPrefix(r.stage, "panic") {
			vrep.Violation("panic:"+r.stage, fmt.Sprintf("graph %s: panic %s", describeGraph(ns), r.msg), mkReplay(fam, ns, order))
			continue
		}
		switch {
		case r.accepted && !expectAccept:
			d := primaryDefect(&v)
			vrep.Violation("accepts:"+d, fmt.Sprintf("accepted although the graph has defect(s) %v: %s", v.defects, describeGraph(ns)), mkReplay(fam, ns, order))
			st.inc("viol:accepts:" + d)
		case !r.accepted && expectAccept:
			sig := rejectSignature(&v, r)
			vrep.Violation(sig, fmt.Sprintf("rejected at stage %s although the graph has none of the listed defects: %s ; diagnostic: %s", r.stage, describeGraph(ns), r.msg), mkReplay(fam, ns, order))
			st.inc("viol:" + sig)
		}
	}
	if want := st.samplesWanted; want != nil {
		key := "accept"
		if !expectAccept {
			key = "reject:" + primaryDefect(&v)
		}
		if want[key] && len(ns) >= 2 {
			delete(want, key)
			vrep.Sample(map[string]any{"family": fam, "graph": mkReplay(fam, ns, nil).Graph, "reference_defects": v.defects, "implementation": first.stage + "|" + first.class})
		}
	}
}

func runReplay(raw string) {
	var rc replayCase
	if err := json.Unmarshal([]byte(raw), &rc); err != nil {
		vrep.Broken("bad replay: %v", err)
		return
	}
	var ptrs []*spec
	for i := range rc.Nodes {
		ptrs = append(ptrs, &rc.Nodes[i])
	}
	ns := materialise(ptrs, nil)
	order := rc.Order
	if len(order) != len(ns) {
		order = nil
		for i := range ns {
			order = append(order, i)
		}
	}
	st := &stats{counts: map[string]int64{}}
	checkGraph(st, rc.Family, ns, [][]int{order})
	vrep.Counts(st.evals, st.evals, st.execs, st.evals)
	v := reference(ns)
	vrep.Sample(map[string]any{"graph": describeGraph(ns), "reference_defects": v.defects})
	vrep.Done()
}

func TestVerif(t *testing.T) {
	config.Global.WorkspaceRoot = "/vcheck-c11-ws/root"
	logger = console.NewFromSugared(zap.NewNop().Sugar(), zapcore.ErrorLevel)
	shard, nshards := vrep.Shard()
	if raw := os.Getenv("VERIF_REPLAY"); raw != "" {
		if shard == 0 {
			runReplay(raw)
		} else {
			vrep.Done()
		}
		return
	}
	st := &stats{counts: map[string]int64{}}
	if shard == 0 {
		st.samplesWanted = map[string]bool{"accept": true, "reject:cycle-through-alias": true, "reject:overlap:file-in-dir": true, "reject:testonly-dep:via-alias": true}
	}
	var global int64
	for _, f := range families(vrep.Thorough()) {
		n := f.n
		identity := permutations(n)[0]
		reversed := make([]int, n)
		for i := range reversed {
			reversed[i] = n - 1 - i
		}
		allOrders := [][]int{identity}
		if f.perms {
			allOrders = permutations(n)
		}
		twoOrders := [][]int{identity, reversed}
		idx := make([]int, n)
		cur := make([]*spec, n)
		var ns []mnode
		var famCount int64
		for {
			if global%int64(nshards) == int64(shard) {
				for i := 0; i < n; i++ {
					cur[i] = &f.opts[i][idx[i]]
				}
				ns = materialise(cur, ns)
				orders := allOrders
				// a slice (every 4th graph of this shard) of the non-permuted families is also
				// run in reversed node order: the verdict must not depend on it
				if !f.perms && n > 1 && (global/int64(nshards))%4 == 0 {
					orders = twoOrders
				}
				checkGraph(st, f.name, ns, orders)
				famCount++
			}
			global++
			k := n - 1
			for k >= 0 {
				idx[k]++
				if idx[k] < len(f.opts[k]) {
					break
				}
				idx[k] = 0
				k--
			}
			if k < 0 {
				break
			}
		}
		vrep.AddInt("graphs:"+f.name, famCount)
	}
	vrep.Counts(st.evals, st.evals, st.execs, st.evals)
	keys := make([]string, 0, len(st.counts))
	for k := range st.counts {
		keys = append(keys, k)
	}
	sort.Strings(keys)
	for _, k := range keys {
		vrep.AddInt(k, st.counts[k])
	}
	vrep.Done()
}
