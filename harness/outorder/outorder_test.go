// Package outorder runs the real output.Registry.WriteOutputs for a target with
// several outputs under every order in which its concurrent output writers can
// finish: the output hash of the result (which feeds the cache keys of all
// dependants) must not depend on that order.
package outorder

import (
	"bytes"
	"context"
	"fmt"
	"io"
	"os"
	"path/filepath"
	"sync"
	"testing"
	"time"

	"go.uber.org/zap"
	"go.uber.org/zap/zapcore"

	"grog/internal/caching"
	"grog/internal/config"
	"grog/internal/console"
	"grog/internal/label"
	"grog/internal/model"
	"grog/internal/output"
	"grog/internal/zverif/explore"
	"grog/internal/zverif/vrep"
	"grog/internal/zverif/vs"
)

// pointBackend stores blobs in memory; every operation is a scheduling point,
// which turns the registry's pool workers into managed goroutines.
type pointBackend struct {
	mu    sync.Mutex
	store map[string][]byte
}

func (b *pointBackend) TypeName() string { return "points" }
func (b *pointBackend) Get(ctx context.Context, path, key string) (io.ReadCloser, error) {
	vs.Point("backend.Get")
	b.mu.Lock()
	defer b.mu.Unlock()
	d, ok := b.store[path+"/"+key]
	if !ok {
		return nil, os.ErrNotExist
	}
	return io.NopCloser(bytes.NewReader(d)), nil
}
func (b *pointBackend) Set(ctx context.Context, path, key string, content io.Reader) error {
	vs.Point("backend.Set")
	data, err := io.ReadAll(content)
	if err != nil {
		return err
	}
	vs.Point("backend.Set:commit")
	b.mu.Lock()
	b.store[path+"/"+key] = data
	b.mu.Unlock()
	return nil
}
func (b *pointBackend) Delete(ctx context.Context, path, key string) error { return nil }
func (b *pointBackend) Exists(ctx context.Context, path, key string) (bool, error) {
	vs.Point("backend.Exists")
	b.mu.Lock()
	defer b.mu.Unlock()
	_, ok := b.store[path+"/"+key]
	return ok, nil
}

var nop = console.NewFromSugared(zap.NewNop().Sugar(), zapcore.ErrorLevel)
var scratch string
var first = map[string]string{}

type scenario struct {
	Outputs int    `json:"outputs"`
	Kind    string `json:"kind"` // files | file+dir
}

func (sc scenario) name() string { return fmt.Sprintf("outputs=%d/%s", sc.Outputs, sc.Kind) }

func (sc scenario) run(t *testing.T, cfg vs.Config) explore.Exec {
	ws, _ := os.MkdirTemp(scratch, "ws")
	defer os.RemoveAll(ws)
	config.Global.WorkspaceRoot = ws
	config.Global.Root = filepath.Join(ws, ".root")
	os.MkdirAll(filepath.Join(ws, "p"), 0o755)
	tgt := &model.Target{Label: label.TL("p", "t"), ChangeHash: "ch"}
	for i := 0; i < sc.Outputs; i++ {
		if sc.Kind == "file+dir" && i == 0 {
			os.MkdirAll(filepath.Join(ws, "p", "d0"), 0o755)
			os.WriteFile(filepath.Join(ws, "p", "d0", "f"), []byte("in-dir"), 0o644)
			tgt.Outputs = append(tgt.Outputs, model.NewOutput("dir", "d0"))
			continue
		}
		name := fmt.Sprintf("o%d.txt", i)
		os.WriteFile(filepath.Join(ws, "p", name), []byte(fmt.Sprintf("content-%d", i)), 0o644)
		tgt.Outputs = append(tgt.Outputs, model.NewOutput("file", name))
	}
	var hash string
	var werr error
	res := vs.Run(t, cfg, func() {
		ctx := console.WithLogger(context.Background(), nop)
		be := &pointBackend{store: map[string][]byte{}}
		reg := output.NewRegistry(ctx, caching.NewCas(be))
		tr, err := reg.WriteOutputs(ctx, tgt, nil)
		werr = err
		if tr != nil {
			hash = tr.OutputHash
		}
	})
	ex := explore.Exec{Res: res}
	if werr != nil {
		ex.Findings = append(ex.Findings, explore.Finding{Sig: "C09:write-outputs-fails", Detail: werr.Error()})
	}
	if res.Deadlock {
		ex.Findings = append(ex.Findings, explore.Finding{Sig: "C04:write-outputs-never-returns", Detail: fmt.Sprint(res.Blocked)})
	}
	if f, ok := first[sc.name()]; !ok {
		first[sc.name()] = hash
	} else if f != hash && werr == nil {
		ex.Findings = append(ex.Findings, explore.Finding{Sig: "C09:output-hash-depends-on-the-order-in-which-outputs-finish-writing", Detail: fmt.Sprintf("the same %d outputs give output hash %s in the canonical schedule and %s in this one (dependants would get a different cache key: no early cut-off, no sharing)", sc.Outputs, f, hash)})
	}
	ex.Outcome = hash
	ex.Nontrivial = true
	return ex
}

func TestVerif(t *testing.T) {
	base := "/dev/shm"
	if _, err := os.Stat(base); err != nil {
		base = os.TempDir()
	}
	var err error
	scratch, err = os.MkdirTemp(base, "vcheck-outorder-")
	if err != nil {
		vrep.Broken("mkdtemp: %v", err)
		return
	}
	defer os.RemoveAll(scratch)
	config.Global.HashAlgorithm = ""
	bound := vrep.EnvInt("VERIF_BOUND", 2)
	deadline := time.Now().Add(time.Duration(vrep.EnvInt("VERIF_BUDGET_S", 20)) * time.Second)
	scs := []scenario{{2, "files"}, {3, "files"}, {2, "file+dir"}}
	mk := func(sc scenario) explore.Scenario {
		return explore.Scenario{Name: sc.name(), Desc: sc, Run: sc.run, Horizon: 2, MaxSteps: 3000}
	}
	if rp := explore.ReplayFromEnv(); rp != nil {
		for _, sc := range scs {
			if sc.name() == rp.Scenario {
				explore.RunReplay(t, mk(sc), nil) // canonical first (reference hash)
				explore.RunReplay(t, mk(sc), rp.Choices)
			}
		}
		vrep.Done()
		return
	}
	var execs, steps int64
	completed := 0
	for b := 1; b <= bound; b++ {
		done := 0
		for _, sc := range scs {
			if time.Now().After(deadline) {
				continue
			}
			st := explore.Explore(t, mk(sc), explore.Options{Bound: b, Deadline: deadline})
			execs += st.Execs
			steps += st.Steps
			if !st.Capped {
				done++
			}
		}
		if done == len(scs) {
			completed = b
		} else {
			vrep.Cap("output writers: deviation bound %d completed for %d of %d scenarios (bound %d complete for all)", b, done, len(scs), completed)
			break
		}
	}
	vrep.Counts(execs, execs, steps, execs)
	vrep.Set("output_writers_deviation_bound_completed", completed)
	vrep.Done()
}
