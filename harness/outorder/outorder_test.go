// Package outorder runs the real output.Registry.WriteOutputs for a target with
// several outputs under every order in which its concurrent output writers can
// finish: the output hash of the result (which feeds the cache keys of all
// dependants) must not depend on that order.
package outorder

import (
	"bytes"
	"context"
	"fmt"
	"io"
	"os"
	"path/filepath"
	"strings"
	"sync"
	"testing"
	"time"

	"go.uber.org/zap"
	"go.uber.org/zap/zapcore"

	"grog/internal/caching"
	"grog/internal/config"
	"grog/internal/console"
	"grog/internal/label"
	"grog/internal/model"
	"grog/internal/output"
	"grog/internal/proto/gen"
	"grog/internal/zverif/explore"
	"grog/internal/zverif/vrep"
	"grog/internal/zverif/vs"
)

// pointBackend stores blobs in memory; every operation is a scheduling point,
// which turns the registry's pool workers into managed goroutines.
type pointBackend struct {
	mu    sync.Mutex
	store map[string][]byte
	// quiet: no scheduling points (set-up outside the scheduler)
	quiet bool
	// returned: the call under test has returned; operations after that are recorded in late
	returned bool
	late     []string
}

func (b *pointBackend) point(site string) {
	b.mu.Lock()
	q := b.quiet
	if b.returned {
		b.late = append(b.late, site)
	}
	b.mu.Unlock()
	if !q {
		vs.Point(site)
		// the operation is performed now: has the call under test returned in the meantime?
		b.mu.Lock()
		if b.returned && (len(b.late) == 0 || b.late[len(b.late)-1] != site) {
			b.late = append(b.late, site)
		}
		b.mu.Unlock()
	}
}

func (b *pointBackend) TypeName() string { return "points" }
func (b *pointBackend) Get(ctx context.Context, path, key string) (io.ReadCloser, error) {
	b.point("backend.Get")
	b.mu.Lock()
	defer b.mu.Unlock()
	d, ok := b.store[path+"/"+key]
	if !ok {
		return nil, os.ErrNotExist
	}
	return io.NopCloser(bytes.NewReader(d)), nil
}
func (b *pointBackend) Set(ctx context.Context, path, key string, content io.Reader) error {
	b.point("backend.Set")
	data, err := io.ReadAll(content)
	if err != nil {
		return err
	}
	b.point("backend.Set:commit")
	b.mu.Lock()
	b.store[path+"/"+key] = data
	b.mu.Unlock()
	return nil
}
func (b *pointBackend) Delete(ctx context.Context, path, key string) error { return nil }
func (b *pointBackend) Exists(ctx context.Context, path, key string) (bool, error) {
	b.point("backend.Exists")
	b.mu.Lock()
	defer b.mu.Unlock()
	_, ok := b.store[path+"/"+key]
	return ok, nil
}

var nop = console.NewFromSugared(zap.NewNop().Sugar(), zapcore.ErrorLevel)
var scratch string
var first = map[string]string{}

type scenario struct {
	Outputs int    `json:"outputs"`
	Kind    string `json:"kind"` // files | file+dir
	// Load: restore the outputs (Registry.LoadOutputs) with the blob of output Missing absent from the cache
	Load    bool `json:"load,omitempty"`
	Missing int  `json:"missing_blob_of_output,omitempty"`
	// NoCache: the output hash of a no-cache target / a build with the cache disabled (Registry.GetNoCacheOutputHash)
	NoCache bool `json:"no_cache_output_hash,omitempty"`
	// Callers > 0: that many goroutines call LoadOutputs for the same target at the same time (nothing is missing)
	Callers int `json:"concurrent_load_callers,omitempty"`
}

func (sc scenario) name() string {
	if sc.Callers > 0 {
		return fmt.Sprintf("load/outputs=%d/%s/callers=%d", sc.Outputs, sc.Kind, sc.Callers)
	}
	if sc.Load {
		return fmt.Sprintf("load/outputs=%d/%s/missing=%d", sc.Outputs, sc.Kind, sc.Missing)
	}
	if sc.NoCache {
		return fmt.Sprintf("no-cache-hash/outputs=%d/%s", sc.Outputs, sc.Kind)
	}
	return fmt.Sprintf("outputs=%d/%s", sc.Outputs, sc.Kind)
}

// runLoad: the outputs are written to the cache outside the scheduler, one blob is removed, the workspace
// copies are deleted; then the real Registry.LoadOutputs runs under the scheduler. It has to report the
// missing blob, and when it returns none of its loaders may still be running: the caller reacts to the
// error by re-executing the target, whose command would race with a restore that is still in progress.
func (sc scenario) runLoad(t *testing.T, cfg vs.Config, ws string, tgt *model.Target, contents []string) explore.Exec {
	ctx := console.WithLogger(context.Background(), nop)
	be := &pointBackend{store: map[string][]byte{}}
	var tr *gen.TargetResult
	var err error
	// set-up under the canonical schedule: the order of the outputs in the stored result is then the same in every execution
	vs.Run(t, vs.Config{Horizon: cfg.Horizon, MaxSteps: cfg.MaxSteps}, func() {
		tr, err = output.NewRegistry(ctx, caching.NewCas(be)).WriteOutputs(ctx, tgt, nil)
	})
	if err != nil || tr == nil {
		return explore.Exec{Res: &vs.Result{}, Findings: []explore.Finding{{Sig: "LOAD:set-up-write-fails", Detail: fmt.Sprint(err)}}}
	}
	if sc.Callers > 0 {
		return sc.runConcurrentLoad(t, cfg, ws, tgt, contents, be, tr)
	}
	removed := 0
	for k, v := range be.store {
		if string(v) == contents[sc.Missing] {
			delete(be.store, k)
			removed++
		}
	}
	os.RemoveAll(filepath.Join(ws, "p"))
	os.MkdirAll(filepath.Join(ws, "p"), 0o755)
	tgt.OutputsLoaded = false
	var lerr error
	res := vs.Run(t, cfg, func() {
		reg := output.NewRegistry(ctx, caching.NewCas(be))
		lerr = reg.LoadOutputs(ctx, tgt, tr, nil)
		be.mu.Lock()
		be.returned = true
		be.mu.Unlock()
	})
	ex := explore.Exec{Res: res}
	if removed != 1 {
		ex.Findings = append(ex.Findings, explore.Finding{Sig: "LOAD:set-up-broken", Detail: fmt.Sprintf("%d blobs with content %q", removed, contents[sc.Missing])})
	}
	if res.Deadlock {
		ex.Findings = append(ex.Findings, explore.Finding{Sig: "LOAD:load-outputs-never-returns", Detail: fmt.Sprint(res.Blocked)})
	} else if lerr == nil {
		ex.Findings = append(ex.Findings, explore.Finding{Sig: "LOAD:load-outputs-succeeds-although-a-blob-is-missing", Detail: fmt.Sprintf("the blob of output %d is not in the cache but LoadOutputs returned nil", sc.Missing)})
	}
	be.mu.Lock()
	late := append([]string{}, be.late...)
	be.mu.Unlock()
	if len(late) > 0 {
		ex.Findings = append(ex.Findings, explore.Finding{Sig: "LOAD:load-outputs-returns-while-its-loaders-still-run", Detail: fmt.Sprintf("LoadOutputs returned (%v) and afterwards loaders of the same target performed %v: the caller re-executes the target on this error, so the command races with a restore that still removes / writes the output paths", lerr, late)})
	}
	ex.Outcome = fmt.Sprintf("err=%v late=%d", lerr != nil, len(late))
	ex.Nontrivial = true
	return ex
}

// runConcurrentLoad: several dependants need the outputs of the same dependency at the same time (load_outputs=minimal):
// whenever one LoadOutputs call returns nil, every output of the target is completely restored at that moment.
func (sc scenario) runConcurrentLoad(t *testing.T, cfg vs.Config, ws string, tgt *model.Target, contents []string, be *pointBackend, tr *gen.TargetResult) explore.Exec {
	ctx := console.WithLogger(context.Background(), nop)
	os.RemoveAll(filepath.Join(ws, "p"))
	os.MkdirAll(filepath.Join(ws, "p"), 0o755)
	tgt.OutputsLoaded = false
	var mu sync.Mutex
	var problems []string
	check := func(caller int) {
		for i := range contents {
			p := filepath.Join(ws, "p", fmt.Sprintf("o%d.txt", i))
			if sc.Kind == "file+dir" && i == 0 {
				p = filepath.Join(ws, "p", "d0", "f")
			}
			b, err := os.ReadFile(p)
			if err != nil || string(b) != contents[i] {
				mu.Lock()
				problems = append(problems, fmt.Sprintf("caller %d returned nil but %s is %q (%v), expected %q", caller, strings.TrimPrefix(p, ws+"/"), b, err, contents[i]))
				mu.Unlock()
			}
		}
	}
	var errs []error
	res := vs.Run(t, cfg, func() {
		reg := output.NewRegistry(ctx, caching.NewCas(be))
		var wg sync.WaitGroup
		for c := 0; c < sc.Callers; c++ {
			c := c
			wg.Add(1)
			vs.Go(fmt.Sprintf("dependant%d", c), func() {
				defer wg.Done()
				err := reg.LoadOutputs(ctx, tgt, tr, nil)
				if err == nil {
					check(c)
				} else {
					mu.Lock()
					errs = append(errs, err)
					mu.Unlock()
				}
			})
		}
		wg.Wait()
	})
	ex := explore.Exec{Res: res}
	if res.Deadlock {
		ex.Findings = append(ex.Findings, explore.Finding{Sig: "LOAD:load-outputs-never-returns", Detail: fmt.Sprint(res.Blocked)})
	}
	for _, p := range res.Panics {
		ex.Findings = append(ex.Findings, explore.Finding{Sig: "LOAD:panic", Detail: p})
	}
	if len(errs) > 0 {
		ex.Findings = append(ex.Findings, explore.Finding{Sig: "LOAD:load-outputs-fails-although-nothing-is-missing", Detail: fmt.Sprint(errs)})
	}
	if len(problems) > 0 {
		ex.Findings = append(ex.Findings, explore.Finding{Sig: "LOAD:load-outputs-returns-before-the-outputs-are-restored", Detail: strings.Join(problems, "; ") + " (the dependant's command would read a missing or partial dependency output)"})
	}
	ex.Outcome = fmt.Sprintf("errs=%d problems=%d", len(errs), len(problems))
	ex.Nontrivial = true
	return ex
}

func (sc scenario) run(t *testing.T, cfg vs.Config) explore.Exec {
	ws, _ := os.MkdirTemp(scratch, "ws")
	defer os.RemoveAll(ws)
	config.Global.WorkspaceRoot = ws
	config.Global.Root = filepath.Join(ws, ".root")
	os.MkdirAll(filepath.Join(ws, "p"), 0o755)
	tgt := &model.Target{Label: label.TL("p", "t"), ChangeHash: "ch"}
	var contents []string
	for i := 0; i < sc.Outputs; i++ {
		if sc.Kind == "file+dir" && i == 0 {
			os.MkdirAll(filepath.Join(ws, "p", "d0"), 0o755)
			os.WriteFile(filepath.Join(ws, "p", "d0", "f"), []byte("in-dir"), 0o644)
			tgt.Outputs = append(tgt.Outputs, model.NewOutput("dir", "d0"))
			contents = append(contents, "in-dir")
			continue
		}
		name := fmt.Sprintf("o%d.txt", i)
		os.WriteFile(filepath.Join(ws, "p", name), []byte(fmt.Sprintf("content-%d", i)), 0o644)
		tgt.Outputs = append(tgt.Outputs, model.NewOutput("file", name))
		contents = append(contents, fmt.Sprintf("content-%d", i))
	}
	if sc.Load {
		return sc.runLoad(t, cfg, ws, tgt, contents)
	}
	var hash string
	var werr, validationErr error
	res := vs.Run(t, cfg, func() {
		ctx := console.WithLogger(context.Background(), nop)
		be := &pointBackend{store: map[string][]byte{}}
		reg := output.NewRegistry(ctx, caching.NewCas(be))
		var tr *gen.TargetResult
		var err error
		if sc.NoCache {
			tr, err = reg.GetNoCacheOutputHash(ctx, tgt)
		} else {
			tr, err = reg.WriteOutputs(ctx, tgt, nil)
		}
		werr = err
		if tr != nil && !sc.NoCache {
			// whatever order the writers finished in, the stored result must be accepted when it is loaded
			if verr := reg.ValidateTargetResult(tgt, tr); verr != nil {
				validationErr = verr
			}
		}
		if tr != nil {
			hash = tr.OutputHash
		}
	})
	ex := explore.Exec{Res: res}
	if werr != nil {
		ex.Findings = append(ex.Findings, explore.Finding{Sig: "C09:write-outputs-fails", Detail: werr.Error()})
	}
	if res.Deadlock {
		ex.Findings = append(ex.Findings, explore.Finding{Sig: "C04:write-outputs-never-returns", Detail: fmt.Sprint(res.Blocked)})
	}
	if validationErr != nil {
		ex.Findings = append(ex.Findings, explore.Finding{Sig: "C09:stored-result-rejected-depending-on-the-order-in-which-outputs-finish-writing", Detail: fmt.Sprintf("WriteOutputs succeeded but the result it stored is rejected when it is loaded (the target re-executes on every later cache hit): %v", validationErr)})
	}
	if f, ok := first[sc.name()]; !ok {
		first[sc.name()] = hash
	} else if f != hash && werr == nil {
		ex.Findings = append(ex.Findings, explore.Finding{Sig: "C09:output-hash-depends-on-the-order-in-which-outputs-finish-writing", Detail: fmt.Sprintf("the same %d outputs give output hash %s in the canonical schedule and %s in this one (dependants would get a different cache key: no early cut-off, no sharing)", sc.Outputs, f, hash)})
	}
	ex.Outcome = hash
	ex.Nontrivial = true
	return ex
}

func TestVerif(t *testing.T) {
	base := "/dev/shm"
	if _, err := os.Stat(base); err != nil {
		base = os.TempDir()
	}
	var err error
	scratch, err = os.MkdirTemp(base, "vcheck-outorder-")
	if err != nil {
		vrep.Broken("mkdtemp: %v", err)
		return
	}
	defer os.RemoveAll(scratch)
	config.Global.HashAlgorithm = ""
	bound := vrep.EnvInt("VERIF_BOUND", 2)
	deadline := time.Now().Add(time.Duration(vrep.EnvInt("VERIF_BUDGET_S", 20)) * time.Second)
	scs := []scenario{{Outputs: 2, Kind: "files"}, {Outputs: 3, Kind: "files"}, {Outputs: 2, Kind: "file+dir"},
		{Outputs: 2, Kind: "files", NoCache: true}, {Outputs: 3, Kind: "files", NoCache: true}, {Outputs: 2, Kind: "file+dir", NoCache: true}}
	if os.Getenv("VERIF_OUTORDER_MODE") == "load" {
		scs = nil
		for _, k := range []scenario{{Outputs: 2, Kind: "files"}, {Outputs: 3, Kind: "files"}, {Outputs: 2, Kind: "file+dir"}} {
			for m := 0; m < k.Outputs; m++ {
				scs = append(scs, scenario{Outputs: k.Outputs, Kind: k.Kind, Load: true, Missing: m})
			}
		}
		scs = append(scs, scenario{Outputs: 2, Kind: "files", Load: true, Callers: 2}, scenario{Outputs: 2, Kind: "file+dir", Load: true, Callers: 2}, scenario{Outputs: 1, Kind: "files", Load: true, Callers: 3})
	}
	mk := func(sc scenario) explore.Scenario {
		return explore.Scenario{Name: sc.name(), Desc: sc, Run: sc.run, Horizon: 2, MaxSteps: 3000}
	}
	if rp := explore.ReplayFromEnv(); rp != nil {
		for _, sc := range scs {
			if sc.name() == rp.Scenario {
				explore.RunReplay(t, mk(sc), nil) // canonical first (reference hash)
				explore.RunReplay(t, mk(sc), rp.Choices)
			}
		}
		vrep.Done()
		return
	}
	var execs, steps int64
	completed := 0
	for b := 1; b <= bound; b++ {
		done := 0
		for _, sc := range scs {
			if time.Now().After(deadline) {
				continue
			}
			st := explore.Explore(t, mk(sc), explore.Options{Bound: b, Deadline: deadline})
			execs += st.Execs
			steps += st.Steps
			if !st.Capped {
				done++
			}
		}
		if done == len(scs) {
			completed = b
		} else {
			vrep.Cap("output writers: deviation bound %d completed for %d of %d scenarios (bound %d complete for all)", b, done, len(scs), completed)
			break
		}
	}
	vrep.Counts(execs, execs, steps, execs)
	vrep.Set("output_writers_deviation_bound_completed", completed)
	vrep.Done()
}
