#!/usr/bin/env python3
"""Evaluates one seeded property-breaking change (from an independent sub-agent):
  tools_seed.py <seed-id> <mutant-dir> <property> --checks C01,C15 [--gotest <file>:<pkgdir>:<run-regex>] [--sh <script>] [--needs "..."]
Steps (all in a scratch worktree of /repo, never in /repo itself):
  1. apply patch.diff, go build ./..., run the repository's baseline tests (must all pass)
  2. run the demonstration with the change (must fail) and without it (must pass)
  3. run the named checks against the change through VERIF_EXTRA_OVERLAY (mutated files only)
  4. store patch, demonstration and meta.json under /verif/seeded/<seed-id>/, remove the worktree
"""
import argparse, json, os, shutil, subprocess, sys, tempfile, time

ap = argparse.ArgumentParser()
ap.add_argument('seed'); ap.add_argument('dir'); ap.add_argument('prop')
ap.add_argument('--checks', default='')
ap.add_argument('--gotest'); ap.add_argument('--sh'); ap.add_argument('--sharg', default='bin', help='bin: pass the built binary as $1; wt: pass the worktree as $1 (GROG env is always set to the binary)'); ap.add_argument('--needs', default='')
ap.add_argument('--tier', default='quick'); ap.add_argument('--skip-confirm', action='store_true')
a = ap.parse_args()

env = dict(os.environ, GOFLAGS='-mod=mod', GOPROXY='off')
wt = tempfile.mkdtemp(prefix='seedwt-', dir='/tmp')
os.rmdir(wt)
def sh(cmd, cwd=None, check=True, timeout=3600):
    p = subprocess.run(cmd, cwd=cwd, env=env, capture_output=True, text=True, timeout=timeout)
    if check and p.returncode != 0:
        print('FAILED:', cmd, p.stdout[-2000:], p.stderr[-2000:]); cleanup(); sys.exit(2)
    return p
def cleanup():
    subprocess.run(['git', '-C', '/repo', 'worktree', 'remove', '--force', wt], capture_output=True)
    shutil.rmtree(wt, ignore_errors=True)

sh(['git', '-C', '/repo', 'worktree', 'add', '-q', '--detach', wt, 'HEAD'])
patch = os.path.join(a.dir, 'patch.diff')
prev_meta = {}
if os.path.exists(os.path.join('/verif/seeded', a.seed, 'meta.json')):
    prev_meta = json.load(open(os.path.join('/verif/seeded', a.seed, 'meta.json')))
meta = {'seed': a.seed, 'breaks_property': a.prop, 'needs_to_manifest': a.needs, 'repo_head': sh(['git', '-C', '/repo', 'log', '--format=%h', '-1']).stdout.strip(), 'ran': []}
try:
    def demo(label):
        if a.gotest:
            f, pkgdir, rx = a.gotest.split(':')
            shutil.copy(os.path.join(a.dir, f), os.path.join(wt, pkgdir, os.path.basename(f)))
            p = sh(['go', 'test', '-vet=off', '-count=1', '-run', rx, './' + pkgdir + '/'], cwd=wt, check=False, timeout=1800)
            os.remove(os.path.join(wt, pkgdir, os.path.basename(f)))
            return p.returncode, (p.stdout + p.stderr)[-600:]
        if a.sh:
            binp = os.path.join(wt, 'grog-demo-bin')
            sh(['go', 'build', '-o', binp, '.'], cwd=wt)
            env['GROG'] = binp
            p = sh(['bash', os.path.join(a.dir, a.sh), binp if a.sharg == 'bin' else wt], cwd=a.dir, check=False, timeout=1800)
            env.pop('GROG', None)
            os.remove(binp)
            return p.returncode, (p.stdout + p.stderr)[-600:]
        return None, 'no demonstration given'
    if not a.skip_confirm:
        rc0, out0 = demo('unchanged')
        meta['ran'].append({'cmd': 'demonstration on the unchanged tree', 'exit': rc0, 'tail': out0[-300:]})
    sh(['git', 'apply', patch], cwd=wt)
    changed = [l for l in sh(['git', 'diff', '--name-only'], cwd=wt).stdout.split() if l not in ('go.mod', 'go.sum')]
    new = [l[3:] for l in sh(['git', 'status', '--porcelain'], cwd=wt).stdout.splitlines() if l.startswith('??')]
    meta['files_changed'] = changed + new
    if not a.skip_confirm:
        sh(['go', 'build', './...'], cwd=wt)
        meta['ran'].append({'cmd': 'go build ./...', 'exit': 0})
        p = sh(['python3', '/verif/tools_baseline.py', wt], check=False)
        meta['ran'].append({'cmd': 'tools_baseline.py (167 baseline tests, unedited)', 'exit': p.returncode, 'tail': p.stdout[-300:]})
        if p.returncode != 0:
            # one retry: TestRunWithConcurrentShutdown has a 200 ms wall-clock assertion and flakes under load
            p = sh(['python3', '/verif/tools_baseline.py', wt], check=False)
            meta['ran'].append({'cmd': 'tools_baseline.py (retry)', 'exit': p.returncode, 'tail': p.stdout[-300:]})
        meta['existing_tests_pass'] = p.returncode == 0
        rc1, out1 = demo('mutant')
        meta['ran'].append({'cmd': 'demonstration with the change', 'exit': rc1, 'tail': out1[-300:]})
        meta['demonstration_confirmed'] = (rc0 == 0 and rc1 not in (0, None))
    sh(['git', 'checkout', '--', 'go.mod', 'go.sum'], cwd=wt, check=False)
    ov = os.path.join(wt, 'verif-overlay.json')
    json.dump({'Replace': {'/repo/' + f: os.path.join(wt, f) for f in changed + new}}, open(ov, 'w'))
    results = {}
    for chk in [c for c in a.checks.split(',') if c]:
        t0 = time.time()
        p = subprocess.run(['/verif/build/vcheck', 'run', chk, '--tier', a.tier], cwd='/verif', env=dict(os.environ, VERIF_EXTRA_OVERLAY=ov), capture_output=True, text=True)
        sigs = [l.strip()[len('signature: '):] for l in p.stdout.splitlines() if l.strip().startswith('signature: ')]
        results[chk] = {'exit': p.returncode, 'caught': p.returncode == 1, 'signatures': sigs[:8], 'wall_s': round(time.time() - t0, 1)}
        if p.returncode == 2:
            results[chk]['broken'] = [l for l in p.stdout.splitlines() if 'BROKEN' in l][:3]
        print(chk, results[chk])
    if a.skip_confirm and prev_meta:
        for k in ('ran', 'existing_tests_pass', 'demonstration_confirmed', 'needs_to_manifest'):
            if k in prev_meta and (k != 'needs_to_manifest' or not a.needs):
                meta[k] = prev_meta[k]
        merged = dict(prev_meta.get('checks', {}))
        for c_, r_ in results.items():
            if c_ in merged and merged[c_].get('caught') is False and r_['caught']:
                r_['note'] = 'missed before the check was strengthened; caught now'
            merged[c_] = r_
        results = merged
    meta['checks'] = results
    meta['caught_by'] = [c for c, r in results.items() if r['caught']]
finally:
    cleanup()
out = os.path.join('/verif/seeded', a.seed)
os.makedirs(out, exist_ok=True)
if os.path.realpath(a.dir) != os.path.realpath(out):
    shutil.copy(patch, os.path.join(out, 'patch.diff'))
    for f in os.listdir(a.dir):
        if f.endswith('_test.go') or f.endswith('.sh') or f == 'notes.md':
            shutil.copy(os.path.join(a.dir, f), os.path.join(out, f))
json.dump(meta, open(os.path.join(out, 'meta.json'), 'w'), indent=1)
print(json.dumps({k: meta.get(k) for k in ('seed', 'existing_tests_pass', 'demonstration_confirmed', 'caught_by')}))
