// vcheck is the driver of the grog verification machinery: `vcheck run <ID>
// --tier quick|thorough` decides one property by bounded exhaustive exploration
// of the real code built from /repo's current working tree.
package main

import (
	"flag"
	"fmt"
	"os"
	"sort"

	"verif/internal/checks"
	"verif/internal/vc"
)

func usage() {
	fmt.Fprintln(os.Stderr, "usage: vcheck setup | list | run <ID> [--tier quick|thorough] | replay <file>")
	os.Exit(2)
}

func main() {
	if len(os.Args) < 2 {
		usage()
	}
	switch os.Args[1] {
	case "setup":
		if err := vc.PrepareBuildDirs(); err != nil {
			fmt.Fprintln(os.Stderr, err)
			os.Exit(2)
		}
		if err := checks.Setup(); err != nil {
			fmt.Fprintln(os.Stderr, err)
			os.Exit(2)
		}
	case "list":
		ids := make([]string, 0)
		for id := range checks.Registry {
			ids = append(ids, id)
		}
		sort.Strings(ids)
		for _, id := range ids {
			fmt.Println(id)
		}
	case "run":
		if len(os.Args) < 3 {
			usage()
		}
		id := os.Args[2]
		fs := flag.NewFlagSet("run", flag.ExitOnError)
		tier := fs.String("tier", "", "quick or thorough")
		fs.Parse(os.Args[3:])
		if *tier == "" {
			*tier = os.Getenv("VERIF_TIER")
		}
		if *tier != "thorough" {
			*tier = "quick"
		}
		fn, ok := checks.Registry[id]
		if !ok {
			fmt.Fprintf(os.Stderr, "unknown check %s\n", id)
			os.Exit(2)
		}
		if err := vc.PrepareBuildDirs(); err != nil {
			fmt.Fprintln(os.Stderr, err)
			os.Exit(2)
		}
		os.Setenv("VERIF_TIER", *tier)
		r := vc.NewReport(id, *tier)
		fn(&checks.Ctx{R: r, Tier: *tier, Thorough: *tier == "thorough", Args: fs.Args()})
		code := r.Finish()
		vc.CleanupIsolated()
		os.Exit(code)
	case "replay":
		if len(os.Args) < 3 {
			usage()
		}
		os.Exit(checks.Replay(os.Args[2]))
	default:
		usage()
	}
}
