#!/usr/bin/env python3
"""Generates MANIFEST.json from the table below (kept in one place so that the
manifest always stays schema-valid)."""
import json, sys

CHECKS = {}

def chk(pid, engine, technique, text, note, design):
    CHECKS[pid] = dict(engine=engine, technique=technique, text=text, note=note, design=design)

exec(open('/verif/manifest_table.py').read())

props = [json.loads(l)['id'] for l in open('/verif/properties.jsonl')]
not_applicable = NOT_APPLICABLE
checks = []
for pid in props:
    if pid not in CHECKS:
        continue
    c = CHECKS[pid]
    checks.append({
        "property_id": pid,
        "quick_cmd": f"./build/vcheck run {pid} --tier quick",
        "thorough_cmd": f"./build/vcheck run {pid} --tier thorough",
        "evidence_file": f"/verif/evidence/{pid}.json",
        "replay_cmd_template": "./build/vcheck replay {path}",
        "engine": c["engine"],
        "level_claimed": {"category": "model_checking", "text": c["text"], "design_ref": c["design"]},
        "level_note": c["note"],
        "technique": c["technique"],
    })
na = [{"property_id": p, "reason": r} for p, r in not_applicable.items() if p not in CHECKS]
for pid in props:
    if pid not in CHECKS and pid not in not_applicable:
        na.append({"property_id": pid, "reason": "check not built yet (work in progress); see DESIGN.md section 4 for the planned bounded-exhaustive check"})
manifest = {
    "version": 1,
    "setup_cmd": "cd /verif && go build -o build/vcheck ./cmd/vcheck && ./build/vcheck setup",
    "hooks": {
        "guard": "verif-overlay (no hook is committed to /repo: instrumentation is injected with `go build -overlay` from /verif at check time)",
        "enable": "vcheck generates instrumented copies of repo files and virtual harness packages under /verif/build/overlay and passes -overlay to go build/test; /repo itself is never modified",
        "baseline_off_cmd": "cd /repo && mkdir -p /verif/build/mod && cp go.mod go.sum /verif/build/mod/ && GOFLAGS=-mod=mod GOPROXY=off go test -modfile=/verif/build/mod/go.mod -vet=off -count=1 ./...",
        "source_commits": [],
        "add_only": True,
    },
    "engines": ENGINES,
    "checks": checks,
    "not_applicable": na,
    "notes": NOTES,
}
json.dump(manifest, open('/verif/MANIFEST.json', 'w'), indent=1)
print("checks:", len(checks), "not_applicable:", len(na))
