package instr

import (
	"bytes"
	"fmt"
	"go/ast"
	"go/parser"
	"go/token"
	"strconv"
)

// InsertAtFuncStart returns src with stmt inserted as the first statement of
// every function or method named funcName; importPath (may be empty) is added
// to the file's imports if missing. Done by splicing text so that the rest of
// the file stays byte-identical.
func InsertAtFuncStart(src []byte, funcName, stmt, importPath string) ([]byte, error) {
	fset := token.NewFileSet()
	f, err := parser.ParseFile(fset, "x.go", src, parser.SkipObjectResolution)
	if err != nil {
		return nil, err
	}
	type ins struct {
		off  int
		text string
	}
	var edits []ins
	for _, d := range f.Decls {
		if fd, ok := d.(*ast.FuncDecl); ok && fd.Name.Name == funcName && fd.Body != nil {
			edits = append(edits, ins{fset.Position(fd.Body.Lbrace).Offset + 1, "\n" + stmt + "\n"})
		}
	}
	if len(edits) == 0 {
		return nil, fmt.Errorf("function %s not found", funcName)
	}
	if importPath != "" {
		has := false
		for _, imp := range f.Imports {
			if p, _ := strconv.Unquote(imp.Path.Value); p == importPath {
				has = true
			}
		}
		if !has {
			edits = append(edits, ins{fset.Position(f.Name.End()).Offset, "\nimport " + strconv.Quote(importPath) + "\n"})
		}
	}
	// apply from the back
	for i := 0; i < len(edits); i++ {
		for j := i + 1; j < len(edits); j++ {
			if edits[j].off > edits[i].off {
				edits[i], edits[j] = edits[j], edits[i]
			}
		}
	}
	out := append([]byte{}, src...)
	for _, e := range edits {
		out = append(out[:e.off], append([]byte(e.text), out[e.off:]...)...)
	}
	if _, err := parser.ParseFile(token.NewFileSet(), "x.go", out, 0); err != nil {
		return nil, fmt.Errorf("result does not parse: %v", err)
	}
	return bytes.Clone(out), nil
}
