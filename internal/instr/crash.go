package instr

import (
	"fmt"
	"go/ast"
	"go/parser"
	"go/token"
	"path/filepath"
	"sort"
	"strconv"
)

// InsertCrashPoints returns src with `vfault.Point("<file>:<line>:<call>")`
// inserted before every statement that performs a file-system / copy call
// (os.X(...), io.Copy(...), x.Chmod / x.Close / x.Write on anything) in the
// given file. Text is spliced, the rest of the file stays byte-identical.
func InsertCrashPoints(srcPath string, src []byte) ([]byte, int, error) {
	fset := token.NewFileSet()
	f, err := parser.ParseFile(fset, srcPath, src, parser.SkipObjectResolution)
	if err != nil {
		return nil, 0, err
	}
	base := filepath.Base(srcPath)
	type ins struct {
		off  int
		text string
	}
	var edits []ins
	callName := func(n ast.Node) string {
		name := ""
		ast.Inspect(n, func(x ast.Node) bool {
			if name != "" {
				return false
			}
			switch x := x.(type) {
			case *ast.FuncLit:
				return false
			case *ast.CallExpr:
				if sel, ok := x.Fun.(*ast.SelectorExpr); ok {
					if id, ok := sel.X.(*ast.Ident); ok && (id.Name == "os" || (id.Name == "io" && sel.Sel.Name == "Copy")) {
						switch sel.Sel.Name {
						case "IsNotExist", "Getenv", "Getpid", "Getwd", "Environ", "FileMode", "ModeSymlink":
							return true
						}
						name = id.Name + "." + sel.Sel.Name
						return false
					}
					switch sel.Sel.Name {
					case "Chmod":
						name = "." + sel.Sel.Name
						return false
					}
				}
			}
			return true
		})
		return name
	}
	var visitList func(list []ast.Stmt)
	var visitStmt func(s ast.Stmt)
	visitList = func(list []ast.Stmt) {
		for _, s := range list {
			switch st := s.(type) {
			case *ast.DeferStmt, *ast.GoStmt:
				// the call happens later; function literals inside are visited below
			case *ast.IfStmt:
				hdr := ""
				if st.Init != nil {
					hdr = callName(st.Init)
				}
				if hdr == "" {
					hdr = callName(st.Cond)
				}
				if hdr != "" {
					edits = append(edits, ins{fset.Position(s.Pos()).Offset, fmt.Sprintf("vfault.Point(%q)\n", fmt.Sprintf("%s:%d:%s", base, fset.Position(s.Pos()).Line, hdr))})
				}
			case *ast.ExprStmt, *ast.AssignStmt, *ast.ReturnStmt, *ast.DeclStmt:
				if n := callName(s); n != "" {
					edits = append(edits, ins{fset.Position(s.Pos()).Offset, fmt.Sprintf("vfault.Point(%q)\n", fmt.Sprintf("%s:%d:%s", base, fset.Position(s.Pos()).Line, n))})
				}
			}
			visitStmt(s)
		}
	}
	visitStmt = func(s ast.Stmt) {
		switch st := s.(type) {
		case *ast.BlockStmt:
			visitList(st.List)
		case *ast.IfStmt:
			visitList(st.Body.List)
			if st.Else != nil {
				visitStmt(st.Else)
			}
		case *ast.ForStmt:
			visitList(st.Body.List)
		case *ast.RangeStmt:
			visitList(st.Body.List)
		case *ast.SwitchStmt:
			for _, c := range st.Body.List {
				visitList(c.(*ast.CaseClause).Body)
			}
		case *ast.TypeSwitchStmt:
			for _, c := range st.Body.List {
				visitList(c.(*ast.CaseClause).Body)
			}
		case *ast.SelectStmt:
			for _, c := range st.Body.List {
				visitList(c.(*ast.CommClause).Body)
			}
		case *ast.LabeledStmt:
			visitStmt(st.Stmt)
		default:
			// function literals inside simple statements (go func(){...}(), defer func(){...}(), x := func(){...})
			ast.Inspect(s, func(x ast.Node) bool {
				if fl, ok := x.(*ast.FuncLit); ok {
					visitList(fl.Body.List)
					return false
				}
				return true
			})
		}
	}
	for _, d := range f.Decls {
		if fd, ok := d.(*ast.FuncDecl); ok && fd.Body != nil {
			visitList(fd.Body.List)
		}
	}
	if len(edits) == 0 {
		return src, 0, nil
	}
	has := false
	for _, imp := range f.Imports {
		if p, _ := strconv.Unquote(imp.Path.Value); p == "grog/internal/zverif/vfault" {
			has = true
		}
	}
	n := len(edits)
	if !has {
		edits = append(edits, ins{fset.Position(f.Name.End()).Offset, "\nimport \"grog/internal/zverif/vfault\"\n"})
	}
	sort.SliceStable(edits, func(i, j int) bool { return edits[i].off > edits[j].off })
	out := append([]byte{}, src...)
	for _, e := range edits {
		out = append(out[:e.off], append([]byte(e.text), out[e.off:]...)...)
	}
	if _, err := parser.ParseFile(token.NewFileSet(), srcPath, out, 0); err != nil {
		return nil, 0, fmt.Errorf("crash-point instrumentation of %s does not parse: %v", srcPath, err)
	}
	return out, n, nil
}
