package instr

import (
	"go/ast"
	"go/importer"
	"go/parser"
	"go/token"
	"go/types"
	"strings"
	"testing"
)

const tricky = `//go:build linux || darwin

// Package doc.
package tricky // trailing comment

import (
	"fmt"
	"sort"
)

import "strings"

type Set[K comparable, V any] struct{ m map[K]V }

func (s *Set[K, V]) Put(k K, v V) { s.m[k] = v }

func (s Set[K, V]) Len() int {
	// leading comment
	return len(s.m)
}

func Map[T, U any](xs []T, f func(T) U) []U {
	var out []U
	for _, x := range xs {
		out = append(out, f(x))
	}
	return out
}

type G struct{ out map[int][]int }

//go:noinline
func (g *G) Walk(start int) []int {
	var order []int
	seen := map[int]bool{}
	var dfs func(n int)
	dfs = func(n int) {
		if seen[n] {
			return
		}
		seen[n] = true
		order = append(order, n)
		for _, m := range g.out[n] {
			dfs(m)
		}
	}
	dfs(start)
	less := func(i, j int) bool { return order[i] < order[j] }
	sort.Slice(order, less)
	sort.Slice(order, func(i, j int) bool { return order[i] < order[j] }) // anonymous: not instrumented
	return order
}

var pkgLevel = func() string { return strings.ToUpper("x") }

var vcount = 3 // identifier clash with the default import alias

func empty() {}

func external(x int) int // no body

func init() { fmt.Sprint(vcount, pkgLevel(), empty, external) }
`

type fakeImporter struct{ def types.Importer }

func (f fakeImporter) Import(p string) (*types.Package, error) {
	if p == VcountImport {
		pkg := types.NewPackage(p, "vcount")
		sig := types.NewSignatureType(nil, nil, nil, types.NewTuple(types.NewVar(token.NoPos, pkg, "name", types.Typ[types.String])), nil, false)
		pkg.Scope().Insert(types.NewFunc(token.NoPos, pkg, "Enter", sig))
		pkg.MarkComplete()
		return pkg, nil
	}
	return f.def.Import(p)
}

func TestInstrumentCounts(t *testing.T) {
	out, err := InstrumentCountsSource("tricky.go", []byte(tricky), "grog/internal/tricky")
	if err != nil {
		t.Fatal(err)
	}
	s := string(out)
	if strings.Count(s, "\n") != strings.Count(tricky, "\n") {
		t.Errorf("line count changed")
	}
	if !strings.HasPrefix(s, "//go:build linux || darwin\n") {
		t.Errorf("build tag not preserved")
	}
	for _, want := range []string{
		`vcount_0.Enter("tricky.Set.Put")`, `vcount_0.Enter("tricky.Set.Len")`, `vcount_0.Enter("tricky.Map")`,
		`vcount_0.Enter("tricky.G.Walk")`, `vcount_0.Enter("tricky.G.Walk.dfs")`, `vcount_0.Enter("tricky.G.Walk.less")`,
		`vcount_0.Enter("tricky.pkgLevel")`, `vcount_0.Enter("tricky.empty")`, `vcount_0.Enter("tricky.init")`,
		`import vcount_0 "` + VcountImport + `"`,
	} {
		if strings.Count(s, want) != 1 {
			t.Errorf("expected exactly one %q in\n%s", want, s)
		}
	}
	if n := strings.Count(s, ".Enter("); n != 9 {
		t.Errorf("expected 9 instrumented bodies, got %d", n)
	}
	fset := token.NewFileSet()
	f, err := parser.ParseFile(fset, "tricky.go", out, parser.ParseComments)
	if err != nil {
		t.Fatal(err)
	}
	conf := types.Config{Importer: fakeImporter{importer.ForCompiler(fset, "source", nil)}}
	if _, err := conf.Check("grog/internal/tricky", fset, []*ast.File{f}, nil); err != nil {
		t.Errorf("instrumented file does not type-check: %v\n%s", err, s)
	}
	// a file without function bodies stays untouched
	plain := "package p\n\nconst X = 1\n"
	out, err = InstrumentCountsSource("p.go", []byte(plain), "")
	if err != nil || string(out) != plain {
		t.Errorf("file without functions changed: %v %q", err, out)
	}
}
