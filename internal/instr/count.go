// Package instr holds source-level instrumenters whose output is injected into
// the build through the go build overlay (never written to /repo).
package instr

import (
	"bytes"
	"fmt"
	"go/ast"
	"go/parser"
	"go/printer"
	"go/token"
	"os"
	"path"
	"sort"
	"strconv"
	"strings"
)

// VcountImport is the import path of the counter package (a virtual package
// provided through the overlay from /verif/harness/vcount).
const VcountImport = "grog/internal/zverif/vcount"

// InstrumentCounts returns a copy of the Go source file srcPath in which every
// function and method declaration, and every function literal bound to a name
// (`name := func…`, `name = func…`, `var name = func…`; this is how recursive
// closures such as FindCycle's depthFirstSearch are written) and every body of a for / range loop starts with
//
//	vcount.Enter("<pkg>.<Func>")
//
// Naming: "<pkg>.<Func>", "<pkg>.<Recv>.<Method>", and for named closures the
// enclosing function's name followed by ".<var>". <pkg> is the last element of
// pkgImport (or the file's package name if pkgImport is empty).
//
// The AST (go/parser) is used to locate the insertion points and go/printer to
// render the inserted statement/import; the new text is spliced into the
// original bytes on the line of the opening brace / the package clause. All
// other bytes (build tags, //go: directives, comments, cgo preambles, type
// parameters) and all line numbers are therefore preserved exactly. The result
// is re-parsed before it is returned. A file without any function body is
// returned unchanged (an unused import would not compile).
func InstrumentCounts(srcPath string, pkgImport string) ([]byte, error) {
	src, err := os.ReadFile(srcPath)
	if err != nil {
		return nil, err
	}
	return InstrumentCountsSource(srcPath, src, pkgImport)
}

// InstrumentCountsSource is InstrumentCounts on in-memory source.
func InstrumentCountsSource(filename string, src []byte, pkgImport string) ([]byte, error) {
	fset := token.NewFileSet()
	f, err := parser.ParseFile(fset, filename, src, parser.ParseComments|parser.SkipObjectResolution)
	if err != nil {
		return nil, fmt.Errorf("instrument %s: %v", filename, err)
	}
	pkg := f.Name.Name
	if pkgImport != "" {
		pkg = path.Base(pkgImport)
	}
	if pkgImport == VcountImport {
		return src, nil
	}

	// pick an import alias that no identifier of the file uses
	used := map[string]bool{}
	ast.Inspect(f, func(n ast.Node) bool {
		if id, ok := n.(*ast.Ident); ok {
			used[id.Name] = true
		}
		return true
	})
	for _, im := range f.Imports {
		if p, err := strconv.Unquote(im.Path.Value); err == nil && im.Name == nil {
			used[path.Base(p)] = true
		}
	}
	alias := "vcount"
	for i := 0; used[alias]; i++ {
		alias = "vcount_" + strconv.Itoa(i)
	}

	w := &countWalker{fset: fset, alias: alias}
	w.walk(f, pkg)
	if len(w.ins) == 0 {
		return src, nil
	}

	// import: a second import declaration on the line of the package clause
	imp := &ast.GenDecl{Tok: token.IMPORT, Specs: []ast.Spec{&ast.ImportSpec{
		Name: ast.NewIdent(alias),
		Path: &ast.BasicLit{Kind: token.STRING, Value: strconv.Quote(VcountImport)},
	}}}
	impText, err := render(imp)
	if err != nil {
		return nil, err
	}
	w.ins = append(w.ins, insertion{off: fset.Position(f.Name.End()).Offset, text: "; " + impText})

	sort.SliceStable(w.ins, func(i, j int) bool { return w.ins[i].off < w.ins[j].off })
	var out bytes.Buffer
	last := 0
	for _, in := range w.ins {
		if in.off < last || in.off > len(src) {
			return nil, fmt.Errorf("instrument %s: bad insertion offset %d", filename, in.off)
		}
		out.Write(src[last:in.off])
		out.WriteString(in.text)
		last = in.off
	}
	out.Write(src[last:])
	if w.err != nil {
		return nil, w.err
	}
	if _, err := parser.ParseFile(token.NewFileSet(), filename, out.Bytes(), parser.SkipObjectResolution); err != nil {
		return nil, fmt.Errorf("instrument %s: result does not parse: %v", filename, err)
	}
	return out.Bytes(), nil
}

type insertion struct {
	off  int
	text string
}

type countWalker struct {
	fset  *token.FileSet
	alias string
	ins   []insertion
	err   error
	// Names lists the counter names in source order (diagnostics).
	Names []string
}

func render(n ast.Node) (string, error) {
	var b bytes.Buffer
	if err := printer.Fprint(&b, token.NewFileSet(), n); err != nil {
		return "", err
	}
	return strings.TrimSpace(b.String()), nil
}

func (w *countWalker) enter(body *ast.BlockStmt, name string) {
	if body == nil {
		return
	}
	call := &ast.ExprStmt{X: &ast.CallExpr{
		Fun:  &ast.SelectorExpr{X: ast.NewIdent(w.alias), Sel: ast.NewIdent("Enter")},
		Args: []ast.Expr{&ast.BasicLit{Kind: token.STRING, Value: strconv.Quote(name)}},
	}}
	text, err := render(call)
	if err != nil {
		w.err = err
		return
	}
	w.Names = append(w.Names, name)
	w.ins = append(w.ins, insertion{off: w.fset.Position(body.Lbrace).Offset + 1, text: " " + text + ";"})
}

func recvName(e ast.Expr) string {
	switch x := e.(type) {
	case *ast.Ident:
		return x.Name
	case *ast.StarExpr:
		return recvName(x.X)
	case *ast.ParenExpr:
		return recvName(x.X)
	case *ast.IndexExpr: // generic receiver T[P]
		return recvName(x.X)
	case *ast.IndexListExpr: // generic receiver T[P, Q]
		return recvName(x.X)
	}
	return "?"
}

// walk visits n; encl is the name prefix for named closures found directly in n.
func (w *countWalker) walk(n ast.Node, encl string) {
	if n == nil {
		return
	}
	ast.Inspect(n, func(c ast.Node) bool {
		switch x := c.(type) {
		case *ast.FuncDecl:
			name := encl + "." + x.Name.Name
			if x.Recv != nil && len(x.Recv.List) > 0 {
				name = encl + "." + recvName(x.Recv.List[0].Type) + "." + x.Name.Name
			}
			if x.Body != nil {
				w.enter(x.Body, name)
				w.walk(x.Body, name)
			}
			return false
		case *ast.AssignStmt:
			for _, l := range x.Lhs {
				w.walk(l, encl)
			}
			for i, r := range x.Rhs {
				if fl, ok := r.(*ast.FuncLit); ok && len(x.Lhs) == len(x.Rhs) {
					if id, ok := x.Lhs[i].(*ast.Ident); ok && id.Name != "_" {
						name := encl + "." + id.Name
						w.enter(fl.Body, name)
						w.walk(fl.Body, name)
						continue
					}
				}
				w.walk(r, encl)
			}
			return false
		case *ast.ForStmt:
			// every loop iteration counts as well: work that is done by iterating over (or copying) a list
			// whose length grows with the number of paths shows up even when no function is entered more often
			w.enter(x.Body, encl+"#loop")
			return true
		case *ast.RangeStmt:
			w.enter(x.Body, encl+"#loop")
			return true
		case *ast.ValueSpec:
			for i, r := range x.Values {
				if fl, ok := r.(*ast.FuncLit); ok && len(x.Names) == len(x.Values) && x.Names[i].Name != "_" {
					name := encl + "." + x.Names[i].Name
					w.enter(fl.Body, name)
					w.walk(fl.Body, name)
					continue
				}
				w.walk(r, encl)
			}
			return false
		}
		return true
	})
}
