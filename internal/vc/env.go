// Package vc is the driver library shared by all checks: build environment,
// overlay construction, harness compilation, evidence and finding handling.
package vc

import (
	"bytes"
	"encoding/json"
	"fmt"
	"io"
	"os"
	"os/exec"
	"path/filepath"
	"sort"
	"strings"
	"sync"
	"time"
)

const (
	RepoDir  = "/repo"
	VerifDir = "/verif"
)

var (
	BuildDir   = filepath.Join(VerifDir, "build")
	BinDir     = filepath.Join(BuildDir, "bin")
	ModDir     = filepath.Join(BuildDir, "mod")
	OverlayDir = filepath.Join(BuildDir, "overlay")
	HarnessDir = filepath.Join(VerifDir, "harness")
)

// GoEnv returns the environment for every go invocation. GOSUMDB/GOTOOLCHAIN are
// deliberately left alone: the default go (1.23) must auto-switch to the cached
// go1.26.0 toolchain that /repo/go.mod demands, which works offline only when
// neither GOSUMDB=off nor GOTOOLCHAIN=local is set.
func GoEnv() []string {
	env := []string{}
	for _, kv := range os.Environ() {
		k := strings.SplitN(kv, "=", 2)[0]
		switch k {
		case "GOFLAGS", "GOPROXY", "GOSUMDB", "GOTOOLCHAIN", "GOCACHE", "GOWORK", "GOMAXPROCS":
			continue
		}
		env = append(env, kv)
	}
	env = append(env,
		"GOFLAGS=-mod=mod",
		"GOPROXY=off",
		"GOWORK=off",
		"GOCACHE="+filepath.Join(BuildDir, "gocache"),
	)
	return env
}

// isolateForExtraOverlay gives a run with VERIF_EXTRA_OVERLAY its own binary and
// overlay directories, so that trying a mutated tree never clobbers (or picks
// up) the binaries of a concurrent run on the unchanged tree.
func isolateForExtraOverlay() {
	if os.Getenv("VERIF_EXTRA_OVERLAY") == "" {
		return
	}
	x := filepath.Join(BuildDir, fmt.Sprintf("x-%d", os.Getpid()))
	BinDir = filepath.Join(x, "bin")
	OverlayDir = filepath.Join(x, "overlay")
	isolatedDir = x
}

var isolatedDir string

// CleanupIsolated removes the private directories of an extra-overlay run.
func CleanupIsolated() {
	if isolatedDir != "" && os.Getenv("VERIF_KEEP_BUILD") == "" {
		os.RemoveAll(isolatedDir)
	}
}

// PrepareBuildDirs creates the build directories and refreshes the scratch copy
// of go.mod/go.sum (so -mod=mod never rewrites /repo/go.mod).
func PrepareBuildDirs() error {
	isolateForExtraOverlay()
	for _, d := range []string{BuildDir, BinDir, ModDir, OverlayDir, filepath.Join(VerifDir, "evidence"), filepath.Join(VerifDir, "evidence", "replays")} {
		if err := os.MkdirAll(d, 0o755); err != nil {
			return err
		}
	}
	for _, f := range []string{"go.mod", "go.sum"} {
		b, err := os.ReadFile(filepath.Join(RepoDir, f))
		if err != nil {
			return err
		}
		dst := filepath.Join(ModDir, f)
		// the go tool may rewrite the scratch copies; compare against a pristine
		// stamp so that the scratch copy is refreshed only when /repo's changed
		stamp := dst + ".orig"
		old, _ := os.ReadFile(stamp)
		if !bytes.Equal(old, b) {
			if err := os.WriteFile(dst, b, 0o644); err != nil {
				return err
			}
			if err := os.WriteFile(stamp, b, 0o644); err != nil {
				return err
			}
		}
	}
	return nil
}

func ModFileFlag() string { return "-modfile=" + filepath.Join(ModDir, "go.mod") }

// Overlay is a go build overlay under construction.
type Overlay struct {
	Replace map[string]string
}

func NewOverlay() *Overlay { return &Overlay{Replace: map[string]string{}} }

// AddHarness maps every .go file of /verif/harness/<name> to the virtual
// package directory /repo/internal/zverif/<name>.
func (o *Overlay) AddHarness(name string) error {
	src := filepath.Join(HarnessDir, name)
	ents, err := os.ReadDir(src)
	if err != nil {
		return err
	}
	for _, e := range ents {
		if e.IsDir() || !strings.HasSuffix(e.Name(), ".go") {
			continue
		}
		o.Replace[filepath.Join(RepoDir, "internal", "zverif", name, e.Name())] = filepath.Join(src, e.Name())
	}
	return nil
}

// AddFile replaces (or adds) one file of the repo by the given source file.
func (o *Overlay) AddFile(repoRel, srcAbs string) {
	o.Replace[filepath.Join(RepoDir, repoRel)] = srcAbs
}

// AddContent writes content under the overlay scratch dir and maps it.
func (o *Overlay) AddContent(tag, repoRel string, content []byte) error {
	p := filepath.Join(OverlayDir, tag, repoRel)
	if err := os.MkdirAll(filepath.Dir(p), 0o755); err != nil {
		return err
	}
	old, _ := os.ReadFile(p)
	if !bytes.Equal(old, content) {
		if err := os.WriteFile(p, content, 0o644); err != nil {
			return err
		}
	}
	o.Replace[filepath.Join(RepoDir, repoRel)] = p
	return nil
}

// Write emits the overlay JSON. If VERIF_EXTRA_OVERLAY names a JSON file of the
// form {"Replace": {"/repo/<file>": "<replacement>"}} its entries are merged in
// (used to try the checks against mutated copies of repo files without ever
// touching /repo). An extra entry for a file that the check instruments itself
// is applied *before* instrumentation by the instrumenting check (see
// SourceFor), never silently dropped.
func (o *Overlay) Write(tag string) (string, error) {
	p := filepath.Join(OverlayDir, tag+".json")
	merged := map[string]string{}
	for k, v := range ExtraOverlay() {
		merged[k] = v
	}
	for k, v := range o.Replace {
		merged[k] = v
	}
	b, _ := json.MarshalIndent(map[string]any{"Replace": merged}, "", " ")
	old, _ := os.ReadFile(p)
	if !bytes.Equal(old, b) {
		if err := os.WriteFile(p, b, 0o644); err != nil {
			return "", err
		}
	}
	return p, nil
}

var extraOnce sync.Once
var extraOverlay map[string]string

// ExtraOverlay returns the entries of $VERIF_EXTRA_OVERLAY (may be empty).
func ExtraOverlay() map[string]string {
	extraOnce.Do(func() {
		extraOverlay = map[string]string{}
		p := os.Getenv("VERIF_EXTRA_OVERLAY")
		if p == "" {
			return
		}
		b, err := os.ReadFile(p)
		if err != nil {
			Logf("VERIF_EXTRA_OVERLAY unreadable: %v", err)
			return
		}
		var f struct{ Replace map[string]string }
		if err := json.Unmarshal(b, &f); err != nil {
			Logf("VERIF_EXTRA_OVERLAY invalid: %v", err)
			return
		}
		extraOverlay = f.Replace
	})
	return extraOverlay
}

// SourceFor returns the path of the source to use for a repo file: the extra
// overlay's replacement if there is one, else the file in /repo.
func SourceFor(repoRel string) string {
	abs := filepath.Join(RepoDir, repoRel)
	if r, ok := ExtraOverlay()[abs]; ok {
		return r
	}
	return abs
}

var buildMu sync.Mutex

// RunGo runs the go tool in /repo with the verification environment.
func RunGo(args ...string) ([]byte, error) {
	cmd := exec.Command("go", args...)
	cmd.Dir = RepoDir
	cmd.Env = GoEnv()
	var out bytes.Buffer
	cmd.Stdout = &out
	cmd.Stderr = &out
	err := cmd.Run()
	return out.Bytes(), err
}

// BuildHarnessTest compiles the virtual package grog/internal/zverif/<pkg> as a
// test binary. extraTags may add build tags. Returns the binary path.
func BuildHarnessTest(tag string, ov *Overlay, pkg string, race bool) (string, error) {
	buildMu.Lock()
	defer buildMu.Unlock()
	ovPath, err := ov.Write(tag)
	if err != nil {
		return "", err
	}
	bin := filepath.Join(BinDir, tag+".test")
	args := []string{"test", "-c", "-vet=off", ModFileFlag(), "-overlay", ovPath, "-o", bin}
	if race {
		args = append(args, "-race")
	}
	args = append(args, "grog/internal/zverif/"+pkg)
	t0 := time.Now()
	out, err := RunGo(args...)
	if err != nil {
		return "", fmt.Errorf("building harness %s failed: %v\n%s", pkg, err, out)
	}
	Logf("built %s in %.1fs", filepath.Base(bin), time.Since(t0).Seconds())
	return bin, nil
}

// BuildGrog compiles the real grog binary from the working tree (optionally
// with an overlay) to build/bin/<name>.
func BuildGrog(name string, ov *Overlay) (string, error) {
	buildMu.Lock()
	defer buildMu.Unlock()
	bin := filepath.Join(BinDir, name)
	args := []string{"build", ModFileFlag(), "-o", bin}
	if ov == nil && len(ExtraOverlay()) > 0 {
		ov = NewOverlay()
	}
	if ov != nil && (len(ov.Replace) > 0 || len(ExtraOverlay()) > 0) {
		ovPath, err := ov.Write(name)
		if err != nil {
			return "", err
		}
		args = append(args, "-overlay", ovPath)
	}
	args = append(args, ".")
	t0 := time.Now()
	out, err := RunGo(args...)
	if err != nil {
		return "", fmt.Errorf("building grog failed: %v\n%s", err, out)
	}
	Logf("built %s in %.1fs", name, time.Since(t0).Seconds())
	return bin, nil
}

var logMu sync.Mutex
var LogW io.Writer = os.Stderr

func Logf(format string, a ...any) {
	logMu.Lock()
	defer logMu.Unlock()
	fmt.Fprintf(LogW, "[vcheck] "+format+"\n", a...)
}

// Scratch returns a fresh scratch directory outside /repo and /verif; the
// caller removes it.
func Scratch(prefix string) (string, error) {
	base := os.Getenv("VERIF_SCRATCH")
	if base == "" {
		base = os.TempDir()
	}
	return os.MkdirTemp(base, "vcheck-"+prefix+"-")
}

func SortedKeys[V any](m map[string]V) []string {
	ks := make([]string, 0, len(m))
	for k := range m {
		ks = append(ks, k)
	}
	sort.Strings(ks)
	return ks
}
