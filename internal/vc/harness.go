package vc

import (
	"bufio"
	"bytes"
	"context"
	"encoding/json"
	"fmt"
	"os"
	"os/exec"
	"strings"
	"sync"
	"time"
)

const proto = "@@V "

type hmsg struct {
	T           string          `json:"t"`
	Evals       int64           `json:"evals"`
	States      int64           `json:"states"`
	Transitions int64           `json:"transitions"`
	Traces      int64           `json:"traces"`
	Keys        []string        `json:"keys"`
	N           int64           `json:"n"`
	Sig         string          `json:"sig"`
	Detail      string          `json:"detail"`
	Replay      json.RawMessage `json:"replay"`
	V           json.RawMessage `json:"v"`
	K           string          `json:"k"`
	Msg         string          `json:"msg"`
}

type HarnessRun struct {
	Bin     string
	Env     map[string]string
	Args    []string
	Dir     string
	Timeout time.Duration
	Tag     string
}

// RunHarness runs one harness process and merges its protocol lines into r.
// A non-zero exit without a "done" message marks the check as broken.
func RunHarness(r *Report, h HarnessRun) {
	if h.Timeout == 0 {
		h.Timeout = 30 * time.Minute
	}
	ctx, cancel := context.WithTimeout(context.Background(), h.Timeout)
	defer cancel()
	args := append([]string{"-test.run", "^TestVerif$", "-test.timeout", "0", "-test.count", "1"}, h.Args...)
	cmd := exec.CommandContext(ctx, h.Bin, args...)
	cmd.Dir = h.Dir
	if cmd.Dir == "" {
		cmd.Dir = VerifDir
	}
	cmd.Env = os.Environ()
	for k, v := range h.Env {
		cmd.Env = append(cmd.Env, k+"="+v)
	}
	stdout, _ := cmd.StdoutPipe()
	var stderr bytes.Buffer
	cmd.Stderr = &stderr
	if err := cmd.Start(); err != nil {
		r.BrokenCheck("%s: cannot start harness: %v", h.Tag, err)
		return
	}
	done := false
	var tail []string
	sc := bufio.NewScanner(stdout)
	sc.Buffer(make([]byte, 1<<20), 1<<28)
	for sc.Scan() {
		line := sc.Text()
		if !strings.HasPrefix(line, proto) {
			tail = append(tail, line)
			if len(tail) > 40 {
				tail = tail[1:]
			}
			continue
		}
		var m hmsg
		if err := json.Unmarshal([]byte(line[len(proto):]), &m); err != nil {
			r.BrokenCheck("%s: bad protocol line: %v: %s", h.Tag, err, oneLine(line, 200))
			continue
		}
		switch m.T {
		case "counts":
			r.AddCounts(m.Evals, m.States, m.Transitions, m.Traces)
		case "nontrivial":
			for _, k := range m.Keys {
				r.Nontrivial(k)
			}
		case "outcome":
			for _, k := range m.Keys {
				r.Outcome(k)
			}
		case "sample":
			var v any
			json.Unmarshal(m.V, &v)
			r.Sample(v)
		case "violation":
			var v any
			json.Unmarshal(m.Replay, &v)
			r.Violate(Violation{Sig: m.Sig, Detail: m.Detail, Replay: v})
		case "cap":
			r.Cap("%s", m.Msg)
		case "broken":
			r.BrokenCheck("%s: %s", h.Tag, m.Msg)
		case "set":
			var v any
			json.Unmarshal(m.V, &v)
			r.Set(m.K, v)
		case "addint":
			r.AddInt(m.K, m.N)
		case "log":
			Logf("%s: %s", h.Tag, m.Msg)
		case "done":
			done = true
		}
	}
	err := cmd.Wait()
	if ctx.Err() != nil {
		r.BrokenCheck("%s: harness exceeded its hard ceiling of %s (not a verdict)", h.Tag, h.Timeout)
		return
	}
	if !done {
		// a fatal runtime error of the code under test (not recoverable inside the harness process) is an internal
		// crash of grog, i.e. a verdict, as long as it did not originate in the verification packages themselves
		se := stderr.String()
		for _, fe := range []string{"fatal error: concurrent map", "fatal error: sync: unlock of unlocked mutex"} {
			k := strings.Index(se, fe)
			if k < 0 {
				continue
			}
			rest := se[k:]
			line := strings.SplitN(rest, "\n", 2)[0]
			// the stack of the goroutine that died: up to the first blank line after "goroutine N [running]:"
			block := rest
			if g := strings.Index(rest, "goroutine "); g >= 0 {
				block = rest[g:]
				if e := strings.Index(block, "\n\n"); e > 0 {
					block = block[:e]
				}
			}
			firstGrog := ""
			for _, l := range strings.Split(block, "\n") {
				if strings.HasPrefix(l, "grog/internal/") {
					firstGrog = l
					break
				}
			}
			if firstGrog != "" && !strings.Contains(firstGrog, "/zverif/") {
				r.Violate(Violation{Sig: r.Property + ":fatal-runtime-error:" + strings.ReplaceAll(strings.TrimPrefix(line, "fatal error: "), " ", "-"), Detail: fmt.Sprintf("%s: the process under test died with %q in %s", h.Tag, line, firstGrog), Replay: map[string]any{"stack": lastBytes(block, 3000)}})
				return
			}
		}
		r.BrokenCheck("%s: harness ended without completing (err=%v)\nstdout tail: %s\nstderr tail: %s", h.Tag, err, strings.Join(tail, "\n"), lastBytes(stderr.String(), 3000))
	}
}

func lastBytes(s string, n int) string {
	if len(s) > n {
		return s[len(s)-n:]
	}
	return s
}

// RunHarnessShards runs n shards (VERIF_SHARD=i, VERIF_SHARDS=n) with at most
// par processes at a time.
func RunHarnessShards(r *Report, h HarnessRun, n, par int) {
	var wg sync.WaitGroup
	sem := make(chan struct{}, par)
	for i := 0; i < n; i++ {
		wg.Add(1)
		sem <- struct{}{}
		go func(i int) {
			defer wg.Done()
			defer func() { <-sem }()
			hh := h
			hh.Env = map[string]string{}
			for k, v := range h.Env {
				hh.Env[k] = v
			}
			hh.Env["VERIF_SHARD"] = fmt.Sprint(i)
			hh.Env["VERIF_SHARDS"] = fmt.Sprint(n)
			hh.Env["VERIF_PAR"] = fmt.Sprint(par)
			hh.Tag = fmt.Sprintf("%s[%d/%d]", h.Tag, i, n)
			RunHarness(r, hh)
		}(i)
	}
	wg.Wait()
}
