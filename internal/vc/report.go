package vc

import (
	"encoding/json"
	"fmt"
	"os"
	"path/filepath"
	"sort"
	"strconv"
	"sync"
	"time"
)

// Violation is one counter-example. Sig names the *specific* failing scenario
// class (call site / input family / history shape); known findings are matched
// on it exactly, so a different violation of the same property is still
// reported.
type Violation struct {
	Sig    string `json:"signature"`
	Detail string `json:"detail"`
	Replay any    `json:"replay,omitempty"`
}

type Report struct {
	Property string
	Tier     string
	Seed     int
	Level    string
	start    time.Time

	mu          sync.Mutex
	Evaluations int64
	States      int64
	Transitions int64
	Traces      int64
	nontrivial  map[string]struct{}
	outcomes    map[string]struct{}
	Rule        string
	Samples     []any
	Exhaustive  bool
	Caps        []string
	Assumptions []string
	Extra       map[string]any
	violations  map[string]*Violation
	vioCount    map[string]int
	Broken      []string
}

func NewReport(property, tier string) *Report {
	seed, _ := strconv.Atoi(os.Getenv("VERIF_SEED"))
	return &Report{
		Property: property, Tier: tier, Seed: seed, Level: "model_checking", start: time.Now(),
		nontrivial: map[string]struct{}{}, outcomes: map[string]struct{}{},
		Extra: map[string]any{}, violations: map[string]*Violation{}, vioCount: map[string]int{},
		Exhaustive: true,
	}
}

func (r *Report) AddCounts(evals, states, transitions, traces int64) {
	r.mu.Lock()
	r.Evaluations += evals
	r.States += states
	r.Transitions += transitions
	r.Traces += traces
	r.mu.Unlock()
}

// Nontrivial records a distinct non-trivial case key.
func (r *Report) Nontrivial(key string) {
	r.mu.Lock()
	r.nontrivial[key] = struct{}{}
	r.mu.Unlock()
}

// Outcome records a distinct observed outcome (vacuity diagnostics).
func (r *Report) Outcome(key string) {
	r.mu.Lock()
	r.outcomes[key] = struct{}{}
	r.mu.Unlock()
}

func (r *Report) Sample(s any) {
	r.mu.Lock()
	if len(r.Samples) < 8 {
		r.Samples = append(r.Samples, s)
	}
	r.mu.Unlock()
}

func (r *Report) Cap(format string, a ...any) {
	r.mu.Lock()
	r.Exhaustive = false
	if len(r.Caps) < 12 {
		r.Caps = append(r.Caps, fmt.Sprintf(format, a...))
	}
	r.mu.Unlock()
}

func (r *Report) Assume(s ...string) {
	r.mu.Lock()
	r.Assumptions = append(r.Assumptions, s...)
	r.mu.Unlock()
}

func (r *Report) Set(key string, v any) {
	r.mu.Lock()
	r.Extra[key] = v
	r.mu.Unlock()
}

func (r *Report) AddInt(key string, v int64) {
	r.mu.Lock()
	old, _ := r.Extra[key].(int64)
	r.Extra[key] = old + v
	r.mu.Unlock()
}

// Violate records a violation; the first one per signature is kept as witness.
func (r *Report) Violate(v Violation) {
	r.mu.Lock()
	defer r.mu.Unlock()
	r.vioCount[v.Sig]++
	if old, ok := r.violations[v.Sig]; !ok || len(v.Detail) < len(old.Detail) {
		vv := v
		r.violations[v.Sig] = &vv
	}
}

func (r *Report) ViolationCount() int {
	r.mu.Lock()
	defer r.mu.Unlock()
	return len(r.violations)
}

// BrokenCheck marks the check machinery itself as broken (divergence, build
// failure): exit 2, never a VIOLATION line.
func (r *Report) BrokenCheck(format string, a ...any) {
	r.mu.Lock()
	r.Broken = append(r.Broken, fmt.Sprintf(format, a...))
	r.mu.Unlock()
}

type knownFinding struct {
	Property  string `json:"property"`
	Signature string `json:"signature"`
	What      string `json:"what"`
	Status    string `json:"status"` // "open" suppresses; "fixed" suppresses nothing
	Commit    string `json:"commit,omitempty"`
}

func loadKnown() []knownFinding {
	b, err := os.ReadFile(filepath.Join(VerifDir, "known_findings.json"))
	if err != nil {
		return nil
	}
	var f struct {
		Findings []knownFinding `json:"findings"`
	}
	if err := json.Unmarshal(b, &f); err != nil {
		Logf("known_findings.json unreadable: %v", err)
		return nil
	}
	return f.Findings
}

// Finish writes the evidence file, prints KNOWN-FINDING / VIOLATION lines and
// returns the process exit code.
func (r *Report) Finish() int {
	r.mu.Lock()
	defer r.mu.Unlock()
	// a run against a mutated tree (VERIF_EXTRA_OVERLAY) must not overwrite the evidence of the real tree
	evidenceDir := filepath.Join(VerifDir, "evidence")
	if os.Getenv("VERIF_EXTRA_OVERLAY") != "" {
		evidenceDir = filepath.Join(BuildDir, "evidence-extra-overlay")
	}
	known := map[string]knownFinding{}
	for _, k := range loadKnown() {
		if k.Property == r.Property && k.Status != "fixed" {
			known[k.Signature] = k
		}
	}
	if old, _ := filepath.Glob(filepath.Join(evidenceDir, "replays", r.Property+"-*.json")); len(old) > 0 && os.Getenv("VERIF_REPLAY") == "" {
		for _, f := range old {
			os.Remove(f)
		}
	}
	sigs := make([]string, 0, len(r.violations))
	for s := range r.violations {
		sigs = append(sigs, s)
	}
	sort.Strings(sigs)
	unlisted := 0
	var knownSeen []string
	var vioOut []any
	for _, s := range sigs {
		v := r.violations[s]
		if k, ok := known[s]; ok {
			fmt.Printf("KNOWN-FINDING: property=%s %s [%s] (%d occurrences; witness: %s)\n", r.Property, k.What, s, r.vioCount[s], oneLine(v.Detail, 300))
			knownSeen = append(knownSeen, s)
			continue
		}
		unlisted++
		replayPath := filepath.Join(evidenceDir, "replays", fmt.Sprintf("%s-%d.json", r.Property, unlisted))
		os.MkdirAll(filepath.Dir(replayPath), 0o755)
		b, _ := json.MarshalIndent(map[string]any{
			"property": r.Property, "signature": v.Sig, "detail": v.Detail, "occurrences": r.vioCount[s], "replay": v.Replay,
		}, "", " ")
		os.WriteFile(replayPath, b, 0o644)
		fmt.Printf("VIOLATION property=%s replay=%s\n", r.Property, replayPath)
		fmt.Printf("  signature: %s\n  detail: %s\n", v.Sig, oneLine(v.Detail, 2000))
		vioOut = append(vioOut, map[string]any{"signature": v.Sig, "detail": oneLine(v.Detail, 500), "replay": replayPath})
	}

	cov := map[string]any{
		"evaluations":                   r.Evaluations,
		"distinct_nontrivial":           len(r.nontrivial),
		"rule":                          r.Rule,
		"samples":                       r.Samples,
		"states":                        r.States,
		"transitions":                   r.Transitions,
		"traces_validated_against_impl": r.Traces,
		"exhaustive":                    r.Exhaustive && len(r.Broken) == 0,
		"distinct_outcomes":             len(r.outcomes),
	}
	if len(r.Caps) > 0 {
		cov["caps_hit"] = r.Caps
	}
	if len(knownSeen) > 0 {
		cov["known_findings_reproduced"] = knownSeen
	}
	if len(vioOut) > 0 {
		cov["violation_witnesses"] = vioOut
	}
	if len(r.Broken) > 0 {
		cov["broken"] = r.Broken
	}
	for k, v := range r.Extra {
		cov[k] = v
	}
	if r.Samples == nil {
		cov["samples"] = []any{}
	}
	ev := map[string]any{
		"property_id": r.Property,
		"tier":        r.Tier,
		"seed":        r.Seed,
		"level":       r.Level,
		"coverage":    cov,
		"assumptions": r.Assumptions,
		"wall_s":      time.Since(r.start).Seconds(),
		"violations":  unlisted,
	}
	if r.Assumptions == nil {
		ev["assumptions"] = []string{}
	}
	b, _ := json.MarshalIndent(ev, "", " ")
	evPath := filepath.Join(evidenceDir, r.Property+".json")
	os.MkdirAll(filepath.Dir(evPath), 0o755)
	if err := os.WriteFile(evPath, b, 0o644); err != nil {
		Logf("cannot write evidence: %v", err)
		return 2
	}
	fmt.Printf("%s tier=%s evaluations=%d states=%d transitions=%d nontrivial=%d outcomes=%d exhaustive=%v violations=%d known=%d wall=%.1fs\n",
		r.Property, r.Tier, r.Evaluations, r.States, r.Transitions, len(r.nontrivial), len(r.outcomes), cov["exhaustive"], unlisted, len(knownSeen), time.Since(r.start).Seconds())
	if len(r.Broken) > 0 {
		for _, b := range r.Broken {
			fmt.Printf("BROKEN-CHECK property=%s %s\n", r.Property, oneLine(b, 2000))
		}
		return 2
	}
	if unlisted > 0 {
		return 1
	}
	return 0
}

func oneLine(s string, max int) string {
	out := make([]rune, 0, len(s))
	for _, c := range s {
		if c == '\n' || c == '\r' {
			out = append(out, ' ', '|', ' ')
		} else {
			out = append(out, c)
		}
	}
	if len(out) > max {
		return string(out[:max]) + "…"
	}
	return string(out)
}

// Merge folds the counts of sub into r and keeps the violations whose signature
// is accepted by keep (a harness shared by several properties reports every
// oracle; each property's check claims only its own signatures).
func (r *Report) Merge(sub *Report, keep func(sig string) bool) {
	sub.mu.Lock()
	defer sub.mu.Unlock()
	r.mu.Lock()
	defer r.mu.Unlock()
	r.Evaluations += sub.Evaluations
	r.States += sub.States
	r.Transitions += sub.Transitions
	r.Traces += sub.Traces
	for k := range sub.nontrivial {
		r.nontrivial[k] = struct{}{}
	}
	for k := range sub.outcomes {
		r.outcomes[k] = struct{}{}
	}
	for _, s := range sub.Samples {
		if len(r.Samples) < 8 {
			r.Samples = append(r.Samples, s)
		}
	}
	if !sub.Exhaustive {
		r.Exhaustive = false
	}
	r.Caps = append(r.Caps, sub.Caps...)
	r.Broken = append(r.Broken, sub.Broken...)
	for k, v := range sub.Extra {
		if old, ok := r.Extra[k].(int64); ok {
			if nv, ok2 := v.(int64); ok2 {
				r.Extra[k] = old + nv
				continue
			}
		}
		r.Extra[k] = v
	}
	other := 0
	for sig, v := range sub.violations {
		if keep(sig) {
			r.vioCount[sig] += sub.vioCount[sig]
			if _, ok := r.violations[sig]; !ok {
				r.violations[sig] = v
			}
		} else {
			other += sub.vioCount[sig]
			olist, _ := r.Extra["other_property_signatures"].([]string)
			if len(olist) < 20 {
				r.Extra["other_property_signatures"] = append(olist, sig)
			}
		}
	}
	if other > 0 {
		old, _ := r.Extra["violations_of_other_properties_seen"].(int64)
		r.Extra["violations_of_other_properties_seen"] = old + int64(other)
	}
}

// Relabel rewrites the signatures of the recorded violations.
func (r *Report) Relabel(f func(string) string) {
	r.mu.Lock()
	defer r.mu.Unlock()
	nv := map[string]*Violation{}
	nc := map[string]int{}
	for sig, v := range r.violations {
		ns := f(sig)
		vv := *v
		vv.Sig = ns
		nv[ns] = &vv
		nc[ns] += r.vioCount[sig]
	}
	r.violations, r.vioCount = nv, nc
}
