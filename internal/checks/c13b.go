package checks

import (
	"fmt"
	"os"
	"path/filepath"
	"sort"
	"strings"
	"sync"

	"verif/internal/hist"
	"verif/internal/vc"
)

// c13TaintIsolation: the taint of one target is the taint of that target only.
// The labels differ in nothing but where '/', ':', '_', '-' and '.' sit, so that
// any marker key derived from the label by flattening, escaping or truncating
// separators makes two of them collide. Every ordered pair (tainted X, built Y)
// and every unordered pair (both tainted) is run with the real binary from a
// state in which everything is cached.
var c13IsolationLabels = [][2]string{
	{"s/a", "i"}, {"s", "a_i"}, {"s_a", "i"}, {"s", "a.i"}, {"s.a", "i"}, {"s", "a-i"}, {"s-a", "i"}, {"s/a", "i_"}, {"s", "a"},
}

func c13TaintIsolation(c *Ctx) {
	grog, err := vc.BuildGrog("grog", nil)
	if err != nil {
		c.R.BrokenCheck("%v", err)
		return
	}
	base, cleanup := scratchBase(c, "c13iso")
	defer cleanup()
	src := &hist.Source{Files: map[string]hist.File{}}
	var labels []string
	for _, l := range c13IsolationLabels {
		src.Files[l[0]+"/"+l[1]+".in"] = hist.File{Content: "in " + l[0] + ":" + l[1]}
		src.Targets = append(src.Targets, hist.Target{Pkg: l[0], Name: l[1], Inputs: []string{l[1] + ".in"}, Outputs: []string{l[1] + ".out"},
			Command: traceStart + "\ncat " + l[1] + ".in > " + l[1] + ".out"})
		labels = append(labels, "//"+l[0]+":"+l[1])
	}
	c.R.Set("taint_isolation_labels", labels)
	pre, err := hist.NewBox(base)
	if err != nil {
		c.R.BrokenCheck("%v", err)
		return
	}
	defer pre.Remove()
	src.Materialize(pre.WS(), nil)
	if rr := pre.Run(grog, hist.RunOpts{Args: []string{"build", "//..."}}); rr.Exit != 0 || len(rr.Started()) != len(labels) {
		c.R.BrokenCheck("taint isolation: preparation build failed or did not execute every target (exit %d, executed %v): %s", rr.Exit, rr.Started(), tail(rr.Output, 300))
		return
	}
	type step struct {
		args []string
		want []string // executed targets; nil = not a build
	}
	type history struct {
		name  string
		steps []step
	}
	var hs []history
	for _, x := range labels {
		for _, y := range labels {
			if x == y {
				continue
			}
			hs = append(hs, history{name: "taint " + x + "; build " + y + "; build " + x + "; build " + x, steps: []step{
				{args: []string{"taint", x}}, {args: []string{"build", y}, want: []string{}}, {args: []string{"build", x}, want: []string{x}}, {args: []string{"build", x}, want: []string{}}, {args: []string{"build", "//..."}, want: []string{}}}})
		}
	}
	for i, x := range labels {
		for _, y := range labels[i+1:] {
			hs = append(hs, history{name: "taint " + x + " " + y + "; build //...; build //...", steps: []step{
				{args: []string{"taint", x, y}}, {args: []string{"build", "//..."}, want: []string{x, y}}, {args: []string{"build", "//..."}, want: []string{}}}})
		}
	}
	var wg sync.WaitGroup
	sem := make(chan struct{}, 32)
	for _, h := range hs {
		wg.Add(1)
		sem <- struct{}{}
		go func(h history) {
			defer wg.Done()
			defer func() { <-sem }()
			box, err := pre.CloneTo(base)
			if err != nil {
				c.R.BrokenCheck("clone: %v", err)
				return
			}
			defer box.Remove()
			var log []string
			for i, st := range h.steps {
				rr := box.Run(grog, hist.RunOpts{Args: st.args, Ceiling: 60e9})
				got := append([]string{}, rr.Started()...)
				sort.Strings(got)
				log = append(log, fmt.Sprintf("grog %s -> exit %d executed %v", strings.Join(st.args, " "), rr.Exit, got))
				replay := map[string]any{"history": h.name, "steps": log, "grog_output_tail": tail(rr.Output, 600)}
				if rr.Exit != 0 {
					c.R.Violate(vc.Violation{Sig: "C13:taint-isolation:command-fails:" + st.args[0], Detail: fmt.Sprintf("history [%s], step %d: grog %v exited %d: %s", h.name, i+1, st.args, rr.Exit, tail(rr.Output, 300)), Replay: replay})
					break
				}
				if st.want == nil {
					continue
				}
				want := append([]string{}, st.want...)
				sort.Strings(want)
				if strings.Join(got, " ") != strings.Join(want, " ") {
					sig := "C13:taint-isolation:untainted-target-executed"
					if len(got) < len(want) {
						sig = "C13:taint-isolation:tainted-target-not-executed"
					}
					c.R.Violate(vc.Violation{Sig: sig, Detail: fmt.Sprintf("history [%s], step %d: executed %v, expected %v (labels that differ only in separators must not share a taint marker)", h.name, i+1, got, want), Replay: replay})
					break
				}
				c.R.AddCounts(1, 1, 1, 0)
			}
			c.R.Outcome("taint-isolation:" + fmt.Sprint(len(log)) + "-steps")
			c.R.Nontrivial("taint-isolation|" + h.name)
		}(h)
	}
	wg.Wait()
	c.R.Set("taint_isolation_histories", len(hs))
}

// c13NoCacheTool: a no-cache target whose (only) output is a bin_output, and a cached dependant that calls it through
// $(bin :tool). History: build; build (tool runs again, gen is restored); edit the tool's input; build (gen re-executes:
// the tool it calls changed); build (gen restored). Both load_outputs modes.
func c13NoCacheTool(c *Ctx) { noCacheTool(c, "C13") }

// noCacheTool: see c13NoCacheTool; the signatures carry the claiming property's id.
func noCacheTool(c *Ctx, prop string) {
	grog, err := vc.BuildGrog("grog", nil)
	if err != nil {
		c.R.BrokenCheck("%v", err)
		return
	}
	base, cleanup := scratchBase(c, "c13tool")
	defer cleanup()
	mk := func(v string) *hist.Source {
		s := &hist.Source{Files: map[string]hist.File{"b/tool.in": {Content: v}}}
		s.Targets = append(s.Targets,
			hist.Target{Pkg: "b", Name: "tool", Tags: []string{"no-cache"}, Inputs: []string{"tool.in"}, BinOutput: "tool.sh", Command: traceStart + "\nprintf '#!/bin/sh\\necho \"made by %s\"\\n' \"$(cat tool.in)\" > tool.sh"},
			hist.Target{Pkg: "b", Name: "gen", Deps: []string{":tool"}, Outputs: []string{"gen.txt"}, Command: traceStart + "\n$(bin :tool) > gen.txt"})
		return s
	}
	for _, mode := range []string{"all", "minimal"} {
		box, err := hist.NewBox(base)
		if err != nil {
			c.R.BrokenCheck("%v", err)
			return
		}
		s1, s2 := mk("v1"), mk("v2")
		s1.Materialize(box.WS(), nil)
		args := []string{"build", "//...", "--load-outputs=" + mode}
		type stp struct {
			name string
			pre  func()
			want string // executed set
			gen  string // expected content of gen.txt ("" = not checked: minimal mode does not materialise restored outputs)
		}
		steps := []stp{
			{"build", func() {}, "//b:gen //b:tool", "made by v1\n"},
			{"build again", func() {}, "//b:tool", ""},
			{"edit the tool's input; build", func() { s2.Materialize(box.WS(), s1) }, "//b:gen //b:tool", "made by v2\n"},
			{"build again", func() {}, "//b:tool", ""},
		}
		var history []string
		for _, st := range steps {
			st.pre()
			history = append(history, st.name)
			rr := box.Run(grog, hist.RunOpts{Args: args})
			got := append([]string{}, rr.Started()...)
			sort.Strings(got)
			replay := map[string]any{"history": history, "load_outputs": mode, "executed": got, "grog_output_tail": tail(rr.Output, 500)}
			switch {
			case rr.Exit != 0:
				c.R.Violate(vc.Violation{Sig: prop + ":no-cache-tool:build-fails", Detail: fmt.Sprintf("history %v (load_outputs=%s): grog exited %d: %s", history, mode, rr.Exit, tail(rr.Output, 300)), Replay: replay})
			case strings.Join(got, " ") != st.want:
				sig := prop + ":no-cache-tool:dependant-not-invalidated-although-the-tool-changed"
				if len(got) > len(strings.Fields(st.want)) {
					sig = prop + ":dependant-or-clean-target-executed-although-nothing-changed://b:gen"
				} else if !strings.Contains(strings.Join(got, " "), "//b:tool") {
					sig = prop + ":no-cache-target-restored-instead-of-executed://b:tool"
				}
				c.R.Violate(vc.Violation{Sig: sig, Detail: fmt.Sprintf("history %v (load_outputs=%s): executed %v, expected [%s] (//b:tool is tagged no-cache, its output is a bin_output that //b:gen calls)", history, mode, got, st.want), Replay: replay})
			case st.gen != "":
				if b, _ := os.ReadFile(filepath.Join(box.WS(), "b/gen.txt")); string(b) != st.gen {
					c.R.Violate(vc.Violation{Sig: prop + ":no-cache-tool:dependant-output-stale", Detail: fmt.Sprintf("history %v (load_outputs=%s): b/gen.txt is %q, expected %q", history, mode, b, st.gen), Replay: replay})
				}
			}
			c.R.AddCounts(1, 1, 1, 1)
			c.R.Outcome(fmt.Sprintf("no-cache-tool|%s|%s|%v", mode, st.name, got))
			c.R.Nontrivial("no-cache-tool|" + mode + "|" + strings.Join(history, ">"))
		}
		box.Remove()
	}
}

// c13ThroughAlias: the dependants reach the re-executed target through an ALIAS. //b:stamp is tagged no-cache, //b:gen is
// cached and gets tainted; both copy an external value (not an input: their change hash stays the same, their outputs
// change only when the value does). //b:use_stamp and //b:use_gen depend on aliases of them, //b:direct on //b:stamp
// itself. History: build (value 1); build (value 2); taint gen, build (value 3); build (value unchanged). Dependants are
// executed exactly when the output of the re-executed target changed, and what they copy is the current value.
func c13ThroughAlias(c *Ctx) {
	grog, err := vc.BuildGrog("grog", nil)
	if err != nil {
		c.R.BrokenCheck("%v", err)
		return
	}
	base, cleanup := scratchBase(c, "c13alias")
	defer cleanup()
	src := &hist.Source{Files: map[string]hist.File{"b/in.txt": {Content: "in"}}}
	src.Targets = append(src.Targets,
		hist.Target{Pkg: "b", Name: "stamp", Tags: []string{"no-cache"}, Inputs: []string{"in.txt"}, Outputs: []string{"stamp.txt"}, Command: traceStart + "\ncat \"$VMARK/n\" > stamp.txt"},
		hist.Target{Pkg: "b", Name: "gen", Inputs: []string{"in.txt"}, Outputs: []string{"gen.txt"}, Command: traceStart + "\ncat \"$VMARK/n\" > gen.txt"},
		hist.Target{Pkg: "b", Name: "use_stamp", Deps: []string{":al_stamp"}, Outputs: []string{"use_stamp.txt"}, Command: traceStart + "\ncat stamp.txt > use_stamp.txt"},
		hist.Target{Pkg: "b", Name: "use_gen", Deps: []string{":al_gen"}, Outputs: []string{"use_gen.txt"}, Command: traceStart + "\ncat gen.txt > use_gen.txt"},
		hist.Target{Pkg: "b", Name: "direct", Deps: []string{":stamp"}, Outputs: []string{"direct.txt"}, Command: traceStart + "\ncat stamp.txt > direct.txt"})
	src.Aliases = append(src.Aliases, hist.Alias{Pkg: "b", Name: "al_stamp", Actual: ":stamp"}, hist.Alias{Pkg: "b", Name: "al_gen", Actual: ":gen"})
	type step struct {
		name  string
		value string
		taint bool
		want  string
	}
	steps := []step{
		{"build (external value 1)", "1", false, "//b:direct //b:gen //b:stamp //b:use_gen //b:use_stamp"},
		{"external value 2; build", "2", false, "//b:direct //b:stamp //b:use_stamp"},
		{"external value 3; grog taint //b:gen; build", "3", true, "//b:direct //b:gen //b:stamp //b:use_gen //b:use_stamp"},
		{"build (external value unchanged)", "3", false, "//b:stamp"},
	}
	outOf := map[string]string{"//b:stamp": "b/stamp.txt", "//b:gen": "b/gen.txt", "//b:use_stamp": "b/use_stamp.txt", "//b:use_gen": "b/use_gen.txt", "//b:direct": "b/direct.txt"}
	for _, mode := range []string{"all", "minimal"} {
		box, err := hist.NewBox(base)
		if err != nil {
			c.R.BrokenCheck("%v", err)
			return
		}
		src.Materialize(box.WS(), nil)
		marks := filepath.Join(box.Dir, "marks")
		os.MkdirAll(marks, 0o755)
		env := map[string]string{"VMARK": marks}
		var history []string
		for _, st := range steps {
			history = append(history, st.name)
			os.WriteFile(filepath.Join(marks, "n"), []byte(st.value), 0o644)
			if st.taint {
				if r := box.Run(grog, hist.RunOpts{Args: []string{"taint", "//b:gen"}, Env: env}); r.Exit != 0 {
					c.R.Violate(vc.Violation{Sig: "C13:through-alias:taint-fails", Detail: fmt.Sprintf("grog taint //b:gen exited %d: %s", r.Exit, tail(r.Output, 300)), Replay: map[string]any{"history": history}})
					break
				}
			}
			rr := box.Run(grog, hist.RunOpts{Args: []string{"build", "//...", "--load-outputs=" + mode}, Env: env, Ceiling: 60e9})
			got := append([]string{}, rr.Started()...)
			sort.Strings(got)
			replay := map[string]any{"history": history, "load_outputs": mode, "executed": got, "grog_output_tail": tail(rr.Output, 500)}
			bad := false
			switch {
			case rr.Exit != 0:
				c.R.Violate(vc.Violation{Sig: "C13:through-alias:build-fails", Detail: fmt.Sprintf("history %v (load_outputs=%s): grog exited %d: %s", history, mode, rr.Exit, tail(rr.Output, 300)), Replay: replay})
				bad = true
			case strings.Join(got, " ") != st.want:
				sig := "C13:through-alias:dependant-not-invalidated-although-the-re-executed-target's-output-changed"
				if len(got) > len(strings.Fields(st.want)) {
					sig = "C13:through-alias:dependant-executed-although-the-re-executed-target's-output-did-not-change"
				}
				c.R.Violate(vc.Violation{Sig: sig, Detail: fmt.Sprintf("history %v (load_outputs=%s): executed %v, expected [%s] (//b:use_stamp and //b:use_gen depend on aliases of the no-cache target //b:stamp and the tainted target //b:gen)", history, mode, got, st.want), Replay: replay})
				bad = true
			default:
				for _, t := range got {
					if b, _ := os.ReadFile(filepath.Join(box.WS(), outOf[t])); string(b) != st.value {
						c.R.Violate(vc.Violation{Sig: "C13:through-alias:executed-target-has-stale-content", Detail: fmt.Sprintf("history %v (load_outputs=%s): %s is %q after %s was executed, expected %q", history, mode, outOf[t], b, t, st.value), Replay: replay})
						bad = true
					}
				}
			}
			c.R.AddCounts(1, 1, 1, 1)
			c.R.Outcome(fmt.Sprintf("through-alias|%s|%s|%v", mode, st.name, got))
			c.R.Nontrivial("through-alias|" + mode + "|" + strings.Join(history, ">"))
			if bad {
				break
			}
		}
		box.Remove()
	}
}
