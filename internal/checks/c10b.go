package checks

import (
	"bytes"
	"fmt"
	"os"
	"os/exec"
	"path/filepath"
	"strings"
	"sync"
	"syscall"
	"time"

	"verif/internal/hist"
	"verif/internal/vc"
)

// c10Processes: the process half of C10 with the REAL binary. Build A holds the
// workspace (its last command waits for a marker file), then something happens
// (nothing / the holder runs with an aggressive garbage collector / `grog clean`
// or `grog clean --expunge` runs on the workspace / the holder is killed with
// SIGKILL while its command's shell lives on), then build B is started on the
// same workspace. B's command must not start while A's command is still
// running; once A has finished (or is dead) B must get the lock.
//
// Wall-clock time is used only to bound how long an illegal overlap is waited
// for (a violation is reported only when the overlap was OBSERVED in the trace)
// and as a generous ceiling for "B never acquires".
func c10Processes(c *Ctx) {
	grog, err := vc.BuildGrog("grog", nil)
	if err != nil {
		c.R.BrokenCheck("%v", err)
		return
	}
	base, cleanup := scratchBase(c, "c10p")
	defer cleanup()
	src := &hist.Source{Files: map[string]hist.File{"p/in.txt": {Content: "in"}}, Toml: "num_workers = 2\n"}
	var deps []string
	for i := 0; i < 30; i++ {
		n := fmt.Sprintf("t%02d", i)
		src.Targets = append(src.Targets, hist.Target{Pkg: "p", Name: n, Inputs: []string{"in.txt"}, Command: "true", Tags: []string{"no-cache"}})
		deps = append(deps, ":"+n)
	}
	src.Targets = append(src.Targets, hist.Target{Pkg: "p", Name: "hold", Deps: deps, Tags: []string{"no-cache"}, Command: `echo "start-$WHO" >> "$VTRACE"
while [ ! -e "$VMARK/go-$WHO" ]; do sleep 0.05; done
echo "end-$WHO" >> "$VTRACE"`})
	type scenario struct {
		name   string
		envA   map[string]string
		middle []string // grog command run to completion between A's start and B's start
		killA  bool
	}
	scs := []scenario{
		{name: "second build while the first is running"},
		{name: "holder with an aggressive garbage collector (GOGC=1)", envA: map[string]string{"GOGC": "1"}},
		{name: "grog clean while the first build is running", middle: []string{"clean"}},
		{name: "grog clean --expunge while the first build is running", middle: []string{"clean", "--expunge"}},
		{name: "holder killed (SIGKILL) while its command's shell lives on", killA: true},
	}
	var wg sync.WaitGroup
	for _, sc := range scs {
		wg.Add(1)
		go func(sc scenario) {
			defer wg.Done()
			box, err := hist.NewBox(base)
			if err != nil {
				c.R.BrokenCheck("%v", err)
				return
			}
			defer box.Remove()
			src.Materialize(box.WS(), nil)
			marks := filepath.Join(box.Dir, "marks")
			os.MkdirAll(marks, 0o755)
			os.WriteFile(box.Trace(), nil, 0o644)
			start := func(who string, extra map[string]string, args ...string) (*exec.Cmd, *bytes.Buffer) {
				cmd := exec.Command(grog, args...)
				cmd.Dir = box.WS()
				env := map[string]string{"PATH": os.Getenv("PATH"), "HOME": filepath.Join(box.Dir, "home"), "GROG_ROOT": box.Root(), "GROG_DISABLE_TEA": "true", "GROG_COLOR": "no",
					"VTRACE": box.Trace(), "VMARK": marks, "WHO": who, "TMPDIR": os.TempDir()}
				for k, v := range extra {
					env[k] = v
				}
				for k, v := range env {
					cmd.Env = append(cmd.Env, k+"="+v)
				}
				var out bytes.Buffer
				cmd.Stdout, cmd.Stderr = &out, &out
				cmd.SysProcAttr = &syscall.SysProcAttr{Setpgid: true}
				if err := cmd.Start(); err != nil {
					return nil, &out
				}
				return cmd, &out
			}
			trace := func() string { b, _ := os.ReadFile(box.Trace()); return string(b) }
			waitFor := func(line string, d time.Duration) bool {
				deadline := time.Now().Add(d)
				for time.Now().Before(deadline) {
					if strings.Contains(trace(), line+"\n") {
						return true
					}
					time.Sleep(50 * time.Millisecond)
				}
				return false
			}
			waitExit := func(cmd *exec.Cmd, d time.Duration) (int, bool) {
				done := make(chan error, 1)
				go func() { done <- cmd.Wait() }()
				select {
				case err := <-done:
					if ee, ok := err.(*exec.ExitError); ok {
						return ee.ExitCode(), true
					}
					return 0, true
				case <-time.After(d):
					syscall.Kill(-cmd.Process.Pid, syscall.SIGKILL)
					<-done
					return -1, false
				}
			}
			release := func() {
				os.WriteFile(filepath.Join(marks, "go-A"), nil, 0o644)
				os.WriteFile(filepath.Join(marks, "go-B"), nil, 0o644)
			}
			defer release()
			replay := map[string]any{"scenario": sc.name}
			vio := func(sig, format string, a ...any) {
				replay["trace"] = strings.Fields(trace())
				c.R.Violate(vc.Violation{Sig: sig, Detail: sc.name + ": " + fmt.Sprintf(format, a...), Replay: replay})
			}
			a, aout := start("A", sc.envA, "build", "//p:hold")
			if a == nil || !waitFor("start-A", 90*time.Second) {
				c.R.Cap("process scenario %q: build A did not reach its command within 90 s (%s): scenario skipped", sc.name, tail(aout.String(), 200))
				if a != nil {
					release()
					waitExit(a, 30*time.Second)
				}
				return
			}
			var mid *exec.Cmd
			if len(sc.middle) > 0 {
				// it either finishes at once (and may have removed the holder's lock file) or waits for the holder
				mid, _ = start("M", nil, sc.middle...)
				replay["middle_command"] = "grog " + strings.Join(sc.middle, " ")
				if mid != nil {
					done := make(chan struct{})
					go func() { mid.Wait(); close(done) }()
					select {
					case <-done:
						mid = nil
					case <-time.After(3 * time.Second):
					}
				}
			}
			defer func() {
				if mid != nil {
					syscall.Kill(-mid.Process.Pid, syscall.SIGKILL)
				}
			}()
			if sc.killA {
				a.Process.Kill() // the grog process only: its command's shell survives
				a.Wait()
			}
			b, bout := start("B", nil, "build", "//p:hold")
			if b == nil {
				c.R.BrokenCheck("could not start build B")
				return
			}
			if sc.killA {
				// the holder is dead: the lock it left behind must not block the new build
				if !waitFor("start-B", 30*time.Second) {
					vio("C10:lock-of-dead-holder-blocks-new-build", "the holder was killed 30 s ago (its command's shell is still alive) but the new build has not acquired the workspace lock: %s", tail(bout.String(), 300))
				}
				release()
				waitExit(b, 60*time.Second)
				c.R.AddCounts(1, 1, 2, 1)
				c.R.Outcome("process|" + sc.name)
				c.R.Nontrivial("process|" + sc.name)
				return
			}
			// B must wait: an overlap is a violation only when it is observed
			if waitFor("start-B", 4*time.Second) && !strings.Contains(trace(), "end-A\n") {
				vio("C10:two-builds-run-at-the-same-time", "build B's command started while build A's command was still running (both processes are past lock acquisition); output of B: %s", tail(bout.String(), 300))
			}
			os.WriteFile(filepath.Join(marks, "go-A"), nil, 0o644)
			if code, ok := waitExit(a, 60*time.Second); !ok {
				vio("C10:holder-does-not-exit", "build A did not exit within 60 s after its command finished")
			} else if code != 0 && len(sc.middle) == 0 {
				vio("C10:holder-fails", "build A exited %d: %s", code, tail(aout.String(), 300))
			}
			if !waitFor("start-B", 60*time.Second) {
				vio("C10:waiter-never-acquires:after-release", "build A released the lock 60 s ago but build B has not acquired it: %s", tail(bout.String(), 300))
			}
			os.WriteFile(filepath.Join(marks, "go-B"), nil, 0o644)
			waitExit(b, 60*time.Second)
			c.R.AddCounts(1, 1, 2, 1)
			c.R.Outcome("process|" + sc.name)
			c.R.Nontrivial("process|" + sc.name)
		}(sc)
	}
	wg.Wait()
}

// lockWaiterInterrupted: a build that is still WAITING for the workspace lock (another build holds it) receives
// SIGINT / SIGTERM: it must exit non-zero within a bounded time and must not have started any command.
func lockWaiterInterrupted(c *Ctx) {
	grog, err := vc.BuildGrog("grog", nil)
	if err != nil {
		c.R.BrokenCheck("%v", err)
		return
	}
	base, cleanup := scratchBase(c, "c18w")
	defer cleanup()
	src := &hist.Source{Files: map[string]hist.File{"p/in.txt": {Content: "in"}}}
	src.Targets = append(src.Targets, hist.Target{Pkg: "p", Name: "hold", Tags: []string{"no-cache"}, Command: `echo "start-$WHO" >> "$VTRACE"
while [ ! -e "$VMARK/go-$WHO" ]; do sleep 0.05; done
echo "end-$WHO" >> "$VTRACE"`})
	for _, sig := range []syscall.Signal{syscall.SIGINT, syscall.SIGTERM} {
		box, err := hist.NewBox(base)
		if err != nil {
			c.R.BrokenCheck("%v", err)
			return
		}
		src.Materialize(box.WS(), nil)
		marks := filepath.Join(box.Dir, "marks")
		os.MkdirAll(marks, 0o755)
		os.WriteFile(box.Trace(), nil, 0o644)
		start := func(who string) (*exec.Cmd, string) {
			outPath := filepath.Join(box.Dir, "out-"+who)
			f, _ := os.Create(outPath)
			cmd := exec.Command(grog, "build", "//p:hold")
			cmd.Dir = box.WS()
			cmd.Env = []string{"PATH=" + os.Getenv("PATH"), "HOME=" + filepath.Join(box.Dir, "home"), "GROG_ROOT=" + box.Root(), "GROG_DISABLE_TEA=true", "GROG_COLOR=no",
				"VTRACE=" + box.Trace(), "VMARK=" + marks, "WHO=" + who, "TMPDIR=" + os.TempDir()}
			cmd.Stdout, cmd.Stderr = f, f
			cmd.SysProcAttr = &syscall.SysProcAttr{Setpgid: true}
			if err := cmd.Start(); err != nil {
				return nil, outPath
			}
			return cmd, outPath
		}
		contains := func(p, needle string, d time.Duration) bool {
			deadline := time.Now().Add(d)
			for time.Now().Before(deadline) {
				if b, _ := os.ReadFile(p); strings.Contains(string(b), needle) {
					return true
				}
				time.Sleep(50 * time.Millisecond)
			}
			return false
		}
		name := fmt.Sprintf("%v while waiting for the workspace lock", sig)
		a, _ := start("A")
		if a == nil || !contains(box.Trace(), "start-A", 90*time.Second) {
			c.R.Cap("scenario %q: build A did not reach its command: skipped", name)
		} else {
			b, bout := start("B")
			if b != nil && contains(bout, "Waiting", 60*time.Second) {
				b.Process.Signal(sig)
				done := make(chan error, 1)
				go func() { done <- b.Wait() }()
				replay := map[string]any{"scenario": name}
				select {
				case werr := <-done:
					outB, _ := os.ReadFile(bout)
					replay["output_of_the_waiter"] = tail(string(outB), 500)
					if werr == nil {
						c.R.Violate(vc.Violation{Sig: "C18:exit-status-zero-after-signal:at:waiting-for-the-workspace-lock", Detail: name + ": the waiting build exited 0 although it was interrupted before it built anything", Replay: replay})
					}
					if tr, _ := os.ReadFile(box.Trace()); strings.Contains(string(tr), "start-B") {
						c.R.Violate(vc.Violation{Sig: "C18:targets-start-after-signal:at:waiting-for-the-workspace-lock", Detail: name + ": the interrupted waiter started its command", Replay: replay})
					}
				case <-time.After(30 * time.Second):
					c.R.Violate(vc.Violation{Sig: "C18:no-exit-after-signal:at:waiting-for-the-workspace-lock", Detail: name + ": the waiting build did not exit within 30 s of the signal", Replay: replay})
					syscall.Kill(-b.Process.Pid, syscall.SIGKILL)
					<-done
				}
				c.R.Nontrivial("lock-waiter|" + name)
			} else {
				c.R.Cap("scenario %q: build B never printed that it is waiting for the lock: skipped", name)
				if b != nil {
					syscall.Kill(-b.Process.Pid, syscall.SIGKILL)
					b.Wait()
				}
			}
		}
		os.WriteFile(filepath.Join(marks, "go-A"), nil, 0o644)
		os.WriteFile(filepath.Join(marks, "go-B"), nil, 0o644)
		if a != nil {
			done := make(chan error, 1)
			go func() { done <- a.Wait() }()
			select {
			case <-done:
			case <-time.After(60 * time.Second):
				syscall.Kill(-a.Process.Pid, syscall.SIGKILL)
				<-done
			}
		}
		c.R.AddCounts(1, 1, 2, 1)
		c.R.Outcome("lock-waiter|" + name)
		box.Remove()
	}
}

// c10StalledHolder: three REAL processes on one workspace. Build A's output goes to a small pipe whose reader stops
// reading once it has seen the summary line that A prints after its last command (a pager, a stalled log collector, a
// terminal in XOFF): A sits in a write between the end of its execution and its exit. B has been waiting for the lock
// since A's command ran; C is started after A has exited. At no moment may two of the three commands be between their
// start and end lines (observed in the trace written by the commands themselves; wall-clock time only bounds how long
// an overlap is waited for), and each waiter gets the lock in the end.
func c10StalledHolder(c *Ctx) {
	grog, err := vc.BuildGrog("grog", nil)
	if err != nil {
		c.R.BrokenCheck("%v", err)
		return
	}
	base, cleanup := scratchBase(c, "c10s")
	defer cleanup()
	const name = "holder stalls on its own output after its last command; a waiter and a third build"
	// a chain with long names: the debug line naming the critical path is larger than the pipe
	src := &hist.Source{Files: map[string]hist.File{"p/in.txt": {Content: "in"}}, Toml: "num_workers = 2\n"}
	prev := ""
	for i := 0; i < 100; i++ {
		n := fmt.Sprintf("t%03d_%s", i, strings.Repeat("x", 110))
		t := hist.Target{Pkg: "p", Name: n, Inputs: []string{"in.txt"}, Command: "true", Tags: []string{"no-cache"}}
		if prev != "" {
			t.Deps = []string{":" + prev}
		}
		src.Targets = append(src.Targets, t)
		prev = n
	}
	src.Targets = append(src.Targets, hist.Target{Pkg: "p", Name: "hold", Deps: []string{":" + prev}, Tags: []string{"no-cache"}, Command: `echo "start-$WHO" >> "$VTRACE"
while [ ! -e "$VMARK/go-$WHO" ]; do sleep 0.05; done
echo "end-$WHO" >> "$VTRACE"`})
	box, err := hist.NewBox(base)
	if err != nil {
		c.R.BrokenCheck("%v", err)
		return
	}
	defer box.Remove()
	src.Materialize(box.WS(), nil)
	marks := filepath.Join(box.Dir, "marks")
	os.MkdirAll(marks, 0o755)
	os.WriteFile(box.Trace(), nil, 0o644)
	environ := func(who string) []string {
		var env []string
		for k, v := range map[string]string{"PATH": os.Getenv("PATH"), "HOME": filepath.Join(box.Dir, "home"), "GROG_ROOT": box.Root(), "GROG_DISABLE_TEA": "true", "GROG_COLOR": "no",
			"VTRACE": box.Trace(), "VMARK": marks, "WHO": who, "TMPDIR": os.TempDir()} {
			env = append(env, k+"="+v)
		}
		return env
	}
	trace := func() string { b, _ := os.ReadFile(box.Trace()); return string(b) }
	waitFor := func(line string, d time.Duration) bool {
		deadline := time.Now().Add(d)
		for time.Now().Before(deadline) {
			if strings.Contains(trace(), line+"\n") {
				return true
			}
			time.Sleep(50 * time.Millisecond)
		}
		return false
	}
	waitExit := func(cmd *exec.Cmd, d time.Duration) bool {
		done := make(chan struct{})
		go func() { cmd.Wait(); close(done) }()
		select {
		case <-done:
			return true
		case <-time.After(d):
			syscall.Kill(-cmd.Process.Pid, syscall.SIGKILL)
			<-done
			return false
		}
	}
	var procs []*exec.Cmd
	release := func() {
		for _, w := range []string{"A", "B", "C"} {
			os.WriteFile(filepath.Join(marks, "go-"+w), nil, 0o644)
		}
	}
	defer func() {
		release()
		for _, p := range procs {
			syscall.Kill(-p.Process.Pid, syscall.SIGKILL)
		}
	}()
	plain := func(who string) (*exec.Cmd, *bytes.Buffer) {
		cmd := exec.Command(grog, "build", "//p:hold")
		cmd.Dir, cmd.Env = box.WS(), environ(who)
		var out bytes.Buffer
		cmd.Stdout, cmd.Stderr = &out, &out
		cmd.SysProcAttr = &syscall.SysProcAttr{Setpgid: true}
		if cmd.Start() != nil {
			return nil, &out
		}
		procs = append(procs, cmd)
		return cmd, &out
	}
	// A: output through a 4 KiB pipe
	pr, pw, err := os.Pipe()
	if err != nil {
		c.R.BrokenCheck("pipe: %v", err)
		return
	}
	const fSetPipeSz = 1031
	syscall.Syscall(syscall.SYS_FCNTL, pw.Fd(), fSetPipeSz, 4096)
	a := exec.Command(grog, "build", "--debug", "//p:hold")
	a.Dir, a.Env = box.WS(), environ("A")
	a.Stdout, a.Stderr = pw, pw
	a.SysProcAttr = &syscall.SysProcAttr{Setpgid: true}
	if err := a.Start(); err != nil {
		c.R.BrokenCheck("start A: %v", err)
		return
	}
	procs = append(procs, a)
	pw.Close()
	stalled, resume := make(chan struct{}), make(chan struct{})
	var amu sync.Mutex
	var aout bytes.Buffer
	go func() {
		defer pr.Close()
		buf := make([]byte, 512)
		seen := false
		for {
			n, err := pr.Read(buf)
			amu.Lock()
			aout.Write(buf[:n])
			hit := !seen && strings.Contains(aout.String(), "Elapsed time:")
			amu.Unlock()
			if hit {
				seen = true
				close(stalled)
				<-resume
			}
			if err != nil {
				return
			}
		}
	}()
	resumed := false
	doResume := func() {
		if !resumed {
			resumed = true
			close(resume)
		}
	}
	defer doResume()
	replay := map[string]any{"scenario": name}
	vio := func(sig, format string, a ...any) {
		replay["trace"] = strings.Fields(trace())
		c.R.Violate(vc.Violation{Sig: sig, Detail: name + ": " + fmt.Sprintf(format, a...), Replay: replay})
	}
	overlap := func() string {
		running := map[string]bool{}
		for _, l := range strings.Fields(trace()) {
			if w, ok := strings.CutPrefix(l, "start-"); ok {
				running[w] = true
				if len(running) > 1 {
					return fmt.Sprint(vc.SortedKeys(running))
				}
			} else if w, ok := strings.CutPrefix(l, "end-"); ok {
				delete(running, w)
			}
		}
		return ""
	}
	if !waitFor("start-A", 120*time.Second) {
		c.R.Cap("process scenario %q: build A did not reach its command within 120 s: scenario skipped", name)
		return
	}
	b, bout := plain("B")
	if b == nil {
		c.R.BrokenCheck("could not start build B")
		return
	}
	time.Sleep(1500 * time.Millisecond) // B is waiting for the lock by now (it polls once per second)
	os.WriteFile(filepath.Join(marks, "go-A"), nil, 0o644)
	select {
	case <-stalled:
	case <-time.After(60 * time.Second):
		c.R.Cap("process scenario %q: build A did not print its summary within 60 s of its last command: scenario skipped", name)
		return
	}
	// A sits in a write after its execution for three seconds (B polls the lock once per second), then it is allowed to exit
	time.Sleep(3 * time.Second)
	replay["b_started_while_a_was_stalled"] = strings.Contains(trace(), "start-B\n")
	doResume()
	if !waitExit(a, 60*time.Second) {
		vio("C10:holder-does-not-exit", "build A did not exit within 60 s after its output was read again")
		return
	}
	cc, cout := plain("C")
	if cc == nil {
		c.R.BrokenCheck("could not start build C")
		return
	}
	// whichever of B and C gets the lock first (no order is promised), the other one waits for it
	waitEither := func(d time.Duration) string {
		deadline := time.Now().Add(d)
		for time.Now().Before(deadline) {
			t := trace()
			for _, w := range []string{"B", "C"} {
				if strings.Contains(t, "start-"+w+"\n") {
					return w
				}
			}
			time.Sleep(50 * time.Millisecond)
		}
		return ""
	}
	first := waitEither(60 * time.Second)
	if first == "" {
		vio("C10:waiter-never-acquires:after-release", "build A exited 60 s ago but neither build B nor build C has acquired the lock: B: %s | C: %s", tail(bout.String(), 200), tail(cout.String(), 200))
		return
	}
	second := map[string]string{"B": "C", "C": "B"}[first]
	// the other one must wait: an overlap is a violation only when it is observed
	waitFor("start-"+second, 4*time.Second)
	if o := overlap(); o != "" {
		vio("C10:two-builds-run-at-the-same-time", "the commands of builds %s were running at the same time (both processes are past lock acquisition); output of B: %s | of C: %s", o, tail(bout.String(), 200), tail(cout.String(), 200))
		return
	}
	os.WriteFile(filepath.Join(marks, "go-"+first), nil, 0o644)
	waitExit(map[string]*exec.Cmd{"B": b, "C": cc}[first], 60*time.Second)
	if !waitFor("start-"+second, 60*time.Second) {
		vio("C10:waiter-never-acquires:after-release", "build %s exited 60 s ago but build %s has not acquired the lock: B: %s | C: %s", first, second, tail(bout.String(), 200), tail(cout.String(), 200))
		return
	}
	os.WriteFile(filepath.Join(marks, "go-"+second), nil, 0o644)
	waitExit(map[string]*exec.Cmd{"B": b, "C": cc}[second], 60*time.Second)
	if o := overlap(); o != "" {
		vio("C10:two-builds-run-at-the-same-time", "the commands of builds %s were running at the same time", o)
	}
	c.R.AddCounts(1, 1, 3, 1)
	c.R.Outcome("process|" + name)
	c.R.Nontrivial("process|" + name)
}
