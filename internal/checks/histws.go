package checks

import (
	"fmt"
	"sort"
	"strings"

	"verif/internal/hist"
)

// ---- the model workspace shared by the build-history checks ----------------
//
//	//a:lib   glob inputs src/*.txt, file output out/lib.txt (+ optional extra.txt); renders every
//	          input as name=content so that file boundaries are observable
//	//a:al    alias -> :lib;  //a:al2 alias -> //a:al
//	//b:app   depends on //a:lib ONLY through the alias chain al2 -> al (or directly, toggle), input app.in,
//	          directory output dist/ (file, executable, symlink, empty sub-directory)
//	//b:top   no outputs, depends on :app, records the digest of what it read
//	//b:tool  bin_output tool.sh
//	//b:gen   depends on :tool, runs $(bin :tool) -> gen.txt  (a restored binary must still run)

const traceStart = `echo "start $GROG_TARGET" >> "$VTRACE"`

// toggles of the source state
const (
	tgAppend = iota
	tgShift
	tgAddFile
	tgRename
	tgCmdComment
	tgCmdOutput
	tgExtraOut
	tgFpValue
	tgFpShift
	tgDirectEdge
	tgAppIn
	tgToolIn
	tgPlatform
	tgMoveInput
	tgAppCmdComment
	tgSharedEdit
	tgSharedShift
	tgToolCmdComment
	tgGenExtra
	numToggles
)

var toggleNames = []string{
	"append-byte-to-f1", "shift-byte-f1-end-to-f2-start", "add-file-under-glob", "rename-file-under-glob",
	"lib-command-comment-only", "lib-command-changes-output", "lib-declare-extra-output",
	"lib-fingerprint-value", "lib-fingerprint-move-equals-sign", "app-alias-edge-to-direct-edge",
	"edit-app-input", "edit-tool-input", "switch-platform", "move-gen-input-to-other-declared-name", "app-command-comment-only", "edit-file-behind-symlinked-input-same-length", "shift-byte-between-files-behind-two-adjacent-symlinked-inputs", "tool-command-comment-only", "gen-declares-output-with-same-bytes-as-lib-extra",
}

type wsState struct {
	T [numToggles]bool
}

func (w wsState) key() string {
	var sb strings.Builder
	for _, b := range w.T {
		if b {
			sb.WriteByte('1')
		} else {
			sb.WriteByte('0')
		}
	}
	return sb.String()
}

func (w wsState) platform() string {
	if w.T[tgPlatform] {
		return "linux/arm64"
	}
	return "linux/amd64"
}

func (w wsState) describe() []string {
	var out []string
	for i, b := range w.T {
		if b {
			out = append(out, toggleNames[i])
		}
	}
	return out
}

// source renders the toggle state into a workspace definition.
func (w wsState) source() *hist.Source {
	s := &hist.Source{Files: map[string]hist.File{}}
	f1, f2 := "AB", "C"
	if w.T[tgShift] {
		f1, f2 = "A", "BC"
	}
	if w.T[tgAppend] {
		f1 += "x"
	}
	s.Files["a/src/f1.txt"] = hist.File{Content: f1}
	if w.T[tgRename] {
		s.Files["a/src/f2b.txt"] = hist.File{Content: f2}
	} else {
		s.Files["a/src/f2.txt"] = hist.File{Content: f2}
	}
	if w.T[tgAddFile] {
		s.Files["a/src/f3.txt"] = hist.File{Content: "N"}
	}
	// two adjacent inputs of lib (and libx) are symbolic links to files outside the glob
	s1, s2 := "PQ", "R"
	if w.T[tgSharedShift] {
		s1, s2 = "P", "QR"
	}
	if w.T[tgSharedEdit] {
		s1 = s1[:len(s1)-1] + "Z"
	}
	s.Files["a/shared/s1.txt"] = hist.File{Content: s1}
	s.Files["a/shared/s2.txt"] = hist.File{Content: s2}
	s.Files["a/src/e1.txt"] = hist.File{Link: "../shared/s1.txt"}
	s.Files["a/src/e2.txt"] = hist.File{Link: "../shared/s2.txt"}
	prefix := "lib"
	if w.T[tgCmdOutput] {
		prefix = "LIB2"
	}
	libCmd := traceStart + "\n"
	if w.T[tgCmdComment] {
		libCmd += "# a comment that does not change what the command produces\n"
	}
	libCmd += `mkdir -p out
acc=""
for f in src/*.txt; do
  if [ -e "$f" ]; then acc="$acc$(basename "$f")=$(cat "$f");"; fi
done
printf '` + prefix + `{%s}' "$acc" > out/lib.txt
printf 'extra' > extra.txt
echo "end $GROG_TARGET" >> "$VTRACE"`
	// libx is declared BEFORE lib with the very same input patterns but an exclusion: whatever is
	// remembered about "src/*.txt" for libx must not leak into lib
	libxCmd := traceStart + `
acc=""
for f in src/*.txt; do
  case "$f" in src/f2*) continue ;; esac
  if [ -e "$f" ]; then acc="$acc$(basename "$f")=$(cat "$f");"; fi
done
printf 'libx{%s}' "$acc" > libx.txt
echo "end $GROG_TARGET" >> "$VTRACE"`
	s.Targets = append(s.Targets, hist.Target{Pkg: "a", Name: "libx", Command: libxCmd, Inputs: []string{"src/*.txt"}, Exclude: []string{"src/f2*.txt"}, Outputs: []string{"libx.txt"}})
	lib := hist.Target{Pkg: "a", Name: "lib", Command: libCmd, Inputs: []string{"src/*.txt"}, Outputs: []string{"out/lib.txt"}}
	if w.T[tgExtraOut] {
		lib.Outputs = append(lib.Outputs, "extra.txt")
	}
	switch {
	case w.T[tgFpShift] && w.T[tgFpValue]:
		lib.Fingerprint = map[string]string{"k=v2": "w"}
	case w.T[tgFpShift]:
		lib.Fingerprint = map[string]string{"k=v": "w"}
	case w.T[tgFpValue]:
		lib.Fingerprint = map[string]string{"k": "v2=w"}
	default:
		lib.Fingerprint = map[string]string{"k": "v=w"}
	}
	s.Targets = append(s.Targets, lib)
	// an alias of an alias: //b:app reaches //a:lib only through the chain al2 -> al -> lib
	s.Aliases = append(s.Aliases, hist.Alias{Pkg: "a", Name: "al", Actual: ":lib"}, hist.Alias{Pkg: "a", Name: "al2", Actual: "//a:al"})

	appIn := "app-v1"
	if w.T[tgAppIn] {
		appIn = "app-v2"
	}
	s.Files["b/app.in"] = hist.File{Content: appIn}
	appDep := "//a:al2"
	if w.T[tgDirectEdge] {
		appDep = "//a:lib"
	}
	appCmd := traceStart + "\n"
	if w.T[tgAppCmdComment] {
		appCmd += "# a comment: app re-executes but reproduces the identical directory tree\n"
	}
	appCmd += `rm -rf dist
mkdir -p dist/empty dist/sub
printf 'app[%s|%s|%s]' "$(cat app.in)" "$(cat "$(output //a:lib 0)")" "$(cat ../a/out/lib.txt)" > dist/app.txt
printf '#!/bin/sh\necho run\n' > dist/sub/run.sh
chmod +x dist/sub/run.sh
ln -s app.txt dist/link
echo "end $GROG_TARGET" >> "$VTRACE"`
	s.Targets = append(s.Targets, hist.Target{Pkg: "b", Name: "app", Command: appCmd, Inputs: []string{"app.in"}, Outputs: []string{"dir::dist"}, Deps: []string{appDep}})
	topCmd := traceStart + `
echo "read $GROG_TARGET dist/app.txt=$(cat dist/app.txt) link=$(cat dist/link) exec=$(test -x dist/sub/run.sh && echo yes || echo no)" >> "$VTRACE"
echo "end $GROG_TARGET" >> "$VTRACE"`
	s.Targets = append(s.Targets, hist.Target{Pkg: "b", Name: "top", Command: topCmd, Deps: []string{":app"}})

	toolIn := "tool-v1"
	if w.T[tgToolIn] {
		toolIn = "tool-v2"
	}
	s.Files["b/tool.in"] = hist.File{Content: toolIn}
	toolCmd := traceStart + "\n"
	if w.T[tgToolCmdComment] {
		toolCmd += "# a comment: the tool is rebuilt (rewritten in place) but comes out identical\n"
	}
	toolCmd += `printf '#!/bin/sh\necho "made by %s"\n' "$(cat tool.in)" > tool.sh
echo "end $GROG_TARGET" >> "$VTRACE"`
	s.Targets = append(s.Targets, hist.Target{Pkg: "b", Name: "tool", Command: toolCmd, Inputs: []string{"tool.in"}, BinOutput: "tool.sh"})
	// gen declares two literal (non-glob) inputs of which only one exists; the toggle moves the
	// same bytes to the other declared name
	if w.T[tgMoveInput] {
		s.Files["b/gen2.in"] = hist.File{Content: "gen-v1"}
	} else {
		s.Files["b/gen.in"] = hist.File{Content: "gen-v1"}
	}
	genCmd := traceStart + `
a="$(cat gen.in 2>/dev/null || echo none)"
b="$(cat gen2.in 2>/dev/null || echo none)"
printf 'gen[%s|%s|%s]' "$a" "$b" "$($(bin :tool))" > gen.txt
printf 'extra' > gen.extra
echo "end $GROG_TARGET" >> "$VTRACE"`
	gen := hist.Target{Pkg: "b", Name: "gen", Command: genCmd, Inputs: []string{"gen.in", "gen2.in"}, Outputs: []string{"./gen.txt"}, Deps: []string{":tool"}} // the output is spelled non-canonically on purpose
	if w.T[tgGenExtra] {
		gen.Outputs = append(gen.Outputs, "gen.extra") // same bytes (same digest) as //a:lib's extra.txt
	}
	s.Targets = append(s.Targets, gen)
	return s
}

// graph helpers over a Source -------------------------------------------------

func resolveLabel(pkg, l string) string {
	if strings.HasPrefix(l, ":") {
		return "//" + pkg + l
	}
	if strings.HasPrefix(l, "//") && !strings.Contains(l, ":") {
		parts := strings.Split(l[2:], "/")
		return l + ":" + parts[len(parts)-1]
	}
	return l
}

// depsOf returns the direct *target* dependencies of a target (aliases resolved).
func depsOf(s *hist.Source, t hist.Target) []string {
	alias := map[string]string{}
	for _, a := range s.Aliases {
		alias["//"+a.Pkg+":"+a.Name] = resolveLabel(a.Pkg, a.Actual)
	}
	var out []string
	for _, d := range t.Deps {
		l := resolveLabel(t.Pkg, d)
		for i := 0; i < 10; i++ {
			if n, ok := alias[l]; ok {
				l = n
			} else {
				break
			}
		}
		out = append(out, l)
	}
	sort.Strings(out)
	return out
}

// closure returns the selected targets for a build pattern ("//..." or a label) in topological order.
func closure(s *hist.Source, pattern string) []string {
	var roots []string
	if pattern == "//..." {
		for _, t := range s.Targets {
			roots = append(roots, t.Label())
		}
	} else {
		roots = []string{pattern}
	}
	seen := map[string]bool{}
	var order []string
	var visit func(l string)
	visit = func(l string) {
		if seen[l] {
			return
		}
		seen[l] = true
		t := s.Target(l)
		if t == nil {
			return
		}
		for _, d := range depsOf(s, *t) {
			visit(d)
		}
		order = append(order, l)
	}
	sort.Strings(roots)
	for _, r := range roots {
		visit(r)
	}
	return order
}

func fmtSet(m map[string]bool) string {
	var ks []string
	for k := range m {
		ks = append(ks, k)
	}
	sort.Strings(ks)
	return fmt.Sprint(ks)
}
