package checks

import (
	"bytes"
	"os"
	"strings"

	"verif/internal/instr"
	"verif/internal/vc"
)

// casRace runs the concurrent-writers exploration of the real Cas; the
// signatures are reported under the given property id.
func casRace(c *Ctx, prop string) {
	ov := schedOverlay(c, "sched-cas", nil, []string{"casrace"})
	if ov == nil {
		return
	}
	bin, err := vc.BuildHarnessTest("casrace", ov, "casrace", false)
	if err != nil {
		c.R.BrokenCheck("%v", err)
		return
	}
	bound, budget := "3", "25"
	if c.Thorough {
		bound, budget = "4", "240"
	}
	sub := vc.NewReport(prop, c.Tier)
	vc.RunHarnessShards(sub, vc.HarnessRun{Bin: bin, Env: map[string]string{"VERIF_TIER": c.Tier, "VERIF_BOUND": bound, "VERIF_BUDGET_S": budget, "GOMAXPROCS": "1"}, Tag: "casrace"}, 8, 8)
	// re-label C07:* signatures for the claiming property
	if prop != "C07" {
		sub.Relabel(func(sig string) string { return prop + strings.TrimPrefix(sig, "C07") })
	}
	c.R.Merge(sub, func(sig string) bool { return strings.HasPrefix(sig, prop+":") })
}

// outOrder explores the completion orders of a target's concurrent output
// writers in the real Registry.WriteOutputs; signatures are re-labelled for prop.
// loadQuiescence: Registry.LoadOutputs with one blob missing under every schedule with a bounded number
// of deviations; when it returns, none of its loaders may still be running.
func loadQuiescence(c *Ctx, prop string, only ...string) {
	ov := schedOverlay(c, "sched-outorder", []string{"internal/output/registry.go", "internal/maps/mutex_map.go"}, []string{"outorder"})
	if ov == nil {
		return
	}
	bin, err := vc.BuildHarnessTest("outorder", ov, "outorder", false)
	if err != nil {
		c.R.BrokenCheck("%v", err)
		return
	}
	bound, budget := "2", "20"
	if c.Thorough {
		bound, budget = "4", "200"
	}
	sub := vc.NewReport(prop, c.Tier)
	vc.RunHarness(sub, vc.HarnessRun{Bin: bin, Env: map[string]string{"VERIF_TIER": c.Tier, "VERIF_BOUND": bound, "VERIF_BUDGET_S": budget, "GOMAXPROCS": "1", "VERIF_OUTORDER_MODE": "load"}, Tag: "loadquiescence"})
	sub.Relabel(func(sig string) string { return prop + strings.TrimPrefix(sig, "LOAD") })
	c.R.Merge(sub, func(sig string) bool {
		if !strings.HasPrefix(sig, prop+":") {
			return false
		}
		for _, o := range only {
			if strings.Contains(sig, o) {
				return true
			}
		}
		return len(only) == 0
	})
}

func outOrder(c *Ctx, prop string) {
	ov := schedOverlay(c, "sched-outorder", []string{"internal/output/registry.go", "internal/maps/mutex_map.go"}, []string{"outorder"})
	if ov == nil {
		return
	}
	bin, err := vc.BuildHarnessTest("outorder", ov, "outorder", false)
	if err != nil {
		c.R.BrokenCheck("%v", err)
		return
	}
	bound, budget := "2", "20"
	if c.Thorough {
		bound, budget = "3", "200"
	}
	sub := vc.NewReport(prop, c.Tier)
	// one process: the canonical schedule's hash is the reference for all other schedules
	vc.RunHarness(sub, vc.HarnessRun{Bin: bin, Env: map[string]string{"VERIF_TIER": c.Tier, "VERIF_BOUND": bound, "VERIF_BUDGET_S": budget, "GOMAXPROCS": "1"}, Tag: "outorder"})
	if prop != "C09" {
		sub.Relabel(func(sig string) string { return prop + strings.TrimPrefix(sig, "C09") })
	}
	c.R.Merge(sub, func(sig string) bool { return strings.HasPrefix(sig, prop+":") })
}

// oneKey: concurrent read- and write-throughs of ONE key through the real RemoteWrapper over the real
// FileSystemCache; every file-system call of fs.go is a scheduling point (the crash-point instrumenter's
// points, bound to the scheduler instead of the fault injector).
func oneKey(c *Ctx, prop string) {
	ov := schedOverlay(c, "sched-rthrough", []string{"internal/caching/backends/remote_wrapper.go"}, []string{"rthrough"})
	if ov == nil {
		return
	}
	const fsGo = "internal/caching/backends/fs.go"
	src, err := os.ReadFile(vc.SourceFor(fsGo))
	if err != nil {
		c.R.BrokenCheck("%v", err)
		return
	}
	out, n, err := instr.InsertCrashPoints(fsGo, src)
	if err != nil || n == 0 {
		c.R.BrokenCheck("instrumenting %s: %d points, %v", fsGo, n, err)
		return
	}
	out = bytes.Replace(out, []byte(`import "grog/internal/zverif/vfault"`), []byte(`import vfault "grog/internal/zverif/vs"`), 1)
	if err := ov.AddContent("sched-rthrough", fsGo, out); err != nil {
		c.R.BrokenCheck("overlay: %v", err)
		return
	}
	c.R.Set("one_key_fs_scheduling_points", n)
	bin, err := vc.BuildHarnessTest("rthrough", ov, "rthrough", false)
	if err != nil {
		c.R.BrokenCheck("%v", err)
		return
	}
	bound, budget := "2", "20"
	if c.Thorough {
		bound, budget = "3", "200"
	}
	sub := vc.NewReport(prop, c.Tier)
	vc.RunHarnessShards(sub, vc.HarnessRun{Bin: bin, Env: map[string]string{"VERIF_TIER": c.Tier, "VERIF_BOUND": bound, "VERIF_BUDGET_S": budget, "GOMAXPROCS": "1"}, Tag: "onekey"}, 8, 8)
	c.R.Merge(sub, func(sig string) bool { return strings.HasPrefix(sig, prop+":") })
}
