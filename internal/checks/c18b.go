package checks

import (
	"fmt"
	"os"
	"path/filepath"
	"strings"
	"sync"
	"time"

	"verif/internal/hist"
	"verif/internal/vc"
)

// signalSource: num_workers=1 and five targets that each take a little while,
// so that at any signal point several targets are still pending.
func signalSource() *hist.Source {
	s := &hist.Source{Files: map[string]hist.File{"p/in.txt": {Content: "in"}}, Toml: "num_workers = 1\n"}
	for _, n := range []string{"s1", "s2", "s3", "s4", "s5"} {
		s.Targets = append(s.Targets, hist.Target{Pkg: "p", Name: n, Inputs: []string{"in.txt"}, Outputs: []string{n + ".out"}, Command: traceStart + `
sleep 0.4
printf '` + n + `' > ` + n + `.out
echo "end $GROG_TARGET" >> "$VTRACE"`})
	}
	// a directory output: its file blobs, its tree and its target result are written in that order
	s.Targets = append(s.Targets, hist.Target{Pkg: "p", Name: "s0dir", Inputs: []string{"in.txt"}, Outputs: []string{"dir::dd"}, Command: traceStart + `
rm -rf dd && mkdir -p dd/sub
printf 'one' > dd/one.txt
printf 'two' > dd/two.txt
printf 'three' > dd/sub/three.txt
echo "end $GROG_TARGET" >> "$VTRACE"`})
	return s
}

// selfSignalSource: one target's command interrupts grog itself while it is
// running (the deterministic way to deliver a signal "during a command").
func selfSignalSource(sig string, trap bool) *hist.Source {
	s := &hist.Source{Files: map[string]hist.File{"p/in.txt": {Content: "in"}}, Toml: "num_workers = 1\n"}
	pre := ""
	if trap {
		pre = "trap '' TERM INT HUP\n"
	}
	s.Targets = append(s.Targets, hist.Target{Pkg: "p", Name: "victim", Inputs: []string{"in.txt"}, Outputs: []string{"victim.out"}, Command: traceStart + "\n" + pre + `echo "signal sent-by-command" >> "$VTRACE"
kill -` + sig + ` $PPID
sleep 2
echo "survived $GROG_TARGET" >> "$VTRACE"
touch "$VMARK/survived"
printf 'victim' > victim.out
echo "end $GROG_TARGET" >> "$VTRACE"`})
	s.Targets = append(s.Targets, hist.Target{Pkg: "p", Name: "later", Deps: []string{":victim"}, Outputs: []string{"later.out"}, Command: traceStart + `
printf 'later' > later.out
echo "end $GROG_TARGET" >> "$VTRACE"`})
	return s
}

// orphanSource: while armed, the victim's shell starts a long-lived child and then interrupts grog; the
// child outlives the interrupted shell (and grog). The next build must not have to wait for it.
func orphanSource(sig string) *hist.Source {
	s := &hist.Source{Files: map[string]hist.File{"p/in.txt": {Content: "in"}}, Toml: "num_workers = 1\n"}
	s.Targets = append(s.Targets, hist.Target{Pkg: "p", Name: "victim", Inputs: []string{"in.txt"}, Outputs: []string{"victim.out"}, Command: traceStart + `
if [ -e "$VMARK/armed" ]; then
  sleep 25 &
  echo $! > "$VMARK/child.pid"
  echo "signal sent-by-command" >> "$VTRACE"
  kill -` + sig + ` $PPID
  wait
fi
printf 'victim' > victim.out
echo "end $GROG_TARGET" >> "$VTRACE"`})
	return s
}

func c18Signals(c *Ctx) { signalEnumeration(c, true) }

// signalEnumeration: withSelfSignal adds the scenarios in which the running command interrupts grog.
func signalEnumeration(c *Ctx, withSelfSignal bool) {
	grog, err := vc.BuildGrog("grog", nil)
	if err != nil {
		c.R.BrokenCheck("%v", err)
		return
	}
	fbin, _ := faultBinary(c)
	if fbin == "" {
		return
	}
	abin := auditBinary(c)
	base, cleanup := scratchBase(c, "c18")
	defer cleanup()
	src := signalSource()
	pre, err := hist.NewBox(base)
	if err != nil {
		c.R.BrokenCheck("%v", err)
		return
	}
	defer pre.Remove()
	src.Materialize(pre.WS(), nil)
	// expected outputs
	want := map[string]map[string]hist.Entry{}
	{
		cl, _ := pre.CloneTo(base)
		if rr := cl.Run(grog, hist.RunOpts{Args: []string{"build", "//..."}}); rr.Exit != 0 {
			c.R.BrokenCheck("clean build failed: %s", tail(rr.Output, 300))
			return
		}
		for _, t := range src.Targets {
			want[t.Label()] = outputsListing(cl.WS(), t)
		}
		cl.Remove()
	}
	logBox, _ := pre.CloneTo(base)
	flog := filepath.Join(logBox.Dir, "faultlog")
	if rr := logBox.Run(fbin, hist.RunOpts{Args: []string{"build", "//..."}, Env: map[string]string{"VERIF_FAULT_LOG": flog}}); rr.Exit != 0 {
		c.R.BrokenCheck("fault-free run of the instrumented binary failed: %s", tail(rr.Output, 300))
		return
	}
	type sc struct {
		spec, cls string
		stall     bool
	}
	var cases []sc
	cnt := map[string]int{}
	per := map[string]int{}
	perStall := map[string]int{}
	lines := readLines(flog)
	for _, s := range lines {
		cnt[s]++
		cls := siteClass(s)
		per[cls]++
		sig := "INT"
		if (cnt[s]+len(cls))%2 == 0 {
			sig = "TERM"
		}
		// the signal arrives in the middle of a slow write into the cache: the writing goroutine stays at the
		// call for longer than grog takes to exit (a large output, a slow disk)
		if strings.HasPrefix(cls, "fs.go:") {
			perStall[cls]++
			if c.Thorough || perStall[cls] <= 2 {
				cases = append(cases, sc{fmt.Sprintf("%s#%d:%s", s, cnt[s], sig), cls + ":slow", true})
			}
		}
		if !c.Thorough && per[cls] > 3 {
			continue
		}
		cases = append(cases, sc{fmt.Sprintf("%s#%d:%s", s, cnt[s], sig), cls, false})
		if c.Thorough {
			other := map[string]string{"INT": "TERM", "TERM": "INT"}[sig]
			cases = append(cases, sc{fmt.Sprintf("%s#%d:%s", s, cnt[s], other), cls, false})
		}
	}
	logBox.Remove()
	c.R.Set("signal_point_instances", len(lines))
	c.R.Set("signal_cases_run", len(cases))
	if len(cases) < len(lines) {
		c.R.Cap("quick tier delivers a signal at no more than 3 instances per call site (%d of %d instances); thorough delivers SIGINT and SIGTERM at every instance", len(cases), len(lines))
	}
	followUp := func(box *hist.Box, s *hist.Source, wantOut map[string]map[string]hist.Entry, vio func(sig, format string, a ...any), cls string) {
		// the interrupted build may leave its lock file behind; its PID may meanwhile belong to an unrelated live
		// process (PID reuse): whatever the file says, nobody holds the lock
		lockFile := filepath.Join(box.Root(), hist.CachePrefix(box.WS()), "lockfile")
		if _, err := os.Stat(lockFile); err == nil {
			os.WriteFile(lockFile, []byte(fmt.Sprint(os.Getpid())), 0o644)
		}
		r2 := box.Run(grog, hist.RunOpts{Args: []string{"build", "//..."}, Ceiling: 45 * time.Second})
		if r2.TimedOut {
			vio("C18:follow-up-build-hangs:after-signal-at:"+cls, "the next build did not exit (stale lock not recovered?)")
			return
		}
		if r2.Exit != 0 {
			vio("C18:follow-up-build-fails:after-signal-at:"+cls, "the next build exited %d: %s", r2.Exit, tail(r2.Output, 400))
			return
		}
		for _, t := range s.Targets {
			if d := hist.DiffListing(outputsListing(box.WS(), t), wantOut[t.Label()]); d != "" {
				vio("C18:follow-up-build-wrong-output:after-signal-at:"+cls, "%s differs from a from-scratch build: %s", t.Label(), d)
				return
			}
		}
		// ... and what the follow-up build recorded restores the same outputs (C01): whatever the interrupted build
		// left in the cache, under a digest or a change hash, must not be served later
		for _, t := range s.Targets {
			for _, p := range hist.OutputPaths(t) {
				os.RemoveAll(filepath.Join(box.WS(), p))
			}
		}
		r3 := box.Run(grog, hist.RunOpts{Args: []string{"build", "//..."}, Ceiling: 45 * time.Second})
		if r3.TimedOut || r3.Exit != 0 {
			vio("C18:restore-after-follow-up-build-fails:after-signal-at:"+cls, "outputs deleted, third build: exit %d timed out %v: %s", r3.Exit, r3.TimedOut, tail(r3.Output, 400))
			return
		}
		for _, t := range s.Targets {
			if d := hist.DiffListing(outputsListing(box.WS(), t), wantOut[t.Label()]); d != "" {
				vio("C18:restore-after-follow-up-build-wrong-output:after-signal-at:"+cls, "%s, restored by the third build (outputs deleted, executed %v), differs from a from-scratch build: %s", t.Label(), r3.Started(), d)
				return
			}
		}
	}
	var wg sync.WaitGroup
	sem := make(chan struct{}, 32)
	for _, cs := range cases {
		wg.Add(1)
		sem <- struct{}{}
		go func(cs sc) {
			defer wg.Done()
			defer func() { <-sem }()
			box, err := pre.CloneTo(base)
			if err != nil {
				c.R.BrokenCheck("clone: %v", err)
				return
			}
			defer box.Remove()
			env := map[string]string{"VERIF_SIGNAL": cs.spec}
			if cs.stall {
				env["VERIF_SIGNAL_STALL_MS"] = "20000"
			}
			rr := box.Run(fbin, hist.RunOpts{Args: []string{"build", "//..."}, Env: env, Ceiling: 60 * time.Second})
			replay := map[string]any{"signal": cs.spec, "interrupted_write_is_slow": cs.stall, "exit": rr.Exit, "trace": rr.Trace, "grog_output_tail": tail(rr.Output, 800)}
			vio := func(sig, format string, a ...any) {
				c.R.Violate(vc.Violation{Sig: sig, Detail: fmt.Sprintf("signal %s: ", cs.spec) + fmt.Sprintf(format, a...), Replay: replay})
			}
			if rr.TimedOut {
				vio("C18:no-exit-after-signal:at:"+cs.cls, "grog did not exit within 60 s of the signal")
				return
			}
			// position of the signal in the trace
			sigAt, startsAfter, endsTotal, endsBefore := -1, 0, 0, 0
			for i, l := range rr.Trace {
				if strings.HasPrefix(l, "signal ") {
					sigAt = i
				}
			}
			for i, l := range rr.Trace {
				if strings.HasPrefix(l, "end ") {
					endsTotal++
					if sigAt >= 0 && i < sigAt {
						endsBefore++
					}
				}
				if sigAt >= 0 && i > sigAt && strings.HasPrefix(l, "start ") {
					startsAfter++
				}
			}
			delivered := sigAt >= 0
			if delivered {
				// with one worker at most one queued command can race with the handling of the signal
				if startsAfter >= 2 {
					vio("C18:targets-start-after-signal:at:"+cs.cls, "%d commands started after the signal was delivered (num_workers=1); trace %v", startsAfter, rr.Trace)
				}
				if endsBefore+1 < len(src.Targets) && rr.Exit == 0 {
					vio("C18:exit-status-zero-after-signal:at:"+cs.cls, "the signal arrived while %d targets were unfinished but grog exited 0", len(src.Targets)-endsBefore)
				}
			}
			results := 0
			for _, n := range box.CacheNames() {
				if strings.HasPrefix(n, "target/") {
					results++
				}
			}
			// whatever the interrupted build left in the cache must be consistent
			if abin != "" {
				problems, _, _, aerr := auditCache(abin, box.CacheDir(), "")
				if aerr != nil {
					c.R.BrokenCheck("%v", aerr)
				}
				for _, p := range problems {
					vio("C18:cache-audit:"+p.Kind+":after-signal-at:"+cs.cls, "%s", p.Detail)
				}
			}
			if results > endsTotal {
				vio("C18:cache-entry-for-interrupted-target:at:"+cs.cls, "%d target results in the cache but only %d commands finished", results, endsTotal)
			}
			followUp(box, src, want, vio, cs.cls)
			c.R.AddCounts(1, 1, 2, 1)
			c.R.Outcome(fmt.Sprintf("sig@%s exit=%d ended=%d delivered=%v", cs.cls, rr.Exit, endsTotal, delivered))
			if delivered && endsBefore < len(src.Targets) {
				c.R.Nontrivial("signal|" + cs.spec)
			}
			c.R.Sample(map[string]any{"signal": cs.spec, "exit": rr.Exit, "targets_finished": endsTotal, "starts_after_signal": startsAfter})
		}(cs)
	}
	wg.Wait()

	if !withSelfSignal {
		return
	}
	// the interrupted command leaves a long-lived child behind: the next build acquires the lock all the same
	for _, sig := range []string{"INT", "TERM"} {
		s := orphanSource(sig)
		box, err := hist.NewBox(base)
		if err != nil {
			c.R.BrokenCheck("%v", err)
			return
		}
		s.Materialize(box.WS(), nil)
		marks := filepath.Join(box.Dir, "marks")
		os.MkdirAll(marks, 0o755)
		os.WriteFile(filepath.Join(marks, "armed"), nil, 0o644)
		rr := box.Run(grog, hist.RunOpts{Args: []string{"build", "//..."}, Env: map[string]string{"VMARK": marks}, Ceiling: 60 * time.Second})
		name := fmt.Sprintf("SIG%s sent by a command that has a long-lived child process", sig)
		replay := map[string]any{"scenario": name, "exit": rr.Exit, "trace": rr.Trace, "grog_output_tail": tail(rr.Output, 800)}
		vio := func(sg, format string, a ...any) {
			c.R.Violate(vc.Violation{Sig: sg, Detail: name + ": " + fmt.Sprintf(format, a...), Replay: replay})
		}
		if rr.TimedOut {
			vio("C18:no-exit-after-signal:at:running-command-with-child", "grog did not exit within 60 s")
		} else if rr.Exit == 0 {
			vio("C18:exit-status-zero-after-signal:at:running-command-with-child", "grog exited 0 although it was interrupted while a command was running")
		} else {
			os.Remove(filepath.Join(marks, "armed"))
			// the child sleeps for 25 s: a follow-up build that is still waiting after 15 s waits for the orphan
			r2 := box.Run(grog, hist.RunOpts{Args: []string{"build", "//..."}, Env: map[string]string{"VMARK": marks}, Ceiling: 15 * time.Second})
			replay["follow_up_output_tail"] = tail(r2.Output, 600)
			if r2.TimedOut {
				vio("C18:follow-up-build-waits-for-orphaned-child-of-interrupted-command", "the next build on the workspace did not finish within 15 s while a child process of the interrupted command was still alive (workspace lock held by the orphan?): %s", tail(r2.Output, 300))
			} else if r2.Exit != 0 {
				vio("C18:follow-up-build-fails:after-signal-at:running-command-with-child", "the next build exited %d: %s", r2.Exit, tail(r2.Output, 300))
			}
		}
		if b, err := os.ReadFile(filepath.Join(marks, "child.pid")); err == nil {
			var pid int
			if _, err := fmt.Sscan(strings.TrimSpace(string(b)), &pid); err == nil && pid > 1 {
				if p, err := os.FindProcess(pid); err == nil {
					p.Kill()
				}
			}
		}
		c.R.AddCounts(1, 1, 2, 1)
		c.R.Nontrivial("orphan|" + name)
		c.R.Outcome(fmt.Sprintf("orphan %s exit=%d", sig, rr.Exit))
		box.Remove()
	}
	// a signal while a DEPENDENCY is being re-run inside its dependant's task (load_outputs=minimal, the dependency's
	// blobs are gone from the cache and its output from the workspace): the re-run command is terminated like any other
	for _, sig := range []string{"INT", "TERM"} {
		s := &hist.Source{Files: map[string]hist.File{"p/in.txt": {Content: "in"}, "p/later.in": {Content: "l1"}}, Toml: "num_workers = 1\n"}
		s.Targets = append(s.Targets, hist.Target{Pkg: "p", Name: "victim", Inputs: []string{"in.txt"}, Outputs: []string{"victim.out"}, Command: traceStart + `
if [ -e "$VMARK/armed" ]; then
  echo "signal sent-by-command" >> "$VTRACE"
  kill -` + sig + ` $PPID
  sleep 2
  touch "$VMARK/survived"
fi
printf 'victim' > victim.out
echo "end $GROG_TARGET" >> "$VTRACE"`})
		s.Targets = append(s.Targets, hist.Target{Pkg: "p", Name: "later", Deps: []string{":victim"}, Inputs: []string{"later.in"}, Outputs: []string{"later.out"}, Command: traceStart + `
cat victim.out later.in > later.out
echo "end $GROG_TARGET" >> "$VTRACE"`})
		box, err := hist.NewBox(base)
		if err != nil {
			c.R.BrokenCheck("%v", err)
			return
		}
		s.Materialize(box.WS(), nil)
		marks := filepath.Join(box.Dir, "marks")
		os.MkdirAll(marks, 0o755)
		env := map[string]string{"VMARK": marks}
		if r0 := box.Run(grog, hist.RunOpts{Args: []string{"build", "//...", "--load-outputs=minimal"}, Env: env}); r0.Exit != 0 {
			c.R.BrokenCheck("re-run scenario: preparation build failed: %s", tail(r0.Output, 300))
			box.Remove()
			continue
		}
		os.RemoveAll(filepath.Join(box.CacheDir(), "cas"))
		os.Remove(filepath.Join(box.WS(), "p/victim.out"))
		s2 := s.Clone()
		s2.Files["p/later.in"] = hist.File{Content: "l2"}
		s2.Materialize(box.WS(), s)
		os.WriteFile(filepath.Join(marks, "armed"), nil, 0o644)
		t0 := time.Now()
		rr := box.Run(grog, hist.RunOpts{Args: []string{"build", "//...", "--load-outputs=minimal"}, Env: env, Ceiling: 60 * time.Second})
		name := fmt.Sprintf("SIG%s sent by a dependency that is re-run for its dependant (load_outputs=minimal, blobs lost)", sig)
		replay := map[string]any{"scenario": name, "exit": rr.Exit, "trace": rr.Trace, "grog_output_tail": tail(rr.Output, 800)}
		vio := func(sg, format string, a ...any) {
			c.R.Violate(vc.Violation{Sig: sg, Detail: name + ": " + fmt.Sprintf(format, a...), Replay: replay})
		}
		signalled := false
		for _, l := range rr.Trace {
			if strings.HasPrefix(l, "signal ") {
				signalled = true
			}
		}
		switch {
		case rr.TimedOut:
			vio("C18:no-exit-after-signal:at:re-run-dependency", "grog did not exit within 60 s")
		case !signalled:
			c.R.Cap("scenario %q: the dependency was not re-run (nothing to judge)", name)
		default:
			if rr.Exit == 0 {
				vio("C18:exit-status-zero-after-signal:at:re-run-dependency", "grog exited 0 although it was interrupted while a command was running")
			}
			for _, l := range rr.Trace {
				if l == "start //p:later" {
					vio("C18:targets-start-after-signal:at:re-run-dependency", "the dependant was started after the interrupt; trace %v", rr.Trace)
				}
			}
			if wait := 3500*time.Millisecond - time.Since(t0); wait > 0 {
				time.Sleep(wait)
			}
			if _, err := os.Stat(filepath.Join(marks, "survived")); err == nil {
				vio("C18:target-shell-survives-interrupt:re-run-dependency", "the re-run dependency's shell kept running after grog exited (it created its marker file 2 s after the signal)")
			}
			c.R.Nontrivial("rerun-signal|" + name)
		}
		c.R.AddCounts(1, 1, 1, 1)
		c.R.Outcome(fmt.Sprintf("rerun %s exit=%d signalled=%v", sig, rr.Exit, signalled))
		box.Remove()
	}
	// a signal while a command is running (the command interrupts grog itself)
	for _, sig := range []string{"INT", "TERM"} {
		for _, trap := range []bool{false, true} {
			s := selfSignalSource(sig, trap)
			box, err := hist.NewBox(base)
			if err != nil {
				c.R.BrokenCheck("%v", err)
				return
			}
			s.Materialize(box.WS(), nil)
			marks := filepath.Join(box.Dir, "marks")
			os.MkdirAll(marks, 0o755)
			t0 := time.Now()
			rr := box.Run(grog, hist.RunOpts{Args: []string{"build", "//..."}, Env: map[string]string{"VMARK": marks}, Ceiling: 60 * time.Second})
			name := fmt.Sprintf("SIG%s sent by the running command (shell traps signals: %v)", sig, trap)
			replay := map[string]any{"scenario": name, "exit": rr.Exit, "trace": rr.Trace, "grog_output_tail": tail(rr.Output, 800)}
			vio := func(sg, format string, a ...any) {
				c.R.Violate(vc.Violation{Sig: sg, Detail: name + ": " + fmt.Sprintf(format, a...), Replay: replay})
			}
			cls := "running-command"
			if trap {
				cls = "running-command-that-traps-signals"
			}
			if rr.TimedOut {
				vio("C18:no-exit-after-signal:at:"+cls, "grog did not exit within 60 s")
			} else {
				if rr.Exit == 0 {
					vio("C18:exit-status-zero-after-signal:at:"+cls, "grog exited 0 although it was interrupted while a command was running")
				}
				for _, l := range rr.Trace {
					if l == "start //p:later" {
						vio("C18:targets-start-after-signal:at:"+cls, "the dependant was started after the interrupt; trace %v", rr.Trace)
					}
				}
				// the shell must have been terminated: it would create the marker 2 s after the signal
				if wait := 3500*time.Millisecond - time.Since(t0); wait > 0 {
					time.Sleep(wait)
				}
				if _, err := os.Stat(filepath.Join(marks, "survived")); err == nil {
					vio("C18:target-shell-survives-interrupt:"+cls, "the target's shell kept running after grog exited (it created its marker file 2 s after the signal)")
				}
				for _, n := range box.CacheNames() {
					if strings.HasPrefix(n, "target/") {
						vio("C18:cache-entry-for-interrupted-target:at:"+cls, "cache contains %s although no command finished", n)
					}
				}
			}
			c.R.AddCounts(1, 1, 1, 1)
			c.R.Nontrivial("self-signal|" + name)
			c.R.Outcome(fmt.Sprintf("self %s trap=%v exit=%d", sig, trap, rr.Exit))
			box.Remove()
		}
	}
	// `grog test`: the running TEST interrupts grog; it would fail if it ran to its end. No "passed", no cache entry,
	// and the next `grog test` runs it again instead of reporting a cached pass
	for _, sig := range []string{"INT", "TERM"} {
		s := &hist.Source{Files: map[string]hist.File{"p/in.txt": {Content: "in"}}, Toml: "num_workers = 1\n"}
		s.Targets = append(s.Targets, hist.Target{Pkg: "p", Name: "victim_test", Inputs: []string{"in.txt"}, Command: traceStart + `
if [ -e "$VMARK/armed" ]; then
  echo "signal sent-by-command" >> "$VTRACE"
  kill -` + sig + ` $PPID
  sleep 2 >/dev/null 2>&1
  exit 1
fi
echo "end $GROG_TARGET" >> "$VTRACE"`})
		box, err := hist.NewBox(base)
		if err != nil {
			c.R.BrokenCheck("%v", err)
			return
		}
		s.Materialize(box.WS(), nil)
		marks := filepath.Join(box.Dir, "marks")
		os.MkdirAll(marks, 0o755)
		os.WriteFile(filepath.Join(marks, "armed"), nil, 0o644)
		env := map[string]string{"VMARK": marks}
		rr := box.Run(grog, hist.RunOpts{Args: []string{"test", "//..."}, Env: env, Ceiling: 60 * time.Second})
		name := fmt.Sprintf("grog test: SIG%s sent by the running test", sig)
		replay := map[string]any{"scenario": name, "exit": rr.Exit, "trace": rr.Trace, "grog_output_tail": tail(rr.Output, 800)}
		vio := func(sg, format string, a ...any) {
			c.R.Violate(vc.Violation{Sig: sg, Detail: name + ": " + fmt.Sprintf(format, a...), Replay: replay})
		}
		signalled := false
		for _, l := range rr.Trace {
			signalled = signalled || strings.HasPrefix(l, "signal ")
		}
		switch {
		case rr.TimedOut:
			vio("C18:no-exit-after-signal:at:running-test", "grog did not exit within 60 s")
		case !signalled:
			c.R.Cap("scenario %q: the test never reached its kill statement: skipped (%s)", name, tail(rr.Output, 200))
		default:
			if rr.Exit == 0 {
				vio("C18:exit-status-zero-after-signal:at:running-test", "grog test exited 0 although it was interrupted while the test was running")
			}
			if strings.Contains(rr.Output, "PASSED") {
				vio("C18:interrupted-test-reported-as-passed", "the interrupted test (it exits 1 when it runs to its end) is reported as passed: %s", tail(rr.Output, 300))
			}
			// grog may take its usual moment to exit; whatever it wrote is there now
			for _, n := range box.CacheNames() {
				if strings.HasPrefix(n, "target/") {
					vio("C18:cache-entry-for-interrupted-target:at:running-test", "cache contains %s although the test was interrupted", n)
				}
			}
			os.Remove(filepath.Join(marks, "armed"))
			r2 := box.Run(grog, hist.RunOpts{Args: []string{"test", "//..."}, Env: env, Ceiling: 60 * time.Second})
			replay["follow_up_trace"] = r2.Trace
			replay["follow_up_output_tail"] = tail(r2.Output, 500)
			if r2.TimedOut || r2.Exit != 0 {
				vio("C18:follow-up-build-fails:after-signal-at:running-test", "the next grog test exited %d (timed out: %v): %s", r2.Exit, r2.TimedOut, tail(r2.Output, 300))
			} else if len(r2.Started()) == 0 {
				vio("C18:interrupted-test-not-run-again", "the next grog test did not run the interrupted test (a result was recorded for it): %s", tail(r2.Output, 300))
			}
			c.R.Nontrivial("test-signal|" + name)
		}
		c.R.AddCounts(1, 1, 2, 1)
		c.R.Outcome(fmt.Sprintf("test-self %s exit=%d", sig, rr.Exit))
		box.Remove()
	}

}
