package checks

import (
	"fmt"
	"os"
	"path/filepath"
	"sort"
	"strings"
	"sync"

	"verif/internal/hist"
	"verif/internal/instr"
	"verif/internal/vc"
)

// ---- the "chain" workspace: //p:x -> //p:y -> //p:z, plus //p:w (output check) ----
//
// x.out depends only on the FIRST byte of x.in (so an edit may leave the output
// unchanged: early cut-off), y.out = y(x.out,y.in), z.out = z(y.out).
// Failures and the externally checked condition are driven by marker files in
// $VMARK, which is NOT a declared input (an external condition).

type chainState struct {
	XAppend, XFirst, YIn bool
	Marks                map[string]bool // fail-y-exit, fail-y-mid, fail-y-timeout, fail-y-noout, fail-x-exit, fail-d-nodir, w-destroyed, w-broken, w-self-destroy
	NoCachePos           string          // "", "x", "y"  (fixed per universe)
	DelOutputs           bool            // pending: all outputs are deleted from the workspace before the next build
	Queue                bool            // universe with num_workers=1 and three extra independent targets
	Minimal              bool            // universe built with --load-outputs=minimal
}

func (c chainState) clone() chainState {
	n := c
	n.Marks = map[string]bool{}
	for k, v := range c.Marks {
		if v {
			n.Marks[k] = true
		}
	}
	return n
}

func (c chainState) key() string {
	var ms []string
	for k, v := range c.Marks {
		if v {
			ms = append(ms, k)
		}
	}
	sort.Strings(ms)
	return fmt.Sprintf("%v%v%v|%s|%s|%v|%v|%v", c.XAppend, c.XFirst, c.YIn, strings.Join(ms, ","), c.NoCachePos, c.Queue, c.Minimal, c.DelOutputs)
}

func (c chainState) xIn() string {
	s := "a"
	if c.XFirst {
		s = "b"
	}
	s += "1"
	if c.XAppend {
		s += "2"
	}
	return s
}
func (c chainState) yIn() string {
	if c.YIn {
		return "Y2"
	}
	return "Y1"
}
func (c chainState) xOut() string { return c.xIn()[:1] }
func (c chainState) yOut() string { return "y(" + c.xOut() + "," + c.yIn() + ")" }
func (c chainState) zOut() string { return "z(" + c.yOut() + ")" }

func (c chainState) source() *hist.Source {
	s := &hist.Source{Files: map[string]hist.File{}}
	s.Files["p/x.in"] = hist.File{Content: c.xIn()}
	s.Files["p/y.in"] = hist.File{Content: c.yIn()}
	tags := func(n string) []string {
		if c.NoCachePos == n {
			return []string{"no-cache"}
		}
		return nil
	}
	xCmd := traceStart + `
if [ -e "$VMARK/fail-x-exit" ]; then echo "fail $GROG_TARGET" >> "$VTRACE"; echo "x fails on purpose"; exit 1; fi
cut -c1 x.in | tr -d '\n' > x.out
echo "end $GROG_TARGET" >> "$VTRACE"`
	s.Targets = append(s.Targets, hist.Target{Pkg: "p", Name: "x", Command: xCmd, Inputs: []string{"x.in"}, Outputs: []string{"x.out"}, Tags: tags("x"), Timeout: "10m"}) // a timeout that never expires: a plain failure must still be a failure
	yCmd := traceStart + `
if [ -e "$VMARK/fail-y-exit" ]; then echo "fail $GROG_TARGET" >> "$VTRACE"; echo "y fails on purpose"; exit 3; fi
if [ -e "$VMARK/fail-y-mid" ]; then
  # a failing statement that is not the last one: the documented default (set -eu) makes it the command's failure
  echo "fail $GROG_TARGET" >> "$VTRACE"
  false
  echo "statement after the failing one" >/dev/null
fi
if [ -e "$VMARK/fail-y-timeout" ]; then
  # a polite command: asked to terminate it leaves (partial) outputs behind and exits 0 - exceeding the timeout is a failure all the same
  sleep 30 &
  trap 'kill $!; printf partial > y.out; printf partial > y2.out; exit 0' TERM INT HUP
  wait $!
fi
printf 'y2' > y2.out
if [ -e "$VMARK/fail-y-noout" ]; then rm -f y.out; echo "end $GROG_TARGET" >> "$VTRACE"; exit 0; fi
printf 'y(%s,%s)' "$(cat x.out)" "$(cat y.in)" > y.out
echo "end $GROG_TARGET" >> "$VTRACE"
# the LAST statement: an AND-OR list whose failing element is not the last one (set -e does not act on it, the exit status is 1)
[ ! -e "$VMARK/fail-y-last" ] || { test -e "$VMARK/never-there" && true; }`
	// the timeout is only declared while the timeout failure is armed: a short timeout on a
	// normally running command would make the check depend on machine load
	yTimeout := ""
	if c.Marks["fail-y-timeout"] {
		yTimeout = "1s"
	}
	s.Targets = append(s.Targets, hist.Target{Pkg: "p", Name: "y", Command: yCmd, Inputs: []string{"y.in"}, Outputs: []string{"y.out", "y2.out"}, Deps: []string{":x"}, Timeout: yTimeout, Tags: tags("y")})
	zCmd := traceStart + `
printf 'z(%s)' "$(cat y.out)" > z.out
echo "end $GROG_TARGET" >> "$VTRACE"`
	s.Targets = append(s.Targets, hist.Target{Pkg: "p", Name: "z", Command: zCmd, Outputs: []string{"z.out"}, Deps: []string{":y"}})
	// d: a DIRECTORY output derived from x.out; e depends on d (early cut-off through a directory output)
	s.Targets = append(s.Targets, hist.Target{Pkg: "p", Name: "d", Deps: []string{":x"}, Outputs: []string{"dir::dd"}, Command: traceStart + `
rm -rf dd && mkdir -p dd/sub
printf 'd(%s)' "$(cat x.out)" > dd/f.txt
printf 'const' > dd/sub/g.txt
if [ -e "$VMARK/fail-d-nodir" ]; then rm -rf dd; fi
echo "end $GROG_TARGET" >> "$VTRACE"`})
	s.Targets = append(s.Targets, hist.Target{Pkg: "p", Name: "e", Deps: []string{":d"}, Outputs: []string{"e.out"}, Command: traceStart + `
printf 'e(%s,%s)' "$(cat dd/f.txt)" "$(cat dd/sub/g.txt)" > e.out
echo "end $GROG_TARGET" >> "$VTRACE"`})
	if c.Queue {
		for _, n := range []string{"i1", "i2", "i3"} {
			// each takes a little while: a second queued command can only start if the cancellation needed
			// longer than that to arrive (keeps the fail-fast oracle independent of machine load)
			s.Targets = append(s.Targets, hist.Target{Pkg: "p", Name: n, Command: traceStart + "\nsleep 0.4\nprintf '" + n + "' > " + n + ".out", Outputs: []string{n + ".out"}, Inputs: []string{"y.in"}})
		}
		s.Toml = "num_workers = 1\n"
	}
	// g: a step that produces nothing and is tagged no-cache (a "notify" / "deploy" target): it runs in every build
	s.Targets = append(s.Targets, hist.Target{Pkg: "p", Name: "g", Tags: []string{"no-cache"}, Command: traceStart + `
echo "end $GROG_TARGET" >> "$VTRACE"`})
	// w: its postcondition is an external condition ($VMARK/version must read 1),
	// which its command establishes unless w-broken is set
	wCmd := traceStart + `
if [ ! -e "$VMARK/w-broken" ]; then rm -f "$VMARK/w-destroyed"; fi
if [ -e "$VMARK/w-self-destroy" ]; then touch "$VMARK/w-destroyed"; fi
printf 'w' > w.out
echo "end $GROG_TARGET" >> "$VTRACE"`
	s.Targets = append(s.Targets, hist.Target{Pkg: "p", Name: "w", Command: wCmd, Inputs: []string{"x.in"}, Outputs: []string{"w.out"},
		// a passing check of each form precedes / follows the ones that can fail: every check has to be evaluated
		OutputChecks: []hist.Check{{Command: `true`}, {Command: `echo ok`, ExpectedOutput: "ok"}, {Command: `if [ -e "$VMARK/w-destroyed" ]; then echo 2; else echo 1; fi`, ExpectedOutput: "1"}, {Command: `test ! -e "$VMARK/w-destroyed"`}, {Command: `true`}, {Command: `echo fine`, ExpectedOutput: "fine"}}})
	// (no check inspects w's own output: checks run before outputs are restored, so such a check fails - and rightly forces
	// execution - whenever the output is absent from the workspace, which the reference model does not track)
	return s
}

// chainTargets in topological order
var chainTargets = []string{"x", "y", "z", "d", "e", "w", "g"}

type chainOp struct {
	Name string
	Kind string // edit | mark | taint | build
	Arg  string
	Args []string
}

type chainModel struct {
	Cache  map[string]string // state key -> "yes" | "maybe"
	Taint  map[string]bool
	Failed map[string]bool // targets whose most recent execution failed (a failure must leave no cache entry)
	// lastKeys: state key of every target in the most recent prediction (transient, not part of the state)
	lastKeys map[string]string
}

func (m chainModel) clone() chainModel {
	n := chainModel{Cache: map[string]string{}, Taint: map[string]bool{}, Failed: map[string]bool{}}
	for k, v := range m.Cache {
		n.Cache[k] = v
	}
	for k, v := range m.Failed {
		if v {
			n.Failed[k] = true
		}
	}
	for k, v := range m.Taint {
		if v {
			n.Taint[k] = true
		}
	}
	return n
}

type cnode struct {
	box    *hist.Box
	boxKey string
	st     chainState
	built  *chainState
	model  chainModel
	hist   []string
	lastOp string
}

func (n *cnode) key() string {
	var ts []string
	for k := range n.model.Taint {
		ts = append(ts, k)
	}
	sort.Strings(ts)
	// the reference model is part of the state: two histories that leave the same bytes on disk but
	// differ in what the model knows (e.g. "this state was cached" vs "its last execution failed")
	// must not be merged, otherwise exactly the defects that make them look alike are never expanded
	var ms []string
	for k, v := range n.model.Cache {
		ms = append(ms, k+"="+v)
	}
	for k := range n.model.Failed {
		ms = append(ms, "failed:"+k)
	}
	sort.Strings(ms)
	return n.boxKey + "|" + n.st.key() + "|" + strings.Join(ts, ",") + "|" + strings.Join(ms, ";")
}

type chainEngine struct {
	c              *Ctx
	grog           string
	slowGrog       string // binary whose TaintCache.Clear is delayed (adverse schedule of the detached goroutine)
	base           string
	ops            []chainOp
	maxOps         int
	noCache        []string
	universes      []chainState // template states (Queue / Minimal flags); crossed with noCache
	relabelMinimal bool
	builds         int64
	mu             sync.Mutex
	// lockstep: exit status and executed set of every build of the mode-all universes, keyed by universe and
	// history; the same history under load_outputs=minimal must give the same (direct lock-step oracle, also
	// where the reference model makes no prediction)
	lockstep map[string]string
}

func marksDir(b *hist.Box) string { return filepath.Join(b.Dir, "marks") }

func syncMarks(b *hist.Box, st chainState) {
	d := marksDir(b)
	os.RemoveAll(d)
	os.MkdirAll(d, 0o755)
	for k, v := range st.Marks {
		if v {
			os.WriteFile(filepath.Join(d, k), nil, 0o644)
		}
	}
}

func readMarks(b *hist.Box) map[string]bool {
	out := map[string]bool{}
	ents, _ := os.ReadDir(marksDir(b))
	for _, e := range ents {
		out[e.Name()] = true
	}
	return out
}

func chainBoxKey(b *hist.Box) string {
	all := hist.Listing(b.WS(), "p")
	var parts []string
	for p, en := range all {
		if strings.HasSuffix(p, ".out") {
			parts = append(parts, p+":"+en.Digest)
		}
	}
	sort.Strings(parts)
	return strings.Join(parts, ";") + "#" + strings.Join(b.CacheNames(), ";")
}

// predict runs the reference model for one build and returns the predicted
// executed set ("" = must not run, "run", "?" = no prediction), the expected
// exit status class and the labels that fail.
func (e *chainEngine) predict(st chainState, m *chainModel, cacheDisabled bool) (pred map[string]string, failed []string, after chainState) {
	pred = map[string]string{}

	after = st.clone()
	out := map[string]string{"x": st.xOut(), "y": st.yOut(), "z": st.zOut(), "w": "w", "d": "d(" + st.xOut() + ")", "e": "e(d(" + st.xOut() + "),const)"}
	deps := map[string][]string{"y": {"x"}, "z": {"y"}, "d": {"x"}, "e": {"d"}}
	keyOf := func(t string) string {
		switch t {
		case "x":
			return "x|" + st.xIn()
		case "y":
			return "y|" + out["x"] + "|" + st.yIn()
		case "w":
			return "w|" + st.xIn()
		}
		k := t
		for _, d := range deps[t] {
			k += "|" + out[d]
		}
		return k
	}
	m.lastKeys = map[string]string{}
	for _, t := range chainTargets {
		m.lastKeys[t] = keyOf(t)
	}
	upFailed := map[string]bool{}
	for _, t := range chainTargets {
		skip := false
		for _, d := range deps[t] {
			if upFailed[d] {
				skip = true
			}
		}
		if skip {
			upFailed[t] = true
			pred[t] = ""
			continue
		}
		k := keyOf(t)
		noCacheTag := st.NoCachePos == t || t == "g"
		checkFails := t == "w" && after.Marks["w-destroyed"]
		must := m.Cache[k] == "" || m.Taint[t] || noCacheTag || cacheDisabled || checkFails
		switch {
		case must:
			pred[t] = "run"
		case m.Cache[k] == "maybe":
			pred[t] = "?"
		default:
			pred[t] = ""
		}
		if pred[t] == "" {
			continue
		}
		// (possible) execution: does it fail?
		fails := false
		switch t {
		case "x":
			fails = st.Marks["fail-x-exit"]
		case "y":
			fails = st.Marks["fail-y-exit"] || st.Marks["fail-y-timeout"] || st.Marks["fail-y-noout"] || st.Marks["fail-y-mid"] || st.Marks["fail-y-last"]
		case "d":
			fails = st.Marks["fail-d-nodir"]
		case "w":
			if !after.Marks["w-broken"] {
				if pred[t] == "run" {
					delete(after.Marks, "w-destroyed")
				}
			}
			if after.Marks["w-self-destroy"] {
				if pred[t] == "run" {
					// the command itself leaves a state that fails the checks (they passed before it ran)
					after.Marks["w-destroyed"] = true
				} else {
					pred[t] = "?"
				}
			}
			fails = after.Marks["w-destroyed"] // the check still fails after execution
		}
		if fails {
			if pred[t] == "run" {
				failed = append(failed, t)
				upFailed[t] = true
				m.Failed[t] = true
			} else {
				// unknown whether it runs: no prediction for everything downstream
				pred[t] = "?"
				for d, ups := range deps {
					for _, up := range ups {
						if up == t {
							pred[d] = "?"
						}
					}
				}
			}
			continue
		}
		if pred[t] == "run" {
			if noCacheTag || cacheDisabled {
				m.Cache[k] = "maybe"
			} else {
				m.Cache[k] = "yes"
			}
			delete(m.Taint, t)
			delete(m.Failed, t)
		} else if pred[t] == "?" {
			m.Cache[k] = "maybe"
		}
	}
	if cacheDisabled {
		// output digests of this build were computed the no-cache way: what later
		// builds find for these states is not specified
		for _, t := range chainTargets {
			if m.Cache[keyOf(t)] != "" {
				m.Cache[keyOf(t)] = "maybe"
			}
		}
	}
	return
}

func (e *chainEngine) doOp(n *cnode, op chainOp) *cnode {
	switch op.Kind {
	case "edit", "mark":
		c := &cnode{box: n.box, boxKey: n.boxKey, st: n.st.clone(), built: n.built, model: n.model, hist: append(append([]string{}, n.hist...), op.Name), lastOp: op.Name}
		switch op.Arg {
		case "delete-outputs":
			c.st.DelOutputs = true
		case "x-append":
			c.st.XAppend = !c.st.XAppend
		case "x-first":
			c.st.XFirst = !c.st.XFirst
		case "y-in":
			c.st.YIn = !c.st.YIn
		default:
			if c.st.Marks[op.Arg] {
				delete(c.st.Marks, op.Arg)
			} else {
				c.st.Marks[op.Arg] = true
			}
		}
		return c
	}
	box, err := n.box.CloneTo(e.base)
	if err != nil {
		e.c.R.BrokenCheck("clone: %v", err)
		return nil
	}
	src := n.st.source()
	var prev *hist.Source
	if n.built != nil {
		prev = n.built.source()
	}
	src.Materialize(box.WS(), prev)
	syncMarks(box, n.st)
	if n.st.DelOutputs && op.Kind == "build" {
		outs, _ := filepath.Glob(filepath.Join(box.WS(), "p", "*.out"))
		for _, o := range outs {
			os.Remove(o)
		}
	}
	histNow := append(append([]string{}, n.hist...), op.Name)
	model := n.model.clone()
	last := n.lastOp
	if last == "" {
		last = "nothing"
	}
	env := map[string]string{"VMARK": marksDir(box)}
	grog := e.grog
	if op.Kind == "taint" {
		rr := box.Run(grog, hist.RunOpts{Args: append([]string{"taint"}, op.Args...), Env: env})
		if rr.Exit != 0 {
			e.c.R.Violate(vc.Violation{Sig: "C13:taint-command-fails", Detail: fmt.Sprintf("history %v: grog taint exited %d: %s", histNow, rr.Exit, tail(rr.Output, 300)), Replay: histNow})
		}
		for _, t := range strings.Split(op.Arg, ",") {
			model.Taint[t] = true
		}
		st := n.st.clone()
		return &cnode{box: box, boxKey: chainBoxKey(box), st: st, built: &st, model: model, hist: histNow, lastOp: op.Name}
	}
	// build
	cacheDisabled := false
	for _, a := range op.Args {
		if a == "--enable-cache=false" {
			cacheDisabled = true
		}
	}
	if op.Arg == "slow-taint-clear" {
		grog = e.slowGrog
	}
	pred, failed, after := e.predict(n.st, &model, cacheDisabled)
	buildArgs := append([]string{"build", "//p/..."}, op.Args...)
	if n.st.Minimal {
		buildArgs = append(buildArgs, "--load-outputs=minimal")
	}
	rr := box.Run(grog, hist.RunOpts{Args: buildArgs, Env: env, Ceiling: 60e9})
	e.mu.Lock()
	e.builds++
	e.mu.Unlock()
	replay := map[string]any{"history": histNow, "state": n.st, "grog_output_tail": tail(rr.Output, 1500), "trace": rr.Trace, "predicted": pred}
	vio := func(sig, format string, a ...any) {
		mode := ""
		if n.st.Minimal {
			mode = " (load_outputs=minimal)"
			if e.relabelMinimal && len(sig) > 4 && !strings.HasPrefix(sig, "C03:") {
				// the same oracle under minimal mode decides C15 (same verdicts and executed sets as mode all)
				sig = "C15:minimal-mode:" + sig[4:]
			}
		}
		e.c.R.Violate(vc.Violation{Sig: sig, Detail: fmt.Sprintf("history %v%s: ", histNow, mode) + fmt.Sprintf(format, a...), Replay: replay})
	}
	executed := map[string]bool{}
	for _, l := range rr.Started() {
		t := strings.TrimPrefix(l, "//p:")
		if executed[t] {
			vio("C03:target-executed-twice-in-one-build:"+l, "%s was executed more than once in one build; trace %v", l, rr.Trace)
		}
		executed[t] = true
	}
	// a command whose (1 s) timeout expired before its shell wrote the first trace line (loaded machine) was attempted
	// all the same: grog names it as failed with a timeout
	for _, t := range chainTargets {
		if !executed[t] && n.st.Marks["fail-y-timeout"] && strings.Contains(rr.Output, "Target //p:"+t+" failed: timeout") {
			executed[t] = true
		}
	}
	if e.lockstep != nil && op.Arg != "slow-taint-clear" {
		ex := make([]string, 0, len(executed))
		for t := range executed {
			ex = append(ex, t)
		}
		sort.Strings(ex)
		obs := fmt.Sprintf("exit=%v executed=%v", rr.Exit == 0, ex)
		key := fmt.Sprintf("nocache=%s|queue=%v|%s", n.st.NoCachePos, n.st.Queue, strings.Join(histNow, ">"))
		e.mu.Lock()
		ref, have := e.lockstep[key]
		if !n.st.Minimal {
			e.lockstep[key] = obs
		}
		e.mu.Unlock()
		if n.st.Minimal && have && ref != obs && !n.st.Queue {
			e.c.R.Violate(vc.Violation{Sig: "C15:lock-step:minimal-differs-from-all:after:" + last, Detail: fmt.Sprintf("history %v: under load_outputs=all the last build gave %s, under load_outputs=minimal %s", histNow, ref, obs), Replay: replay})
		}
	}
	if rr.TimedOut {
		vio("C04:build-hangs:after:"+last, "grog build did not exit within the ceiling")
	}
	failFast := false
	for _, a := range op.Args {
		if a == "--fail-fast" {
			failFast = true
		}
	}
	reason := func(t string) string {
		k := ""
		switch {
		case model.Taint[t] || n.model.Taint[t]:
			k = "tainted"
		case n.st.NoCachePos == t || t == "g":
			k = "no-cache-tag"
		case cacheDisabled:
			k = "cache-disabled"
		case t == "w" && n.st.Marks["w-destroyed"]:
			k = "failing-output-check"
		default:
			k = "no-cached-result"
		}
		return k
	}
	if os.Getenv("VERIF_DEBUG") != "" {
		vc.Logf("DEBUG %v | marks=%v | pred=%v failed=%v | executed=%s exit=%d", histNow, n.st.Marks, pred, failed, fmtSet(executed), rr.Exit)
	}
	unexpectedFailure := len(failed) == 0 && rr.Exit != 0
	for _, t := range chainTargets {
		p := pred[t]
		if unexpectedFailure {
			break // reported below as a failing build; which targets ran is then not meaningful
		}
		if failFast && len(failed) > 0 {
			// which independent targets still start under fail-fast depends on timing; that holds for the failing ones
			// among themselves as well (y and d both depend on x only): at least one of them was attempted
			anyFailedRan := false
			for _, f := range failed {
				if executed[f] {
					anyFailedRan = true
				}
			}
			if t != failed[0] || anyFailedRan {
				continue
			}
		}
		switch {
		case p == "run" && !executed[t]:
			r := reason(t)
			sig := "C01:cached-result-served-for-different-state://p:" + t
			switch r {
			case "tainted":
				sig = "C13:tainted-target-not-executed://p:" + t
			case "no-cache-tag":
				sig = "C13:no-cache-target-restored-instead-of-executed://p:" + t
			case "cache-disabled":
				sig = "C13:target-not-executed-with-cache-disabled://p:" + t
			case "failing-output-check":
				sig = "C14:cached-result-served-although-output-check-fails://p:" + t
			}
			if (r == "no-cached-result" || r == "tainted") && n.model.Failed[t] {
				// its last execution failed: the failure must not have left a cache entry
				sig = "C05:failed-target-not-attempted-again://p:" + t
			}
			if !strings.HasPrefix(sig, "C14:") && !strings.HasPrefix(sig, "C13:") {
				sig += ":after:" + last
			}
			vio(sig, "//p:%s was not executed (%s); executed=%s", t, r, fmtSet(executed))
		case p == "" && executed[t]:
			sig := "C02:unexpected-execution://p:" + t
			up := false
			for _, f := range failed {
				if (f == "x" && (t == "y" || t == "z" || t == "d" || t == "e")) || (f == "y" && t == "z") || (f == "d" && t == "e") {
					up = true
				}
			}
			if up {
				sig = "C05:dependant-of-failed-target-executed://p:" + t
			} else if len(n.model.Taint) > 0 || n.st.NoCachePos != "" || strings.Contains(strings.Join(n.hist, ">"), "taint") {
				sig = "C13:dependant-or-clean-target-executed-although-nothing-changed://p:" + t
			}
			vio(sig+":after:"+last, "//p:%s was executed although the cache holds a successful result for its current state and nothing forces it; executed=%s", t, fmtSet(executed))
		}
	}
	if failFast && n.st.Queue && len(failed) > 0 {
		// with one worker at most one queued command can race with the recording of the failure;
		// two or more commands starting after the failing command reported its failure means
		// fail-fast did not stop the queue
		after, seenFail := 0, false
		for _, l := range rr.Trace {
			if strings.HasPrefix(l, "fail ") {
				seenFail = true
			} else if seenFail && strings.HasPrefix(l, "start ") {
				after++
			}
		}
		if after >= 2 {
			vio("C05:targets-start-after-fail-fast-failure", "--fail-fast with num_workers=1: %d commands started after the first failure had happened; trace %v", after, rr.Trace)
		}
	}
	wantFail := len(failed) > 0
	if wantFail && rr.Exit == 0 {
		sig := "C05:failure-not-reported"
		if failed[0] == "w" {
			sig = "C14:build-succeeds-although-output-check-still-fails"
		} else if n.st.Marks["fail-y-timeout"] && failed[0] == "y" {
			sig = "C14:timeout-ignored"
		} else if n.st.Marks["fail-y-noout"] && failed[0] == "y" {
			sig = "C14:missing-declared-output-accepted"
		} else if failed[0] == "d" {
			sig = "C14:missing-declared-directory-output-accepted"
		} else if n.st.Marks["fail-y-mid"] && failed[0] == "y" {
			sig = "C05:failing-statement-in-the-middle-of-a-command-not-reported"
		}
		vio(sig, "targets %v must fail but grog exited 0", failed)
	}
	if !wantFail && rr.Exit != 0 {
		unknown := false
		for _, p := range pred {
			if p == "?" {
				unknown = true
			}
		}
		if !unknown {
			vio("C01:build-of-deterministic-workspace-fails:after:"+last, "nothing should fail but grog exited %d: %s", rr.Exit, tail(rr.Output, 500))
		}
	}
	if wantFail && rr.Exit != 0 {
		for _, f := range failed {
			if executed[f] && !strings.Contains(rr.Output, "//p:"+f) {
				vio("C05:failed-target-not-named://p:"+f, "grog exited %d but its output does not name the failed target //p:%s", rr.Exit, f)
			}
		}
	}
	if rr.Exit == 0 && !wantFail {
		// outputs must be the deterministic function of the sources
		want := map[string]string{"p/x.out": n.st.xOut(), "p/y.out": n.st.yOut(), "p/z.out": n.st.zOut(), "p/w.out": "w", "p/e.out": "e(d(" + n.st.xOut() + "),const)"}
		for p, w := range want {
			tname := strings.TrimSuffix(strings.TrimPrefix(p, "p/"), ".out")
			if n.st.Minimal && !executed[tname] {
				continue // minimal mode does not promise to materialise outputs of restored targets
			}
			b, err := os.ReadFile(filepath.Join(box.WS(), p))
			if err != nil || string(b) != w {
				vio("C01:output-differs-from-clean-build://"+strings.Replace(strings.TrimSuffix(p, ".out"), "/", ":", 1)+":after:"+last, "%s is %q (err=%v), a from-scratch build produces %q", p, string(b), err, w)
			}
		}
	}
	// taint must be consumed by a successful execution: compare with the cache directory
	for t := range n.model.Taint {
		if executed[t] && !contains(failed, t) && rr.Exit == 0 {
			for _, name := range box.CacheNames() {
				if strings.HasPrefix(name, "taint/") && strings.HasSuffix(name, ":"+t) {
					sig := "C13:taint-not-consumed-by-successful-execution"
					if op.Arg == "slow-taint-clear" {
						sig = "C13:taint-cleared-by-detached-goroutine-lost-at-exit"
					}
					vio(sig, "//p:%s was tainted and executed successfully but its taint marker %s is still present after grog exited", t, name)
					model.Taint[t] = true // keep the model aligned with reality for the rest of the history
				}
			}
		}
	}
	if failFast && len(failed) > 0 {
		// which of the independent targets got to run before the build stopped is a matter of timing: the model follows
		// what was observed (a target that did not run has neither a new cache entry nor a new failure)
		ended := map[string]bool{}
		for _, l := range rr.Trace {
			if strings.HasPrefix(l, "end //p:") {
				ended[strings.TrimPrefix(l, "end //p:")] = true
			}
		}
		for _, t := range chainTargets {
			// a command that was started but cancelled before it finished has not produced a result either
			if pred[t] == "run" && (!executed[t] || (!ended[t] && !contains(failed, t))) {
				if k := model.lastKeys[t]; k != "" && n.model.Cache[k] == "" {
					delete(model.Cache, k)
				} else if k != "" {
					model.Cache[k] = n.model.Cache[k]
				}
				if n.model.Failed[t] {
					model.Failed[t] = true
				} else {
					delete(model.Failed, t)
				}
				if n.model.Taint[t] {
					model.Taint[t] = true
				}
			}
		}
	}
	// a failed target must leave no target result behind: checked through the follow-up build (model)
	newMarks := readMarks(box)
	st := after.clone()
	st.Marks = newMarks
	st.DelOutputs = false
	if fmt.Sprint(after.Marks) != fmt.Sprint(newMarks) {
		// the external condition evolved differently from the model (e.g. w did not run)
		for k := range st.Marks {
			_ = k
		}
	}
	e.c.R.Outcome(fmt.Sprintf("%s exec=%s exit=%d", op.Name, fmtSet(executed), rr.Exit))
	if len(executed) > 0 && len(executed) < len(chainTargets) {
		e.c.R.Nontrivial(strings.Join(histNow, ">") + "|" + n.st.NoCachePos)
	}
	e.c.R.AddCounts(1, 0, 1, 1)
	if len(histNow) >= 3 {
		e.c.R.Sample(map[string]any{"history": histNow, "no_cache_tag_on": n.st.NoCachePos, "executed": fmtSet(executed), "exit": rr.Exit})
	}
	built := n.st.clone()
	return &cnode{box: box, boxKey: chainBoxKey(box), st: st, built: &built, model: model, hist: histNow}
}

func contains(l []string, s string) bool {
	for _, x := range l {
		if x == s {
			return true
		}
	}
	return false
}

func (e *chainEngine) run() {
	states := int64(0)
	for _, uni := range e.universes {
		for _, nc := range e.noCache {
			root, err := hist.NewBox(e.base)
			if err != nil {
				e.c.R.BrokenCheck("scratch: %v", err)
				return
			}
			start := &cnode{box: root, st: chainState{Marks: map[string]bool{}, NoCachePos: nc, Queue: uni.Queue, Minimal: uni.Minimal}, model: chainModel{Cache: map[string]string{}, Taint: map[string]bool{}, Failed: map[string]bool{}}}
			start.boxKey = chainBoxKey(root)
			seen := map[string]bool{start.key(): true}
			frontier := []*cnode{start}
			states++
			for depth := 0; depth < e.maxOps && len(frontier) > 0; depth++ {
				type job struct {
					n  *cnode
					op chainOp
					c  *cnode
				}
				var jobs []*job
				for _, n := range frontier {
					for _, op := range e.ops {
						if op.Kind != "build" && e.maxOps-depth < 2 {
							continue
						}
						if op.Kind == "taint" && n.built == nil {
							continue
						}
						jobs = append(jobs, &job{n: n, op: op})
					}
				}
				var wg sync.WaitGroup
				sem := make(chan struct{}, 48)
				for _, j := range jobs {
					wg.Add(1)
					sem <- struct{}{}
					go func(j *job) {
						defer wg.Done()
						defer func() { <-sem }()
						j.c = e.doOp(j.n, j.op)
					}(j)
				}
				wg.Wait()
				var next []*cnode
				keep := map[*hist.Box]bool{}
				for _, j := range jobs {
					if j.c == nil {
						continue
					}
					if seen[j.c.key()] {
						if j.c.box != j.n.box {
							j.c.box.Remove()
						}
						continue
					}
					seen[j.c.key()] = true
					next = append(next, j.c)
				}
				for _, n := range next {
					keep[n.box] = true
				}
				for _, n := range frontier {
					if !keep[n.box] {
						n.box.Remove()
					}
				}
				states += int64(len(next))
				vc.Logf("universe queue=%v minimal=%v no-cache=%q depth %d: %d transitions, %d new states", uni.Queue, uni.Minimal, nc, depth+1, len(jobs), len(next))
				frontier = next
			}
			for _, n := range frontier {
				n.box.Remove()
			}
		}
	}
	e.c.R.AddCounts(0, states, 0, 0)
	e.c.R.Set("real_grog_invocations", e.builds)
	e.c.R.Set("history_length_bound", e.maxOps)
}

// slowTaintClearOverlay delays TaintCache.Clear: the adverse order of the two
// possible schedules of the detached goroutine that clears a taint (before or
// after the process exits).
func slowTaintClearOverlay() (*vc.Overlay, error) {
	src, err := os.ReadFile(vc.SourceFor("internal/caching/taint_cache.go"))
	if err != nil {
		return nil, err
	}
	out, err := instr.InsertAtFuncStart(src, "Clear", `time.Sleep(1500 * time.Millisecond)`, "time")
	if err != nil {
		return nil, err
	}
	ov := vc.NewOverlay()
	if err := ov.AddContent("slowclear", "internal/caching/taint_cache.go", out); err != nil {
		return nil, err
	}
	return ov, nil
}

func chainCheck(prop string, keep []string, quickOps, thoroughOps int, configure func(e *chainEngine, thorough bool)) CheckFunc {
	return func(c *Ctx) {
		grog, err := vc.BuildGrog("grog", nil)
		if err != nil {
			c.R.BrokenCheck("%v", err)
			return
		}
		base, cleanup := scratchBase(c, strings.ToLower(prop))
		defer cleanup()
		sub := vc.NewReport(prop, c.Tier)
		e := &chainEngine{c: &Ctx{R: sub, Tier: c.Tier, Thorough: c.Thorough}, grog: grog, base: base, maxOps: quickOps, noCache: []string{""}, universes: []chainState{{}}}
		if c.Thorough {
			e.maxOps = thoroughOps
		}
		configure(e, c.Thorough)
		for _, op := range e.ops {
			if op.Arg == "slow-taint-clear" && e.slowGrog == "" {
				ov, err := slowTaintClearOverlay()
				if err != nil {
					// the function to delay is gone (refactored): the adverse schedule cannot be forced any more
					c.R.Cap("the taint-clearing step could not be delayed (%v): builds with a delayed clear are skipped", err)
					var kept []chainOp
					for _, o := range e.ops {
						if o.Arg != "slow-taint-clear" {
							kept = append(kept, o)
						}
					}
					e.ops = kept
					break
				}
				e.slowGrog, err = vc.BuildGrog("grog-slowclear", ov)
				if err != nil {
					c.R.BrokenCheck("%v", err)
					return
				}
			}
		}
		e.run()
		c.R.Merge(sub, func(sig string) bool {
			for _, k := range keep {
				if strings.HasPrefix(sig, k) {
					return true
				}
			}
			return false
		})
	}
}

var (
	opBuild      = chainOp{Name: "build", Kind: "build"}
	opBuildNoC   = chainOp{Name: "build --enable-cache=false", Kind: "build", Args: []string{"--enable-cache=false"}}
	opBuildFF    = chainOp{Name: "build --fail-fast", Kind: "build", Args: []string{"--fail-fast"}}
	opBuildSlow  = chainOp{Name: "build (taint clearing goroutine delayed)", Kind: "build", Arg: "slow-taint-clear"}
	opEditAppend = chainOp{Name: "edit x.in (output of x unchanged)", Kind: "edit", Arg: "x-append"}
	opEditFirst  = chainOp{Name: "edit x.in (output of x changes)", Kind: "edit", Arg: "x-first"}
	opEditY      = chainOp{Name: "edit y.in", Kind: "edit", Arg: "y-in"}
	opDelOutputs = chainOp{Name: "delete all outputs from the workspace", Kind: "edit", Arg: "delete-outputs"}
	opTaintX     = chainOp{Name: "taint //p:x", Kind: "taint", Arg: "x", Args: []string{"//p:x"}}
	opTaintY     = chainOp{Name: "taint //p:y", Kind: "taint", Arg: "y", Args: []string{"//p:y"}}
	opTaintAll   = chainOp{Name: "taint //p/...", Kind: "taint", Arg: "x,y,z,d,e,w", Args: []string{"//p/..."}}
	opTaintD     = chainOp{Name: "taint //p:d", Kind: "taint", Arg: "d", Args: []string{"//p:d"}}
)

func markOp(m string) chainOp { return chainOp{Name: "mark " + m, Kind: "mark", Arg: m} }

func init() {
	Registry["C13"] = func(c *Ctx) {
		c.R.Rule = "breadth-first search over histories of <= n operations from {edit (output of x unchanged), edit (output changes), grog taint //p:x | //p:y | //p/..., grog build, grog build --enable-cache=false, grog build with the taint-clearing goroutine delayed} on the chain workspace (x->y->z, x->d->e, w with output checks, and g: no outputs, always tagged no-cache) by the REAL binary, in three universes (no-cache tag on nobody / x / y); after every build the executed set (trace written by the commands) is compared with a reference model of the documented rules: tainted => executed once, then clean; no-cache => executed in every build; cache disabled => everything executes; dependants re-execute only if the re-executed target's output bytes changed. A second search (one operation deeper) combines grog taint with an edit of the tainted target's own input (the taint is consumed by the execution the edit causes) and with executions that fail (non-zero exit; exit 0 without the declared output; thorough: failing output check): a failed execution does not consume the taint. Taint isolation: 9 targets whose labels differ only in where / : _ - . sit, everything cached; every ordered pair (taint X; build Y: nothing runs; build X: exactly X runs; build X: nothing; build //...: nothing) and every unordered pair (taint both; build //...: exactly both; again: nothing). Non-trivial = a build that executed some but not all targets. Through an alias: dependants of a no-cache target and of a tainted target that reach them through aliases (and one direct control), the re-executed targets copy an external value: dependants are executed exactly when that output changed and copy the current value (both modes, four builds)."
		c.R.Assume("after a build with the cache disabled (or of a no-cache target) the model makes no prediction for the affected states until they were built normally again (the documentation does not specify it)", "the detached goroutine that clears a taint has two schedules (before / after process exit): the adverse one is forced by delaying TaintCache.Clear by 1.5 s (a slow cache backend; grog idles about 0.5 s before exiting) in a second binary built through the overlay")
		if os.Getenv("VERIF_PART") == "through-alias" { // development aid: these two scripted parts alone
			c13NoCacheTool(c)
			c13ThroughAlias(c)
			return
		}
		chainCheck("C13", []string{"C13:"}, 4, 5, func(e *chainEngine, thorough bool) {
			e.noCache = []string{"", "x", "y"}
			e.ops = []chainOp{opEditAppend, opEditFirst, opTaintX, opTaintY, opTaintD, opBuild, opBuildNoC, opBuildSlow}
			if thorough {
				e.ops = append(e.ops, opTaintAll, opEditY)
			}
		})(c)
		c13TaintIsolation(c)
		// third pass: the output-less no-cache target //p:g (and the universes' tagged targets) under load_outputs=minimal
		chainCheck("C13", []string{"C13:"}, 3, 4, func(e *chainEngine, thorough bool) {
			e.universes = []chainState{{Minimal: true}}
			e.noCache = []string{"", "y"}
			e.ops = []chainOp{opEditFirst, opBuild}
		})(c)
		c13NoCacheTool(c)
		c13ThroughAlias(c)
		// second pass: taints x failing executions (the taint is consumed by a SUCCESSFUL execution only)
		chainCheck("C13", []string{"C13:", "C05:failed-target-not-attempted-again"}, 5, 6, func(e *chainEngine, thorough bool) {
			e.ops = []chainOp{opTaintY, markOp("fail-y-noout"), markOp("fail-y-exit"), opEditY, opBuild}
			if thorough {
				e.ops = append(e.ops, opTaintAll, markOp("w-broken"))
			}
		})(c)
	}
	Registry["C14"] = func(c *Ctx) {
		c.R.Rule = "breadth-first search over histories of <= n operations from {destroy / break the externally checked condition of //p:w, make //p:w's own command destroy it, make //p:y exit non-zero | exceed its timeout | not create its declared output, make //p:d not create its declared directory output, edit, grog build} by the REAL binary; reference model: success is reported and cached only if exit 0 within the timeout, outputs exist and checks pass; a cached result with a now-failing output check forces execution; a check still failing after execution fails the build and caches nothing (the follow-up build attempts the target again). Non-trivial = a build that executed some but not all targets."
		c.R.Assume("the checked condition is an external marker outside the declared inputs/outputs", "timeout mode uses timeout=1s against a 30 s sleep; wall-clock enters only through grog's own timeout handling, never through the oracle")
		chainCheck("C14", []string{"C14:", "C05:failed-target-not-attempted-again", "C04:build-hangs"}, 5, 6, func(e *chainEngine, thorough bool) {
			e.universes = []chainState{{}, {Minimal: true}}
			e.ops = []chainOp{markOp("w-destroyed"), markOp("w-broken"), markOp("w-self-destroy"), markOp("fail-y-exit"), markOp("fail-y-noout"), markOp("fail-y-timeout"), markOp("fail-d-nodir"), opEditFirst, opBuild}
			e.ops = append(e.ops, markOp("fail-y-last"))
			if thorough {
				e.ops = append(e.ops, markOp("fail-y-mid"))
			}
		})(c)
	}
}
