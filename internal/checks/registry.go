// Package checks holds one driver function per property.
package checks

import (
	"encoding/json"
	"fmt"
	"os"

	"verif/internal/vc"
)

type Ctx struct {
	R        *vc.Report
	Tier     string
	Thorough bool
	Args     []string
}

type CheckFunc func(c *Ctx)

var Registry = map[string]CheckFunc{}

// SetupFuncs are run by `vcheck setup` to warm the Go build cache.
var SetupFuncs []func() error

func Setup() error {
	for _, f := range SetupFuncs {
		if err := f(); err != nil {
			return err
		}
	}
	return nil
}

// simpleHarness builds harness package pkg (plus the shared vrep package) and
// runs it in `shards` processes.
func simpleHarness(c *Ctx, tag, pkg string, extraPkgs []string, env map[string]string, shards int) {
	simpleHarnessOv(c, vc.NewOverlay(), tag, pkg, extraPkgs, env, shards)
}

// exportOutputHash adds a file to package grog/internal/output (through the
// overlay only) that exposes the unexported getOutputHash to harnesses.
func exportOutputHash(ov *vc.Overlay) error {
	return ov.AddContent("exports", "internal/output/zverif_export.go", []byte(`package output

import "grog/internal/proto/gen"

// VerifGetOutputHash exposes getOutputHash to the verification harness (overlay only).
func VerifGetOutputHash(outputs []*gen.Output) (string, error) { return getOutputHash(outputs) }
`))
}

func simpleHarnessOv(c *Ctx, ov *vc.Overlay, tag, pkg string, extraPkgs []string, env map[string]string, shards int) {
	for _, p := range append([]string{"vrep", pkg}, extraPkgs...) {
		if err := ov.AddHarness(p); err != nil {
			c.R.BrokenCheck("overlay: %v", err)
			return
		}
	}
	bin, err := vc.BuildHarnessTest(tag, ov, pkg, false)
	if err != nil {
		c.R.BrokenCheck("%v", err)
		return
	}
	if env == nil {
		env = map[string]string{}
	}
	env["VERIF_TIER"] = c.Tier
	h := vc.HarnessRun{Bin: bin, Env: env, Tag: tag}
	if shards <= 1 {
		vc.RunHarness(c.R, h)
	} else {
		vc.RunHarnessShards(c.R, h, shards, 16)
	}
}

// Replay re-executes a replay file written by a failing check.
func Replay(path string) int {
	b, err := os.ReadFile(path)
	if err != nil {
		fmt.Fprintln(os.Stderr, err)
		return 2
	}
	var f struct {
		Property string          `json:"property"`
		Replay   json.RawMessage `json:"replay"`
	}
	if err := json.Unmarshal(b, &f); err != nil {
		fmt.Fprintln(os.Stderr, err)
		return 2
	}
	fn, ok := Registry[f.Property]
	if !ok {
		fmt.Fprintf(os.Stderr, "unknown property %s\n", f.Property)
		return 2
	}
	if err := vc.PrepareBuildDirs(); err != nil {
		fmt.Fprintln(os.Stderr, err)
		return 2
	}
	os.Setenv("VERIF_REPLAY", string(f.Replay))
	r := vc.NewReport(f.Property, "quick")
	fn(&Ctx{R: r, Tier: "quick", Args: []string{"--replay", path}})
	return r.Finish()
}

func init() {
	SetupFuncs = append(SetupFuncs, func() error {
		// warm the Go build cache: the real binary and one instrumented harness
		if _, err := vc.BuildGrog("grog", nil); err != nil {
			return err
		}
		ov := vc.NewOverlay()
		for _, p := range []string{"vrep", "c17"} {
			if err := ov.AddHarness(p); err != nil {
				return err
			}
		}
		_, err := vc.BuildHarnessTest("c17", ov, "c17", false)
		return err
	})
}
