package checks

import (
	"fmt"
	"os"
	"path/filepath"
	"sort"
	"strings"
	"sync"

	"verif/internal/hist"
	"verif/internal/vc"
)

// layeredLocalFaults: a layered cache (local file-system layer + remote object
// store behind the real RemoteWrapper) in which the LOCAL layer fails while the
// remote is healthy. The local layer is a concrete type, so its faults are
// produced in the file system: the cas / target directory is a regular file
// (every write of that kind fails before reading anything), or a non-empty
// directory sits at the final path of ONE entry (that write fails, possibly
// after the whole content was consumed) - for every entry a cold build of the
// model workspace stores. After the faulted build on machine A: the remote
// passes the offline audit (no object whose content does not match its digest,
// no result without its blobs), machine B builds correctly from the remote,
// and - once the obstruction is removed - A's next build exits 0 with outputs
// equal to a from-scratch build (the remote passes the audit again).
func layeredLocalFaults(c *Ctx, prop, fbin, abin, base string, want func(w wsState) map[string]map[string]hist.Entry) {
	w := wsState{}
	src := w.source()
	env := func(u *universe) map[string]string { return map[string]string{"VERIF_REMOTE_DIR": u.remote} }
	// fault-free run: which entries does a cold build store locally?
	ref, err := newUniverse(base)
	if err != nil {
		c.R.BrokenCheck("%v", err)
		return
	}
	src.Materialize(ref.a.WS(), nil)
	if rr := ref.a.Run(fbin, hist.RunOpts{Args: []string{"build", "//..."}, Env: env(ref)}); rr.Exit != 0 {
		c.R.BrokenCheck("layered cache: fault-free build failed: %s", tail(rr.Output, 300))
		os.RemoveAll(ref.dir)
		return
	}
	var entries []string
	for _, n := range ref.a.CacheNames() {
		if strings.HasPrefix(n, "cas/") || strings.HasPrefix(n, "target/") {
			entries = append(entries, n)
		}
	}
	sort.Strings(entries)
	os.RemoveAll(ref.dir)
	type scenario struct{ name, cls, path string }
	scs := []scenario{{"cas is a regular file", "cas-is-a-file", "cas"}, {"target is a regular file", "target-dir-is-a-file", "target"}}
	for _, e := range entries {
		scs = append(scs, scenario{"a non-empty directory sits at " + e[:strings.Index(e, "/")+9], e[:strings.Index(e, "/")] + "-entry-path-obstructed", e})
	}
	c.R.Set("layered_local_fault_scenarios", len(scs))
	wantL := want(w)
	var wg sync.WaitGroup
	sem := make(chan struct{}, 24)
	for _, sc := range scs {
		wg.Add(1)
		sem <- struct{}{}
		go func(sc scenario) {
			defer wg.Done()
			defer func() { <-sem }()
			u, err := newUniverse(base)
			if err != nil {
				c.R.BrokenCheck("%v", err)
				return
			}
			defer os.RemoveAll(u.dir)
			src.Materialize(u.a.WS(), nil)
			src.Materialize(u.b.WS(), nil)
			obst := filepath.Join(u.a.CacheDir(), sc.path)
			os.MkdirAll(filepath.Dir(obst), 0o755)
			if sc.path == "cas" || sc.path == "target" {
				os.WriteFile(obst, []byte("not a directory"), 0o644)
			} else {
				os.MkdirAll(filepath.Join(obst, "in-the-way"), 0o755)
			}
			ra := u.a.Run(fbin, hist.RunOpts{Args: []string{"build", "//..."}, Env: env(u)})
			replay := map[string]any{"scenario": "layered cache, local layer fault: " + sc.name, "machine_A_exit": ra.Exit, "grog_output_tail": tail(ra.Output, 800)}
			vio := func(sig, format string, a ...any) {
				c.R.Violate(vc.Violation{Sig: prop + ":layered-cache:" + sig + ":" + sc.cls, Detail: "local cache layer fault (" + sc.name + ") while the remote is healthy: " + fmt.Sprintf(format, a...), Replay: replay})
			}
			if ra.TimedOut {
				vio("build-hangs", "the build on machine A did not exit")
				return
			}
			problems, _, _, err := auditCache(abin, u.remote, "")
			if err != nil {
				c.R.BrokenCheck("%v", err)
				return
			}
			for _, p := range problems {
				vio("remote-audit:"+p.Kind, "%s", p.Detail)
			}
			rb := u.b.Run(fbin, hist.RunOpts{Args: []string{"build", "//..."}, Env: env(u)})
			if rb.Exit != 0 {
				vio("machine-B-fails", "machine B exited %d: %s", rb.Exit, tail(rb.Output, 300))
			} else {
				for _, t := range src.Targets {
					if d := hist.DiffListing(outputsListing(u.b.WS(), t), wantL[t.Label()]); d != "" {
						vio("machine-B-wrong-output", "%s differs from a from-scratch build: %s", t.Label(), d)
					}
				}
			}
			if ra.Exit == 0 {
				for _, t := range src.Targets {
					if d := hist.DiffListing(outputsListing(u.a.WS(), t), wantL[t.Label()]); d != "" {
						vio("wrong-output-after-tolerated-fault", "machine A exited 0 but %s differs from a from-scratch build: %s", t.Label(), d)
					}
				}
			}
			// the fault goes away: the next build on the same cache and workspace
			os.RemoveAll(obst)
			r2 := u.a.Run(fbin, hist.RunOpts{Args: []string{"build", "//..."}, Env: env(u)})
			if r2.Exit != 0 {
				vio("follow-up-build-fails", "the next build on machine A exited %d: %s", r2.Exit, tail(r2.Output, 300))
			} else {
				for _, t := range src.Targets {
					if d := hist.DiffListing(outputsListing(u.a.WS(), t), wantL[t.Label()]); d != "" {
						vio("follow-up-build-wrong-output", "%s differs from a from-scratch build: %s", t.Label(), d)
					}
				}
				// (only the remote: the local layer is a read-through copy, a result whose blob failed to be
				// written locally is completed from the remote on the next read)
				ps, _, _, _ := auditCache(abin, u.remote, "")
				for _, p := range ps {
					vio("remote-audit-after-recovery:"+p.Kind, "%s", p.Detail)
				}
			}
			c.R.AddCounts(1, 1, 3, 1)
			c.R.Outcome(fmt.Sprintf("layered|%s|A=%d|B=%d", sc.cls, ra.Exit, rb.Exit))
			c.R.Nontrivial("layered|" + sc.name)
		}(sc)
	}
	wg.Wait()
}

// layeredRemoteFaults: the REMOTE layer of the layered cache fails once (every remote operation instance of the build x
// {error, Get failing in mid-stream, Get/Exists reporting absent, Set consuming the body and failing}) while machine A
// rebuilds targets whose blobs exist in its local layer only (a first build ran with the remote disabled, then a command
// got a comment: it re-executes and reproduces identical blobs). Whatever the build's exit status: the remote passes the
// audit (no result without its blobs, no blob with wrong content); after a build that exited 0 a second machine builds
// correctly from the remote.
func layeredRemoteFaults(c *Ctx, prop, fbin, abin, base string, want func(w wsState) map[string]map[string]hist.Entry) {
	w0 := wsState{}
	w1 := wsState{}
	w1.T[tgAppCmdComment] = true
	w1.T[tgCmdComment] = true
	seed, err := newUniverse(base)
	if err != nil {
		c.R.BrokenCheck("%v", err)
		return
	}
	defer os.RemoveAll(seed.dir)
	w0.source().Materialize(seed.a.WS(), nil)
	if rr := seed.a.Run(fbin, hist.RunOpts{Args: []string{"build", "//..."}}); rr.Exit != 0 {
		c.R.BrokenCheck("layered cache (remote faults): local-only build failed: %s", tail(rr.Output, 300))
		return
	}
	w1.source().Materialize(seed.a.WS(), w0.source())
	logU, err := seed.clone(base)
	if err != nil {
		c.R.BrokenCheck("%v", err)
		return
	}
	logf := filepath.Join(logU.dir, "remotelog")
	logU.a.Run(fbin, hist.RunOpts{Args: []string{"build", "//..."}, Env: map[string]string{"VERIF_REMOTE_DIR": logU.remote, "VERIF_REMOTE_LOG": logf}})
	cnt := map[string]int{}
	per := map[string]int{}
	var faults []string
	for _, l := range readLines(logf) {
		f := strings.Fields(l)
		cnt[f[0]]++
		for _, m := range map[string][]string{"get": {"err", "late", "miss"}, "set": {"err", "late"}, "exists": {"err", "miss"}}[f[0]] {
			per[f[0]+":"+m]++
			if !c.Thorough && per[f[0]+":"+m] > 12 {
				continue
			}
			faults = append(faults, fmt.Sprintf("%s#%d:%s", f[0], cnt[f[0]], m))
		}
	}
	os.RemoveAll(logU.dir)
	c.R.Set("layered_remote_fault_cases", len(faults))
	wantL := want(w1)
	var wg sync.WaitGroup
	sem := make(chan struct{}, 24)
	for _, f := range faults {
		wg.Add(1)
		sem <- struct{}{}
		go func(f string) {
			defer wg.Done()
			defer func() { <-sem }()
			u, err := seed.clone(base)
			if err != nil {
				c.R.BrokenCheck("%v", err)
				return
			}
			defer os.RemoveAll(u.dir)
			cls := f[:strings.Index(f, "#")] + f[strings.LastIndex(f, ":"):]
			ra := u.a.Run(fbin, hist.RunOpts{Args: []string{"build", "//..."}, Env: map[string]string{"VERIF_REMOTE_DIR": u.remote, "VERIF_REMOTE_FAULT": f}})
			replay := map[string]any{"scenario": "layered cache, blobs local-only, one remote fault", "remote_fault": f, "machine_A_exit": ra.Exit, "grog_output_tail": tail(ra.Output, 800)}
			vio := func(sig, format string, a ...any) {
				c.R.Violate(vc.Violation{Sig: prop + ":layered-cache:" + sig + ":remote-" + cls, Detail: fmt.Sprintf("machine A rebuilds targets whose blobs are in its local layer only, remote fault %s: ", f) + fmt.Sprintf(format, a...), Replay: replay})
			}
			if ra.TimedOut {
				vio("build-hangs", "the build did not exit")
				return
			}
			problems, _, _, _ := auditCache(abin, u.remote, "")
			for _, p := range problems {
				vio("remote-audit:"+p.Kind, "%s", p.Detail)
			}
			if ra.Exit == 0 {
				w1.source().Materialize(u.b.WS(), nil)
				rb := u.b.Run(fbin, hist.RunOpts{Args: []string{"build", "//..."}, Env: map[string]string{"VERIF_REMOTE_DIR": u.remote}})
				if rb.Exit != 0 {
					vio("machine-B-fails", "machine B exited %d: %s", rb.Exit, tail(rb.Output, 300))
				} else {
					for _, t := range w1.source().Targets {
						if d := hist.DiffListing(outputsListing(u.b.WS(), t), wantL[t.Label()]); d != "" {
							vio("machine-B-wrong-output", "%s differs from a from-scratch build: %s", t.Label(), d)
						}
					}
				}
			}
			c.R.AddCounts(1, 1, 2, 1)
			c.R.Outcome(fmt.Sprintf("layered-remote|%s|A=%d", cls, ra.Exit))
			c.R.Nontrivial("layered-remote|" + f)
		}(f)
	}
	wg.Wait()
}
