package checks

import (
	"sort"
	"strings"

	"verif/internal/vc"
)

// exportLoadingInternalsC11 exposes (through the overlay only) the two unexported
// functions LoadPackages uses to turn parsed BUILD files into packages, so that
// the C11 harness can run the load stage without a file system walk.
func exportLoadingInternalsC11(ov *vc.Overlay) error {
	return ov.AddContent("exports", "internal/loading/zverif_export_c11.go", []byte(`package loading

import (
	"grog/internal/console"
	"grog/internal/model"
)

// VerifC11EnrichPackage exposes getEnrichedPackage to the verification harness (overlay only).
func VerifC11EnrichPackage(logger *console.Logger, packagePath string, pkg PackageDTO) (*model.Package, error) {
	return getEnrichedPackage(logger, packagePath, pkg)
}

// VerifC11MergePackages exposes mergePackages to the verification harness (overlay only).
func VerifC11MergePackages(from *model.Package, into *model.Package) error {
	return mergePackages(from, into)
}
`))
}

func init() {
	Registry["C11"] = func(c *Ctx) {
		c.R.Rule = "bounded-exhaustive: every graph of the families structure/n1..n3 (each node alias | alias named *test | plain | *test | testonly target, deps any subset of {every node incl. self, one dangling label}), structure/n4 (quick: no self/dangling; thorough: self included), outputs/n1..n3 (alias|plain, deps any subset of the other nodes, packages p and p/q, one output from {none,o,./o,d/../o,dir::d,dir::d/,dir::d/e,d/f,../x,../../x,docker::t,dir::../../y}), outputs/n4-dag (deps to lower nodes only, reduced output alphabet), two-outputs/n1..n2 (a second output dir::d/e | bin_output d/f | docker::u), duplicates/n2..n3 (names from {a,b}, 2 packages x 2 BUILD files per package, alias|plain(|testonly), <=1 dependency, run under EVERY permutation of the node order = order inside the BUILD file lists, order of BUILD files, order of packages), inputs/n1..n3 (one input from {none,i,../i,/abs,d/../i,d/../../i}), thorough also mixed/n3; each graph goes through the real getEnrichedPackage -> mergePackages -> BuildNodeMapFromPackages -> BuildGraph -> CheckTargetConstraints and accept/reject is compared with a reference validator written from the statement; every 4th graph of the non-permuted families is re-run in reversed node order. A graph is counted as non-trivial when it has at least one dependency edge (incl. alias actual) or at least one declared output; keys are the full graph encodings (distinct graphs). Outcomes are distinct (stage, diagnostic class) pairs."
		c.R.Assume(
			"in-process pipeline only: the loader's file walk/parsers and the absence of executed commands on reject are bound by the real-binary slice of the design, not by this check; `grog build` additionally fails when the pattern selects no target (e.g. a graph of test targets only), which is outside the statement's defect list and not exercised here",
			"testonly rule as documented in reference/target-configuration: non-test, non-testonly targets may not depend on testonly targets; non-test targets (testonly or not) may not depend on test targets; an alias stands for the target it (transitively) points to; an alias whose own name ends in 'test' is not a test target",
			"overlap = same file / same or nested directories / file strictly inside a directory output / same docker tag, after path.Clean of the package-joined slash path; two targets are ordered when one reaches the other over dependency edges, alias nodes included; the statement says nothing about a file output x next to a file output x/y (never required to be rejected)",
			"excluded as not defined by the statement: a file output and a directory output at the very same path; the identical output string declared twice by one target; absolute output paths; an input like ../q/i that leaves and re-enters its own package; when a duplicate label exists the other defect classes are not evaluated",
			"a single target whose own outputs overlap (dir::d plus bin_output d/f, dir::d plus dir::d/e) has none of the listed defects (the statement speaks of two targets) and must be accepted",
			"the verdict's independence of Go map iteration order is only observed through the repeated/permuted executions (map order cannot be controlled)",
		)
		ov := vc.NewOverlay()
		if err := exportLoadingInternalsC11(ov); err != nil {
			c.R.BrokenCheck("%v", err)
			return
		}
		simpleHarnessOv(c, ov, "c11", "c11", nil, nil, 16)

		// The reference validator itself must have been exercised: every defect
		// class of the statement must occur, also as the only defect of a graph,
		// and both directions of the ordering rule must occur among valid graphs.
		if len(c.Args) > 0 { // replay of a single graph
			return
		}
		get := func(prefix string) int64 {
			var n int64
			for k, v := range c.R.Extra {
				if strings.HasPrefix(k, prefix) {
					if x, ok := v.(int64); ok {
						n += x
					}
				}
			}
			return n
		}
		required := []string{
			"sole:duplicate:target+target", "sole:duplicate:target+alias", "sole:duplicate:alias+alias",
			"sole:duplicate:target+target:across-files", "sole:duplicate:target+alias:across-files",
			"sole:undefined-dep:target-dep", "sole:undefined-dep:alias-actual",
			"sole:self-loop:target", "sole:self-loop:alias",
			"sole:cycle:targets-only", "sole:cycle-through-alias",
			"sole:overlap:same-file", "sole:overlap:same-file:normalised", "sole:overlap:same-dir", "sole:overlap:nested-dirs", "sole:overlap:file-in-dir", "sole:overlap:docker-tag",
			"sole:input:absolute", "sole:input:escape", "sole:input:escape:normalised",
			"sole:output-escape:file", "sole:output-escape:dir",
			"sole:test-dep:direct", "sole:test-dep:via-alias", "sole:testonly-dep:direct", "sole:testonly-dep:via-alias",
			"expect:accept", "valid:ordered-overlap:direct", "valid:ordered-overlap:via-alias",
			"valid:test-depends-on-test-or-testonly", "valid:testonly-depends-on-testonly",
			"valid:input-with-dotdot-staying-inside", "valid:output-in-parent-directory-inside-workspace",
		}
		var missing []string
		for _, k := range required {
			if get(k) == 0 {
				missing = append(missing, k)
			}
		}
		sort.Strings(missing)
		if len(missing) > 0 && len(c.R.Broken) == 0 {
			c.R.BrokenCheck("the generator never produced: %s", strings.Join(missing, ", "))
		}
	}
}
