package checks

import (
	"fmt"
	"path/filepath"
	"sort"
	"strings"
	"sync"

	"verif/internal/hist"
	"verif/internal/vc"
)

// C20: query commands of the REAL binary against a reference graph, on every
// workspace of a bounded family, plus "edit f => executed ⊆ owners(f) ∪ rdeps*".

type qnode struct {
	label  string
	pkg    string
	name   string
	alias  bool
	deps   []int // indices (for an alias: exactly one)
	inputs []string
	isTest bool
	dupFirstDep bool // the first dependency is declared twice
}

func queryLines(out string) []string {
	var ls []string
	for _, l := range strings.Split(out, "\n") {
		l = strings.TrimSpace(l)
		if strings.HasPrefix(l, "//") {
			ls = append(ls, l)
		}
	}
	return ls
}

func setOf(ls []string) map[string]bool {
	m := map[string]bool{}
	for _, l := range ls {
		m[l] = true
	}
	return m
}

func sortedKeys(m map[string]bool) []string {
	var ks []string
	for k := range m {
		ks = append(ks, k)
	}
	sort.Strings(ks)
	return ks
}

func sameSet(a []string, b map[string]bool) bool {
	if len(setOf(a)) != len(b) {
		return false
	}
	for _, x := range a {
		if !b[x] {
			return false
		}
	}
	return true
}

func c20Workspaces(thorough bool) [][]qnode {
	// 4 targets: t0,t1 in package a; a second t0 in package b (same name, other package: both may be dependencies of one
	// target); t3 = "e2e_test" in b (a test target; nobody may depend on it).
	// optional alias al in package b pointing at one of t0..t2, usable as a dependency of higher targets.
	var out [][]qnode
	base := []qnode{
		{pkg: "a", name: "t0", inputs: []string{"./t0.in", "shared.in"}}, // a literal input spelled non-canonically
		{pkg: "a", name: "t1", inputs: []string{"{t1,t1x}.in", "shared.in"}}, // a glob whose only special characters are braces
		{pkg: "b", name: "t0", inputs: []string{"sub/../t2.in", "sub/*.txt"}},
		{pkg: "b", name: "e2e_test", inputs: []string{"t3.in"}, isTest: true},
		// a target in the ROOT package, connected to nothing: patterns that name another package never reach it
		{pkg: "", name: "r", inputs: []string{"r.in"}},
	}
	pairs := [][2]int{{0, 1}, {0, 2}, {0, 3}, {1, 2}, {1, 3}, {2, 3}} // dep -> dependant (lower -> higher)
	for mask := 0; mask < 1<<len(pairs); mask++ {
		mk := func() []qnode {
			ns := make([]qnode, len(base))
			copy(ns, base)
			for i := range ns {
				ns[i].deps = nil
				ns[i].label = "//" + ns[i].pkg + ":" + ns[i].name
			}
			for i, p := range pairs {
				if mask&(1<<i) != 0 {
					ns[p[1]].deps = append(ns[p[1]].deps, p[0])
				}
			}
			return ns
		}
		out = append(out, mk())
		if mask != 0 && (thorough || mask%4 == 3) {
			dup := mk()
			for i := range dup {
				dup[i].dupFirstDep = len(dup[i].deps) > 0
			}
			out = append(out, dup)
		}
		// alias variants: replace one existing edge (d -> x) by (d -> al -> x)
		for i, p := range pairs {
			if mask&(1<<i) == 0 {
				continue
			}
			if !thorough && i%2 == 1 {
				continue
			}
			ns := mk()
			al := qnode{pkg: "b", name: "al", alias: true, deps: []int{p[0]}, label: "//b:al"}
			ns = append(ns, al)
			ai := len(ns) - 1
			var nd []int
			for _, d := range ns[p[1]].deps {
				if d == p[0] {
					nd = append(nd, ai)
				} else {
					nd = append(nd, d)
				}
			}
			ns[p[1]].deps = nd
			out = append(out, ns)
		}
	}
	return out
}

// c20Tags: node i carries none, "ta", "tb" or both (by position), so that every combination of the --tag /
// --exclude-tag filters separates some pair of targets.
func c20Tags(i int) []string {
	switch i % 4 {
	case 1:
		return []string{"ta"}
	case 2:
		return []string{"tb"}
	case 3:
		return []string{"ta", "tb"}
	}
	return nil
}

func c20Source(ns []qnode) *hist.Source {
	s := &hist.Source{Files: map[string]hist.File{}}
	for ni, n := range ns {
		if n.alias {
			s.Aliases = append(s.Aliases, hist.Alias{Pkg: n.pkg, Name: n.name, Actual: ns[n.deps[0]].label})
			continue
		}
		var deps []string
		for di, d := range n.deps {
			deps = append(deps, ns[d].label)
			if n.dupFirstDep && di == 0 {
				// the same dependency a second time, spelled differently where that is possible
				if ns[d].pkg == n.pkg && !ns[d].alias {
					deps = append(deps, ":"+ns[d].name)
				} else {
					deps = append(deps, ns[d].label)
				}
			}
		}
		s.Targets = append(s.Targets, hist.Target{Pkg: n.pkg, Name: n.name, Command: traceStart, Inputs: n.inputs, Deps: deps, Tags: c20Tags(ni)})
		for _, in := range n.inputs {
			if strings.Contains(in, "*") {
				s.Files[n.pkg+"/sub/g1.txt"] = hist.File{Content: "g1"}
				s.Files[n.pkg+"/sub/g2.txt"] = hist.File{Content: "g2"}
			} else if strings.Contains(in, "{") {
				for _, e := range braceExpand(in) {
					s.Files[filepath.Clean(filepath.Join(n.pkg, e))] = hist.File{Content: e}
				}
			} else {
				s.Files[filepath.Clean(filepath.Join(n.pkg, in))] = hist.File{Content: in}
			}
		}
	}
	s.Files["a/unowned.txt"] = hist.File{Content: "nobody declares me"}
	s.Files["b/shared.in"] = hist.File{Content: "same base name as a/shared.in but not an input"}
	return s
}

func init() {
	Registry["C20"] = func(c *Ctx) {
		c.R.Rule = "every workspace of a family (4 targets in two packages, every subset of the 6 possible lower->higher dependency edges = all DAG shapes incl. diamonds, plus variants in which one edge goes through an alias; one target is a test target) is materialised on disk and queried with the REAL binary: grog deps / deps -t / rdeps / rdeps -t for every node, --target-type=test|no_test, grog owners for every input file (incl. a file shared by two targets, glob-resolved files, a same-named file in another package and an unowned file), grog list for 8 pattern forms. Printed label sets must equal reference reachability sets, each label printed once, deps* and rdeps* must be mutual inverses. Second part: every single-file edit of the C01 model workspace followed by a build started in each directory of the workspace in turn: executed targets ⊆ owners(f) ∪ rdeps*(owners(f)) as printed by the binary itself. Non-trivial = a query whose expected answer is non-empty. Variants in which every target declares its first dependency twice (second time spelled relatively): still each label once. One target name exists in two packages (a target may depend on both). A workspace in which an unrelated target has two outputs of very different size: editing another target's input must not re-execute it (3 rounds). Nested package: a package below another package whose target's glob reaches into it: owners of a file there names both targets, and an edit re-executes only owners and their rdeps. Targets carry the tags none / ta / tb / both by position: grog list //... and deps -t of the top node under 10 combinations of --tag / --exclude-tag (one tag, two tags in both flag orders and the comma form, an unknown tag, excludes, include+exclude) print exactly the targets carrying any included and no excluded tag."
		c.R.Assume("edit part: regular input files only; a file that is an input only through a symbolic link is not an input file by its own path and is left out (symlinked inputs are covered by C01)", "stdout lines starting with // are the answer of a query command", "with --target-type other than all only target labels are compared (alias nodes are not typed)")
		grog, err := vc.BuildGrog("grog", nil)
		if err != nil {
			c.R.BrokenCheck("%v", err)
			return
		}
		base, cleanup := scratchBase(c, "c20")
		defer cleanup()
		wss := c20Workspaces(c.Thorough)
		var wg sync.WaitGroup
		sem := make(chan struct{}, 32)
		var mu sync.Mutex
		queries := int64(0)
		for wi, ns := range wss {
			wg.Add(1)
			sem <- struct{}{}
			go func(wi int, ns []qnode) {
				defer wg.Done()
				defer func() { <-sem }()
				n := c20Workspace(c, grog, base, wi, ns)
				mu.Lock()
				queries += n
				mu.Unlock()
			}(wi, ns)
		}
		wg.Wait()
		c.R.AddCounts(0, int64(len(wss)), 0, 0)
		c.R.Set("workspaces", len(wss))
		c.R.Set("query_invocations", queries)
		c20EditPart(c, grog, base)
		c20SkewedOutputs(c, grog, base)
		c20NestedPackage(c, grog, base)
	}
}

func c20Workspace(c *Ctx, grog, base string, wi int, ns []qnode) int64 {
	box, err := hist.NewBox(base)
	if err != nil {
		c.R.BrokenCheck("scratch: %v", err)
		return 0
	}
	defer box.Remove()
	src := c20Source(ns)
	src.Materialize(box.WS(), nil)
	var edges []string
	for _, n := range ns {
		for _, d := range n.deps {
			edges = append(edges, ns[d].label+"->"+n.label)
		}
	}
	desc := strings.Join(edges, " ")
	// reference reachability
	deps := func(i int, trans bool) map[string]bool {
		out := map[string]bool{}
		var visit func(j int)
		visit = func(j int) {
			for _, d := range ns[j].deps {
				if !out[ns[d].label] {
					out[ns[d].label] = true
					if trans {
						visit(d)
					}
				}
			}
		}
		visit(i)
		return out
	}
	rdeps := func(i int, trans bool) map[string]bool {
		out := map[string]bool{}
		var visit func(j int)
		visit = func(j int) {
			for k := range ns {
				for _, d := range ns[k].deps {
					if d == j && !out[ns[k].label] {
						out[ns[k].label] = true
						if trans {
							visit(k)
						}
					}
				}
			}
		}
		visit(i)
		return out
	}
	var n int64
	run := func(cwd string, args ...string) ([]string, hist.RunResult) {
		rr := box.Run(grog, hist.RunOpts{Args: args, Cwd: cwd, Ceiling: 60e9})
		n++
		c.R.AddCounts(1, 0, 1, 1)
		return queryLines(rr.Output), rr
	}
	check := func(kind string, args []string, cwd string, want map[string]bool, filterTargetsOnly bool) {
		got, rr := run(cwd, args...)
		if filterTargetsOnly {
			var g2 []string
			for _, l := range got {
				if l != "//b:al" {
					g2 = append(g2, l)
				}
			}
			got = g2
			w2 := map[string]bool{}
			for k := range want {
				if k != "//b:al" {
					w2[k] = true
				}
			}
			want = w2
		}
		replay := map[string]any{"workspace_edges": desc, "args": args, "cwd": cwd, "printed": got, "expected": sortedKeys(want), "output_tail": tail(rr.Output, 600)}
		if rr.Exit != 0 {
			c.R.Violate(vc.Violation{Sig: "C20:" + kind + ":query-fails", Detail: fmt.Sprintf("grog %v exited %d on workspace {%s}: %s", args, rr.Exit, desc, tail(rr.Output, 300)), Replay: replay})
			return
		}
		if len(setOf(got)) != len(got) {
			c.R.Violate(vc.Violation{Sig: "C20:" + kind + ":label-printed-more-than-once", Detail: fmt.Sprintf("grog %v on workspace {%s} printed %v", args, desc, got), Replay: replay})
		}
		if !sameSet(got, want) {
			c.R.Violate(vc.Violation{Sig: "C20:" + kind + ":wrong-set", Detail: fmt.Sprintf("grog %v on workspace {%s} printed %v, expected %v", args, desc, got, sortedKeys(want)), Replay: replay})
		}
		c.R.Outcome(kind + "|" + strings.Join(got, ","))
		if len(want) > 0 {
			c.R.Nontrivial(fmt.Sprintf("%d|%v", wi, args))
		}
	}
	typeOK := func(i int, typ string) bool {
		switch typ {
		case "test":
			return ns[i].isTest
		case "no_test":
			return !ns[i].isTest
		}
		return true
	}
	filterType := func(m map[string]bool, typ string) map[string]bool {
		out := map[string]bool{}
		for i := range ns {
			if m[ns[i].label] && (ns[i].alias || typeOK(i, typ)) {
				out[ns[i].label] = true
			}
		}
		return out
	}
	depsStar := map[string]map[string]bool{}
	rdepsStar := map[string]map[string]bool{}
	for i := range ns {
		check("deps", []string{"deps", ns[i].label}, "", deps(i, false), false)
		check("deps -t", []string{"deps", "-t", ns[i].label}, "", deps(i, true), false)
		check("rdeps", []string{"rdeps", ns[i].label}, "", rdeps(i, false), false)
		check("rdeps -t", []string{"rdeps", "-t", ns[i].label}, "", rdeps(i, true), false)
		depsStar[ns[i].label] = deps(i, true)
		rdepsStar[ns[i].label] = rdeps(i, true)
		if i == len(ns)-1 || ns[i].isTest {
			for _, typ := range []string{"test", "no_test"} {
				check("deps -t --target-type", []string{"deps", "-t", "--target-type=" + typ, ns[i].label}, "", filterType(deps(i, true), typ), true)
			}
		}
		if i == 0 {
			for _, typ := range []string{"test", "no_test"} {
				check("rdeps -t --target-type", []string{"rdeps", "-t", "--target-type=" + typ, ns[i].label}, "", filterType(rdeps(i, true), typ), true)
			}
		}
		// relative label from the node's own package
		check("deps (relative label)", []string{"deps", "-t", ":" + ns[i].name}, ns[i].pkg, deps(i, true), false)
	}
	// owners
	files := map[string]map[string]bool{}
	for _, nd := range ns {
		if nd.alias {
			continue
		}
		for _, in := range nd.inputs {
			ps := []string{filepath.Clean(filepath.Join(nd.pkg, in))}
			if strings.Contains(in, "*") {
				ps = []string{nd.pkg + "/sub/g1.txt", nd.pkg + "/sub/g2.txt"}
			} else if strings.Contains(in, "{") {
				ps = nil
				for _, e := range braceExpand(in) {
					ps = append(ps, filepath.Clean(filepath.Join(nd.pkg, e)))
				}
			}
			for _, p := range ps {
				if files[p] == nil {
					files[p] = map[string]bool{}
				}
				files[p][nd.label] = true
			}
		}
	}
	files["a/unowned.txt"] = map[string]bool{}
	files["b/shared.in"] = map[string]bool{}
	for p, want := range files {
		check("owners", []string{"owners", p}, "", want, false)
	}
	// owners with a path relative to a package directory
	check("owners (relative path)", []string{"owners", "t0.in"}, "a", files["a/t0.in"], false)
	// list
	all := map[string]bool{}
	inPkg := map[string]map[string]bool{"a": {}, "b": {}, "": {}}
	for _, nd := range ns {
		all[nd.label] = true
		inPkg[nd.pkg][nd.label] = true
	}
	check("list", []string{"list", "//..."}, "", all, false)
	check("list", []string{"list", "//a/..."}, "", inPkg["a"], false)
	check("list", []string{"list", "//b:all"}, "", inPkg["b"], false)
	check("list", []string{"list", "//a:t0"}, "", map[string]bool{"//a:t0": true}, false)
	check("list", []string{"list"}, "b", inPkg["b"], false)
	check("list", []string{"list", "//:r"}, "", map[string]bool{"//:r": true}, false)
	check("list", []string{"list", ":r"}, "", map[string]bool{"//:r": true}, false)
	check("list", []string{"list", "//:all"}, "a", inPkg[""], false)
	check("list", []string{"list", ":t1"}, "a", map[string]bool{"//a:t1": true}, false)
	check("list", []string{"list", "//a:t0", "//b/..."}, "", func() map[string]bool {
		m := map[string]bool{"//a:t0": true}
		for k := range inPkg["b"] {
			m[k] = true
		}
		return m
	}(), false)
	testOnly := map[string]bool{}
	for i := range ns {
		if ns[i].isTest {
			testOnly[ns[i].label] = true
		}
	}
	check("list --target-type", []string{"list", "--target-type=test", "//..."}, "", testOnly, true)
	// tag filters (documented: several --tag values select targets carrying ANY of them; --exclude-tag removes targets
	// carrying any of the excluded ones), in both flag orders and in the comma form, for list and for deps -t of the top node
	hasAny := func(i int, tags []string) bool {
		for _, t := range c20Tags(i) {
			for _, w := range tags {
				if t == w {
					return true
				}
			}
		}
		return false
	}
	filterTags := func(m map[string]bool, inc, exc []string) map[string]bool {
		out := map[string]bool{}
		for i := range ns {
			if m[ns[i].label] && !ns[i].alias && (len(inc) == 0 || hasAny(i, inc)) && !hasAny(i, exc) {
				out[ns[i].label] = true
			}
		}
		return out
	}
	top := len(ns) - 1
	for _, tf := range []struct {
		args     []string
		inc, exc []string
	}{
		{[]string{"--tag=ta"}, []string{"ta"}, nil},
		{[]string{"--tag=tb"}, []string{"tb"}, nil},
		{[]string{"--tag=ta", "--tag=tb"}, []string{"ta", "tb"}, nil},
		{[]string{"--tag=tb", "--tag=ta"}, []string{"ta", "tb"}, nil},
		{[]string{"--tag=ta,tb"}, []string{"ta", "tb"}, nil},
		{[]string{"--tag=tb", "--tag=nosuch"}, []string{"tb"}, nil},
		{[]string{"--exclude-tag=ta"}, nil, []string{"ta"}},
		{[]string{"--exclude-tag=ta", "--exclude-tag=tb"}, nil, []string{"ta", "tb"}},
		{[]string{"--exclude-tag=tb", "--exclude-tag=ta"}, nil, []string{"ta", "tb"}},
		{[]string{"--tag=ta", "--exclude-tag=tb"}, []string{"ta"}, []string{"tb"}},
	} {
		check("list --tag", append(append([]string{"list"}, tf.args...), "//..."), "", filterTags(all, tf.inc, tf.exc), true)
		if len(tf.args) > 1 {
			check("deps -t --tag", append(append([]string{"deps", "-t"}, tf.args...), ns[top].label), "", filterTags(deps(top, true), tf.inc, tf.exc), true)
		}
	}
	// mutual inverse (from the reference sets that the printed sets were compared with)
	for x, ds := range depsStar {
		for y := range ds {
			if !rdepsStar[y][x] {
				c.R.BrokenCheck("reference sets are not mutual inverses for %s %s", x, y)
			}
		}
	}
	return n
}

// c20SkewedOutputs: the same oracle on a workspace in which an unrelated target has two outputs of very different
// size (the small, alphabetically later one is stored first): whatever order its outputs were recorded in, editing
// another target's input must not re-execute it.
func c20SkewedOutputs(c *Ctx, grog, base string) {
	box, err := hist.NewBox(base)
	if err != nil {
		c.R.BrokenCheck("scratch: %v", err)
		return
	}
	defer box.Remove()
	src := &hist.Source{Files: map[string]hist.File{"gen/gen.in": {Content: "g"}, "other/lib.in": {Content: "l1"}}}
	src.Targets = append(src.Targets,
		hist.Target{Pkg: "gen", Name: "bundle", Inputs: []string{"gen.in"}, Outputs: []string{"a_big.bin", "b_small.txt"}, Command: traceStart + "\nhead -c 33554432 /dev/zero > a_big.bin\nprintf small > b_small.txt"},
		hist.Target{Pkg: "other", Name: "lib", Inputs: []string{"lib.in"}, Outputs: []string{"lib.txt"}, Command: traceStart + "\ncat lib.in > lib.txt"},
		hist.Target{Pkg: "other", Name: "app", Deps: []string{":lib"}, Outputs: []string{"app.txt"}, Command: traceStart + "\ncat lib.txt > app.txt"})
	src.Materialize(box.WS(), nil)
	if rr := box.Run(grog, hist.RunOpts{Args: []string{"build", "//..."}}); rr.Exit != 0 {
		c.R.BrokenCheck("size-skewed workspace: initial build failed: %s", tail(rr.Output, 300))
		return
	}
	for round := 1; round <= 3; round++ {
		f := "other/lib.in"
		owners := queryLines(box.Run(grog, hist.RunOpts{Args: []string{"owners", f}}).Output)
		allowed := setOf(owners)
		for _, o := range owners {
			for _, l := range queryLines(box.Run(grog, hist.RunOpts{Args: []string{"rdeps", "-t", o}}).Output) {
				allowed[l] = true
			}
		}
		s2 := src.Clone()
		s2.Files[f] = hist.File{Content: fmt.Sprintf("l%d", round+1)}
		s2.Materialize(box.WS(), src)
		src = s2
		r2 := box.Run(grog, hist.RunOpts{Args: []string{"build", "//..."}})
		for _, e := range r2.Started() {
			if !allowed[e] {
				c.R.Violate(vc.Violation{Sig: "C20:edit-executes-target-outside-owners-and-rdeps", Detail: fmt.Sprintf("size-skewed outputs, round %d: after editing %s the build executed %s, but owners(%s)=%v and their transitive rdeps are %v: %s", round, f, e, f, owners, sortedKeys(allowed), tail(r2.Output, 300)), Replay: map[string]any{"file": f, "executed": r2.Started(), "workspace": "//gen:bundle with outputs a_big.bin (32 MiB) and b_small.txt; //other:lib <- //other:app"}})
			}
		}
		c.R.AddCounts(3, 1, 3, 3)
		c.R.Nontrivial(fmt.Sprintf("skewed|%d", round))
	}
}

// c20EditPart: after editing file f, executed ⊆ owners(f) ∪ rdeps*(owners(f)) as printed by the binary.
func c20EditPart(c *Ctx, grog, base string) {
	box, err := hist.NewBox(base)
	if err != nil {
		c.R.BrokenCheck("scratch: %v", err)
		return
	}
	defer box.Remove()
	ws0 := wsState{}
	src := ws0.source()
	src.Materialize(box.WS(), nil)
	rr := box.Run(grog, hist.RunOpts{Args: []string{"build", "//..."}})
	if rr.Exit != 0 {
		c.R.BrokenCheck("initial build of the model workspace failed: %s", tail(rr.Output, 300))
		return
	}
	var files []string
	for p, f := range src.Files {
		if f.Link != "" || strings.HasPrefix(p, "a/shared/") {
			// symbolic links and the files behind them: such a file is not an input by its own path (grog owners answers
			// by path), see the assumptions
			continue
		}
		files = append(files, p)
	}
	sort.Strings(files)
	for _, f := range files {
		b2, err := box.CloneTo(base)
		if err != nil {
			c.R.BrokenCheck("clone: %v", err)
			return
		}
		owners := queryLines(b2.Run(grog, hist.RunOpts{Args: []string{"owners", f}}).Output)
		allowed := setOf(owners)
		for _, o := range owners {
			for _, l := range queryLines(b2.Run(grog, hist.RunOpts{Args: []string{"rdeps", "-t", o}}).Output) {
				allowed[l] = true
			}
		}
		s2 := src.Clone()
		fl := s2.Files[f]
		fl.Content += "+edit"
		s2.Files[f] = fl
		s2.Materialize(b2.WS(), src)
		// the follow-up build is started in every directory of the workspace in turn, each on its own clone
		var executed []string
		for _, cwd := range []string{"", "a", "a/src", "b"} {
			b3, err := b2.CloneTo(base)
			if err != nil {
				c.R.BrokenCheck("clone: %v", err)
				return
			}
			r2 := b3.Run(grog, hist.RunOpts{Args: []string{"build", "//..."}, Cwd: cwd})
			c.R.AddCounts(1, 1, 1, 1)
			ex := r2.Started()
			if cwd == "" {
				executed = ex
			}
			for _, e := range ex {
				if !allowed[e] {
					c.R.Violate(vc.Violation{Sig: "C20:edit-executes-target-outside-owners-and-rdeps", Detail: fmt.Sprintf("after editing %s the build (started in %q) executed %s, but owners(%s)=%v and their transitive rdeps are %v", f, cwd, e, f, owners, sortedKeys(allowed)), Replay: map[string]any{"file": f, "executed": ex, "build_started_in": cwd}})
				}
			}
			b3.Remove()
		}
		c.R.AddCounts(3, 1, 3, 3)
		if len(executed) == 0 && len(owners) > 0 {
			c.R.Violate(vc.Violation{Sig: "C20:edit-of-owned-file-rebuilds-nothing", Detail: fmt.Sprintf("after editing %s (owners %v) the build executed nothing", f, owners), Replay: map[string]any{"file": f}})
		}
		c.R.Nontrivial("edit|" + f)
		c.R.Outcome("edit|" + f + "|" + strings.Join(executed, ","))
		c.R.Sample(map[string]any{"edited_file": f, "owners": owners, "allowed": sortedKeys(allowed), "executed": executed})
		b2.Remove()
	}
}

// braceExpand expands one {a,b} group of a pattern.
func braceExpand(p string) []string {
	i, j := strings.Index(p, "{"), strings.Index(p, "}")
	if i < 0 || j < i {
		return []string{p}
	}
	var out []string
	for _, alt := range strings.Split(p[i+1:j], ",") {
		out = append(out, p[:i]+alt+p[j+1:])
	}
	return out
}

// c20NestedPackage: a package nested below another package whose target's glob reaches into the nested package's
// directory. `grog owners` of a file there names the nested package's target AND the outer one, and after editing the
// file everything the build executes is among the owners and their transitive rdeps as printed by the binary.
func c20NestedPackage(c *Ctx, grog, base string) {
	src := &hist.Source{Files: map[string]hist.File{"lib/top.txt": {Content: "top"}, "lib/plugin/data.txt": {Content: "d1"}, "lib/plain/more.txt": {Content: "m"}, "app/app.in": {Content: "a"}}}
	src.Targets = append(src.Targets,
		hist.Target{Pkg: "lib", Name: "bundle", Inputs: []string{"**/*.txt"}, Command: traceStart},
		hist.Target{Pkg: "lib/plugin", Name: "plugin", Inputs: []string{"data.txt"}, Command: traceStart},
		hist.Target{Pkg: "app", Name: "app", Inputs: []string{"app.in"}, Deps: []string{"//lib:bundle"}, Command: traceStart},
		hist.Target{Pkg: "app", Name: "site", Deps: []string{"//lib/plugin:plugin"}, Command: traceStart})
	box, err := hist.NewBox(base)
	if err != nil {
		c.R.BrokenCheck("%v", err)
		return
	}
	defer box.Remove()
	src.Materialize(box.WS(), nil)
	want := map[string][]string{
		"lib/plugin/data.txt": {"//lib/plugin:plugin", "//lib:bundle"},
		"lib/plain/more.txt":  {"//lib:bundle"},
		"lib/top.txt":         {"//lib:bundle"},
		"app/app.in":          {"//app:app"},
	}
	for _, f := range vc.SortedKeys(want) {
		r := box.Run(grog, hist.RunOpts{Args: []string{"owners", f}})
		got := queryLines(r.Output)
		sort.Strings(got)
		if r.Exit != 0 || strings.Join(got, " ") != strings.Join(want[f], " ") {
			c.R.Violate(vc.Violation{Sig: "C20:owners:nested-package", Detail: fmt.Sprintf("grog owners %s prints %v (exit %d), the targets whose resolved inputs contain it are %v (//lib:bundle declares **/*.txt, //lib/plugin is a package below //lib)", f, got, r.Exit, want[f]), Replay: map[string]any{"file": f, "workspace": "//lib:bundle inputs **/*.txt; //lib/plugin:plugin inputs data.txt; //app:app -> //lib:bundle; //app:site -> //lib/plugin:plugin"}})
		}
		c.R.AddCounts(1, 1, 1, 1)
		c.R.Nontrivial("nested-owners|" + f)
	}
	if r := box.Run(grog, hist.RunOpts{Args: []string{"build", "//..."}}); r.Exit != 0 {
		c.R.BrokenCheck("nested package workspace: build failed: %s", tail(r.Output, 300))
		return
	}
	s2 := src.Clone()
	s2.Files["lib/plugin/data.txt"] = hist.File{Content: "d2"}
	s2.Materialize(box.WS(), src)
	f := "lib/plugin/data.txt"
	owners := queryLines(box.Run(grog, hist.RunOpts{Args: []string{"owners", f}}).Output)
	allowed := setOf(owners)
	for _, o := range owners {
		for _, l := range queryLines(box.Run(grog, hist.RunOpts{Args: []string{"rdeps", "-t", o}}).Output) {
			allowed[l] = true
		}
	}
	r2 := box.Run(grog, hist.RunOpts{Args: []string{"build", "//..."}})
	for _, e := range r2.Started() {
		if !allowed[e] {
			c.R.Violate(vc.Violation{Sig: "C20:edit-executes-target-outside-owners-and-rdeps", Detail: fmt.Sprintf("nested package: after editing %s the build executed %s, but owners(%s)=%v and their transitive rdeps are %v", f, e, f, owners, sortedKeys(allowed)), Replay: map[string]any{"file": f, "executed": r2.Started()}})
		}
	}
	c.R.AddCounts(1, 1, 2, 1)
	c.R.Outcome(fmt.Sprintf("nested-edit|%v", r2.Started()))
	c.R.Nontrivial("nested-edit")
}
