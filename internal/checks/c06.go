package checks

func init() {
	Registry["C06"] = func(c *Ctx) {
		c.R.Rule = "directory outputs: every tree (multiset of entries per directory) with <=3 entries per directory, nesting depth <=2 and <=5 entries in total (thorough: <=4 per directory, depth <=3, <=6 in total) over the entry kinds regular file {content \"\", \"x\", \"xx\"} x {exec bit off, on}, empty directory, non-empty sub-directory, symlink {relative to a sibling, dangling, absolute}; entry names come from {\"a\",\"b\",\" sp\",\"ü\",\"-n\"} by a rotation on the tree index (every name x kind combination occurs; names are not a separate dimension); duplicate file contents and identical sibling sub-directories are part of the space. single file outputs and bin_output: content {\"\", \"x\", 70001 bytes} x exec bit x path {top level, nested, nested with unusual names}; plus 4 targets with several outputs. Each case is cached through the real Registry.WriteOutputs (real handlers, fs-backed CAS) and then restored with Registry.LoadOutputs (fresh target object) from EVERY prior destination state derivable from the case: identical, absent, parent directory missing, a file where the directory should be / a directory (empty, non-empty) where the file should be, stale extra file in each directory, stale extra directory / symlink, and for each entry: content modified (same length), grown, truncated, exec bit flipped, content modified and exec bit flipped, symlink retargeted, empty sub-directory removed, entry removed, entry replaced by another kind. One evaluation = one (case, prior state) pair. A pair is non-trivial when the recursive listing of the package directory in the prior state differs from the listing at cache time (i.e. everything except 'identical'). Declared-vs-stored mismatches (11 declarations x 4 prior states) must be rejected without touching the workspace; all of them are non-trivial. Executable files come in modes 0755, 0744 and 0700."
		c.R.Assume(
			"oracle = recursive listing of the whole package directory (entry type, any-exec-bit for regular files, size + sha256 of content, symlink target, empty directories) after LoadOutputs equals the listing taken right after WriteOutputs, and LoadOutputs returns nil; permission bits other than 'executable by someone' and directory modes are not compared",
			"bin_output: the execution path chmods the binary 0755 before caching (execution.markBinOutputExecutable); the harness does the same before WriteOutputs",
			"a Load that does not return within 60 s is classified as a hang (never used to judge speed)",
			"prior states that put a symlink at the output path itself, or make directories unreadable, are outside the statement's list and are not exercised",
		)
		simpleHarness(c, "c06", "c06", nil, nil, 16)
	}
}
