package checks

import (
	"fmt"
	"os"
	"path/filepath"
	"sort"
	"strings"
	"sync"
	"sync/atomic"

	"verif/internal/hist"
	"verif/internal/vc"
)

// restoreSource: a workspace whose outputs exercise every shape of a restore:
// a flat directory (several files, no sub-directory), a nested directory, a
// plain file and a dependant that reads them.
func restoreSource() *hist.Source {
	s := &hist.Source{Files: map[string]hist.File{"p/in.txt": {Content: "in"}}}
	s.Targets = append(s.Targets, hist.Target{Pkg: "p", Name: "flat", Inputs: []string{"in.txt"}, Outputs: []string{"dir::flat"}, Command: traceStart + `
rm -rf flat && mkdir -p flat
printf 'one' > flat/one.txt
printf 'two' > flat/two.txt
printf 'three' > flat/three.txt`})
	s.Targets = append(s.Targets, hist.Target{Pkg: "p", Name: "nested", Inputs: []string{"in.txt"}, Outputs: []string{"dir::nested", "plain.txt"}, Command: traceStart + `
rm -rf nested && mkdir -p nested/a/b
printf 'top' > nested/top.txt
printf 'mid' > nested/a/mid.txt
printf 'deep' > nested/a/b/deep.txt
mkdir -p nested/twin1 nested/twin2
printf 'same' > nested/twin1/data.txt
printf 'same' > nested/twin2/data.txt
printf 'plain' > plain.txt`})
	s.Files["p/user.in"] = hist.File{Content: "u1"}
	s.Targets = append(s.Targets, hist.Target{Pkg: "p", Name: "user", Deps: []string{":flat", ":nested"}, Inputs: []string{"user.in"}, Outputs: []string{"user.txt"}, Command: traceStart + `
cat user.in flat/one.txt flat/two.txt flat/three.txt nested/top.txt nested/a/mid.txt nested/a/b/deep.txt nested/twin1/data.txt nested/twin2/data.txt plain.txt > user.txt`})
	return s
}

// c04MissingBlobs: every non-empty subset of the cache's blobs (and target
// results) is made unreadable (removed) before a build that has to restore all
// outputs: the build must terminate, succeed by re-executing what was lost and
// produce the right outputs.
func c04MissingBlobs(c *Ctx) { missingBlobs(c, "C04", false) }

// missingBlobs: prop/minimal select the variant. In the minimal variant the
// dependant's input is edited as well, so that it has to execute and its
// (cached) dependencies' outputs have to be loaded for it.
func missingBlobs(c *Ctx, prop string, minimal bool) {
	grog, err := vc.BuildGrog("grog", nil)
	if err != nil {
		c.R.BrokenCheck("%v", err)
		return
	}
	base, cleanup := scratchBase(c, strings.ToLower(prop)+"b")
	var modeArgs []string
	if minimal {
		modeArgs = []string{"--load-outputs=minimal"}
	}
	defer cleanup()
	src := restoreSource()
	pre, err := hist.NewBox(base)
	if err != nil {
		c.R.BrokenCheck("%v", err)
		return
	}
	defer pre.Remove()
	src.Materialize(pre.WS(), nil)
	if rr := pre.Run(grog, hist.RunOpts{Args: []string{"build", "//..."}}); rr.Exit != 0 {
		c.R.BrokenCheck("preparation build failed: %s", tail(rr.Output, 300))
		return
	}
	if minimal {
		// the dependant has to run again and needs its dependencies' outputs
		src2 := src.Clone()
		src2.Files["p/user.in"] = hist.File{Content: "u2"}
		src2.Materialize(pre.WS(), src)
		src = src2
	}
	want := map[string]map[string]hist.Entry{}
	{
		cl, _ := hist.NewBox(base)
		src.Materialize(cl.WS(), nil)
		if rr := cl.Run(grog, hist.RunOpts{Args: []string{"build", "//..."}}); rr.Exit != 0 {
			c.R.BrokenCheck("clean build failed: %s", tail(rr.Output, 300))
			return
		}
		for _, t := range src.Targets {
			want[t.Label()] = outputsListing(cl.WS(), t)
		}
		cl.Remove()
	}
	for _, p := range []string{"p/flat", "p/nested", "p/plain.txt", "p/user.txt"} {
		os.RemoveAll(filepath.Join(pre.WS(), p))
	}
	var entries []string
	for _, n := range pre.CacheNames() {
		if strings.HasPrefix(n, "cas/") || strings.HasPrefix(n, "target/") {
			entries = append(entries, n)
		}
	}
	sort.Strings(entries)
	n := len(entries)
	c.R.Set("cache_entries_subject_to_removal", n)
	if n > 16 {
		c.R.BrokenCheck("unexpected number of cache entries (%d)", n)
		return
	}
	maxMask := 1 << n
	// file blobs of one directory output: every subset of them is run in the quick tier too
	// (a restore in which every file of the directory fails at once)
	groupMask := map[string]int{}
	contents := map[string]string{"one": "flat", "two": "flat", "three": "flat", "top": "nested", "mid": "nested", "deep": "nested", "same": "nested"}
	for i, e := range entries {
		if b, err := os.ReadFile(filepath.Join(pre.CacheDir(), e)); err == nil && len(b) < 16 {
			if g, ok := contents[string(b)]; ok {
				groupMask[g] |= 1 << i
			}
		}
	}
	c.R.Set("file_blobs_per_directory_output", map[string]int{"flat": popcount(groupMask["flat"]), "nested": popcount(groupMask["nested"])})
	withinOneGroup := func(mask int) bool {
		for _, g := range groupMask {
			if mask&^g == 0 {
				return true
			}
		}
		return false
	}
	var wg sync.WaitGroup
	var hangs int32
	sem := make(chan struct{}, 40)
	for mask := 1; mask < maxMask; mask++ {
		if !c.Thorough && popcount(mask) > 3 && popcount(mask) < n-1 && !withinOneGroup(mask) {
			continue // quick: all subsets of size <= 3, the (almost) full set, every subset of one directory output's file blobs
		}
		if atomic.LoadInt32(&hangs) >= 2 {
			c.R.Cap("two builds hung: the remaining cache-entry subsets were not run")
			break
		}
		wg.Add(1)
		sem <- struct{}{}
		go func(mask int) {
			defer wg.Done()
			defer func() { <-sem }()
			if atomic.LoadInt32(&hangs) >= 2 {
				return
			}
			box, err := pre.CloneTo(base)
			if err != nil {
				c.R.BrokenCheck("clone: %v", err)
				return
			}
			defer box.Remove()
			var removed []string
			for i, e := range entries {
				if mask&(1<<i) != 0 {
					os.Remove(filepath.Join(box.CacheDir(), e))
					removed = append(removed, e[:strings.Index(e, "/")+9])
				}
			}
			rr := box.Run(grog, hist.RunOpts{Args: append([]string{"build", "//..."}, modeArgs...), Ceiling: 45e9})
			replay := map[string]any{"removed_cache_entries": removed, "exit": rr.Exit, "grog_output_tail": tail(rr.Output, 800)}
			kinds := map[string]bool{}
			for _, r := range removed {
				kinds[r[:strings.Index(r, "/")]] = true
			}
			cls := strings.Join(sortedKeys(kinds), "+")
			vio := func(sig, format string, a ...any) {
				if prop != "C04" {
					sig = prop + ":minimal-mode:" + strings.TrimPrefix(sig, "C04:")
				}
				c.R.Violate(vc.Violation{Sig: sig, Detail: fmt.Sprintf("cache entries %v missing before a build (%v) that needs all outputs: ", removed, modeArgs) + fmt.Sprintf(format, a...), Replay: replay})
			}
			if rr.TimedOut {
				atomic.AddInt32(&hangs, 1)
				vio("C04:build-hangs-when-cache-entries-are-missing:"+cls, "grog build did not exit within 45 s (%d entries missing)", len(removed))
			} else if rr.Exit != 0 {
				vio("C04:build-fails-when-cache-entries-are-missing:"+cls, "grog exited %d instead of re-executing what was lost: %s", rr.Exit, tail(rr.Output, 400))
			} else {
				executedSet := setOf(rr.Started())
				for _, t := range src.Targets {
					if minimal && !executedSet[t.Label()] {
						continue // minimal mode does not promise to materialise restored outputs
					}
					if d := hist.DiffListing(outputsListing(box.WS(), t), want[t.Label()]); d != "" {
						vio("C04:wrong-output-when-cache-entries-are-missing:"+cls, "%s differs: %s", t.Label(), d)
					}
				}
			}
			c.R.AddCounts(1, 1, 1, 1)
			c.R.Outcome(fmt.Sprintf("missing=%d exit=%d reexec=%s", len(removed), rr.Exit, strings.Join(rr.Started(), ",")))
			c.R.Nontrivial(fmt.Sprint("missing|", mask))
			if mask == 7 {
				c.R.Sample(map[string]any{"removed_cache_entries": removed, "exit": rr.Exit, "re_executed": rr.Started()})
			}
		}(mask)
	}
	wg.Wait()
}

func popcount(x int) int {
	n := 0
	for x != 0 {
		n += x & 1
		x >>= 1
	}
	return n
}

// c04SharedDependencyOrders: `grog build //r:app` where app's dependency list names a target that was already reached
// through an earlier entry before one that is reachable in no other way, in every order of the list: the build
// returns (every dependency got selected, so nothing waits for a node that never runs) and executes all four targets.
func c04SharedDependencyOrders(c *Ctx) {
	grog, err := vc.BuildGrog("grog", nil)
	if err != nil {
		c.R.BrokenCheck("%v", err)
		return
	}
	base, cleanup := scratchBase(c, "c04sel")
	defer cleanup()
	orders := [][]string{{":lib", ":base", ":gen"}, {":base", ":lib", ":gen"}, {":gen", ":lib", ":base"}, {":lib", ":gen", ":base"}, {":base", ":gen", ":lib"}, {":gen", ":base", ":lib"}}
	for _, deps := range orders {
		src := &hist.Source{Files: map[string]hist.File{}}
		mk := func(name string, d []string) hist.Target {
			return hist.Target{Pkg: "r", Name: name, Deps: d, Outputs: []string{name + ".out"}, Command: traceStart + "\nprintf " + name + " > " + name + ".out"}
		}
		src.Targets = append(src.Targets, mk("base", nil), mk("lib", []string{":base"}), mk("gen", nil), mk("app", deps))
		box, err := hist.NewBox(base)
		if err != nil {
			c.R.BrokenCheck("%v", err)
			return
		}
		src.Materialize(box.WS(), nil)
		rr := box.Run(grog, hist.RunOpts{Args: []string{"build", "//r:app"}, Ceiling: 45e9})
		replay := map[string]any{"dependencies_of_app": deps, "lib_depends_on": ":base", "exit": rr.Exit, "executed": rr.Started(), "grog_output_tail": tail(rr.Output, 500)}
		switch {
		case rr.TimedOut:
			c.R.Violate(vc.Violation{Sig: "C04:build-hangs:dependency-reached-twice-before-one-reached-once", Detail: fmt.Sprintf("`grog build //r:app` with app.dependencies=%v (lib depends on base) did not return within 45 s: %s", deps, tail(rr.Output, 300)), Replay: replay})
		case rr.Exit != 0:
			c.R.Violate(vc.Violation{Sig: "C04:build-fails:dependency-reached-twice-before-one-reached-once", Detail: fmt.Sprintf("app.dependencies=%v: grog exited %d: %s", deps, rr.Exit, tail(rr.Output, 300)), Replay: replay})
		case len(rr.Started()) != 4:
			c.R.Violate(vc.Violation{Sig: "C04:selected-target-unresolved:dependency-not-built", Detail: fmt.Sprintf("app.dependencies=%v: executed %v instead of all four targets", deps, rr.Started()), Replay: replay})
		}
		c.R.AddCounts(1, 1, 1, 1)
		c.R.Outcome(fmt.Sprintf("shared-dep|%v", rr.Started()))
		c.R.Nontrivial(fmt.Sprintf("shared-dep|%v", deps))
		box.Remove()
	}
}

// c04ManyTargets: "every build ends" for builds that are LARGE rather than intricate: 40 / 70 / 130 / 260 trivial
// targets (wide: all independent; deep: one chain; and a wide one whose last target fails), num_workers 1 / default,
// plain console as every run of the real binary here (no terminal). The build must end within the ceiling with the
// exit status of its targets and every command must have run once. Internal queues and message channels with fixed
// capacities (the worker pool's job queue, the task UI's message channel) are crossed by these sizes.
func c04ManyTargets(c *Ctx) {
	grog, err := vc.BuildGrog("grog", nil)
	if err != nil {
		c.R.BrokenCheck("%v", err)
		return
	}
	base, cleanup := scratchBase(c, "c04many")
	defer cleanup()
	type scen struct {
		n       int
		shape   string
		workers int
	}
	var scs []scen
	sizes := []int{40, 70, 130}
	if c.Thorough {
		sizes = append(sizes, 260, 520)
	}
	for _, n := range sizes {
		for _, shape := range []string{"wide", "deep", "wide-last-fails"} {
			for _, w := range []int{1, 0} {
				scs = append(scs, scen{n, shape, w})
			}
		}
	}
	var wg sync.WaitGroup
	sem := make(chan struct{}, 6)
	for _, sc := range scs {
		wg.Add(1)
		sem <- struct{}{}
		go func(sc scen) {
			defer wg.Done()
			defer func() { <-sem }()
			name := fmt.Sprintf("%d targets, %s, num_workers=%d (0 = default)", sc.n, sc.shape, sc.workers)
			src := &hist.Source{Files: map[string]hist.File{"p/in.txt": {Content: "in"}}}
			if sc.workers > 0 {
				src.Toml = fmt.Sprintf("num_workers = %d\n", sc.workers)
			}
			for i := 0; i < sc.n; i++ {
				t := hist.Target{Pkg: "p", Name: fmt.Sprintf("t%03d", i), Inputs: []string{"in.txt"}, Command: traceStart}
				if sc.shape == "deep" && i > 0 {
					t.Deps = []string{fmt.Sprintf(":t%03d", i-1)}
				}
				if sc.shape == "wide-last-fails" && i == sc.n-1 {
					t.Command = traceStart + "\nexit 3"
				}
				src.Targets = append(src.Targets, t)
			}
			box, err := hist.NewBox(base)
			if err != nil {
				c.R.BrokenCheck("%v", err)
				return
			}
			defer box.Remove()
			src.Materialize(box.WS(), nil)
			rr := box.Run(grog, hist.RunOpts{Args: []string{"build", "//..."}, Ceiling: 120e9})
			replay := map[string]any{"scenario": name, "exit": rr.Exit, "timed_out": rr.TimedOut, "commands_started": len(rr.Started()), "grog_output_tail": tail(rr.Output, 500)}
			wantExit := 0
			if sc.shape == "wide-last-fails" {
				wantExit = 1
			}
			switch {
			case rr.TimedOut:
				c.R.Violate(vc.Violation{Sig: "C04:build-hangs:many-targets", Detail: fmt.Sprintf("%s: grog build //... did not end within 120 s; %d commands had started", name, len(rr.Started())), Replay: replay})
			case (rr.Exit != 0) != (wantExit != 0):
				c.R.Violate(vc.Violation{Sig: "C04:wrong-exit-status:many-targets", Detail: fmt.Sprintf("%s: grog exited %d: %s", name, rr.Exit, tail(rr.Output, 300)), Replay: replay})
			case len(rr.Started()) != sc.n:
				c.R.Violate(vc.Violation{Sig: "C04:not-every-target-executed:many-targets", Detail: fmt.Sprintf("%s: %d of %d commands ran (exit %d)", name, len(rr.Started()), sc.n, rr.Exit), Replay: replay})
			}
			c.R.AddCounts(1, 1, 1, 1)
			c.R.Outcome(fmt.Sprintf("many|%s|exit=%d", sc.shape, rr.Exit))
			c.R.Nontrivial("many|" + name)
		}(sc)
	}
	wg.Wait()
}
