package checks

import (
	"bytes"
	"encoding/json"
	"fmt"
	"os"
	"os/exec"
	"path/filepath"
	"sort"
	"strings"
	"sync"

	"verif/internal/hist"
	"verif/internal/instr"
	"verif/internal/vc"
)

// crashFiles are the repo files that get a numbered crash/signal point before
// every file-system call.
var crashFiles = []string{
	"internal/caching/backends/fs.go",
	"internal/output/handlers/file_output_handler.go",
	"internal/output/handlers/dir_output_handler.go",
	"internal/execution/execute.go",
	"internal/execution/execute_target.go",
	"internal/locking/workspace_locker.go",
	"internal/loading/load.go",
	"internal/cmd/cmds/build.go",
}

// backendDecorated reports whether the fault-injecting backend decorator / fake remote could be attached.
var backendDecorated = true

// faultBinary builds grog with crash points and the fault-injecting backend decorator.
func faultBinary(c *Ctx) (string, int) {
	ov := vc.NewOverlay()
	if err := ov.AddHarness("vfault"); err != nil {
		c.R.BrokenCheck("%v", err)
		return "", 0
	}
	points := 0
	for _, f := range crashFiles {
		src, err := os.ReadFile(vc.SourceFor(f))
		if err != nil {
			c.R.BrokenCheck("%v", err)
			return "", 0
		}
		out, n, err := instr.InsertCrashPoints(filepath.Join(vc.RepoDir, f), src)
		if err != nil {
			c.R.BrokenCheck("%v", err)
			return "", 0
		}
		points += n
		if n > 0 {
			if err := ov.AddContent("fault", f, out); err != nil {
				c.R.BrokenCheck("%v", err)
				return "", 0
			}
		}
	}
	cb, err := os.ReadFile(vc.SourceFor("internal/caching/backends/cache_backend.go"))
	if err != nil {
		c.R.BrokenCheck("%v", err)
		return "", 0
	}
	if !bytes.Contains(cb, []byte("func GetCacheBackend(")) {
		// refactored away: crash points still work, backend faults and the fake remote cannot be attached
		c.R.Cap("cache_backend.go no longer defines GetCacheBackend: the fault-injecting backend decorator is not attached (no storage faults, no fake remote)")
		backendDecorated = false
	} else {
		cb = bytes.Replace(cb, []byte("func GetCacheBackend("), []byte("func verifOrigGetCacheBackend("), 1)
		ov.AddContent("fault", "internal/caching/backends/cache_backend.go", cb)
		ov.AddFile("internal/caching/backends/zverif_faulty_backend.go", filepath.Join(vc.HarnessDir, "_faulty", "zverif_faulty_backend.go"))
	}
	bin, err := vc.BuildGrog("grog-fault", ov)
	if err != nil {
		c.R.BrokenCheck("%v", err)
		return "", 0
	}
	return bin, points
}

func auditBinary(c *Ctx) string {
	ov := vc.NewOverlay()
	for _, p := range []string{"vrep", "cacheaudit"} {
		if err := ov.AddHarness(p); err != nil {
			c.R.BrokenCheck("%v", err)
			return ""
		}
	}
	bin, err := vc.BuildHarnessTest("cacheaudit", ov, "cacheaudit", false)
	if err != nil {
		c.R.BrokenCheck("%v", err)
		return ""
	}
	return bin
}

type auditProblem struct {
	Kind   string `json:"kind"`
	Detail string `json:"detail"`
}

// auditCache runs the offline audit on one cache directory.
func auditCache(bin, dir, algo string) ([]auditProblem, int, int, error) {
	cmd := exec.Command(bin, "-test.run", "^TestVerif$", "-test.count", "1")
	cmd.Env = append(os.Environ(), "VERIF_AUDIT_DIRS="+dir+"|"+algo)
	out, err := cmd.Output()
	if err != nil {
		return nil, 0, 0, fmt.Errorf("audit failed: %v", err)
	}
	for _, l := range strings.Split(string(out), "\n") {
		if strings.HasPrefix(l, "@@V ") && strings.Contains(l, `"audit:`) {
			var m struct {
				V struct {
					Problems []auditProblem `json:"problems"`
					Blobs    int            `json:"blobs"`
					Results  int            `json:"results"`
				} `json:"v"`
			}
			if err := json.Unmarshal([]byte(l[4:]), &m); err != nil {
				return nil, 0, 0, err
			}
			return m.V.Problems, m.V.Blobs, m.V.Results, nil
		}
	}
	return nil, 0, 0, fmt.Errorf("audit produced no result")
}

func siteClass(site string) string {
	// "fs.go:83:os.Rename" -> "fs.go:os.Rename"
	parts := strings.Split(site, ":")
	if len(parts) == 3 {
		return parts[0] + ":" + parts[2]
	}
	return site
}

type faultHistory struct {
	name string
	prep func(box *hist.Box, grog string) (wsState, error) // brings a fresh box to the pre-state, returns the source state to build
}

func deleteOutputs(ws string) {
	for _, p := range []string{"a/out", "a/extra.txt", "b/dist", "b/gen.txt", "b/tool.sh"} {
		os.RemoveAll(filepath.Join(ws, p))
	}
}

func c07Histories() []faultHistory {
	build := func(box *hist.Box, grog string, w wsState) error {
		w.source().Materialize(box.WS(), nil)
		rr := box.Run(grog, hist.RunOpts{Args: []string{"build", "//..."}})
		if rr.Exit != 0 {
			return fmt.Errorf("preparation build failed: %s", tail(rr.Output, 300))
		}
		return nil
	}
	return []faultHistory{
		{"cold-build", func(box *hist.Box, grog string) (wsState, error) {
			w := wsState{}
			return w, w.source().Materialize(box.WS(), nil)
		}},
		{"warm-rebuild-after-input-edit", func(box *hist.Box, grog string) (wsState, error) {
			w := wsState{}
			if err := build(box, grog, w); err != nil {
				return w, err
			}
			w2 := w
			w2.T[tgAppend] = true
			w2.T[tgToolIn] = true
			return w2, w2.source().Materialize(box.WS(), w.source())
		}},
		{"restore-after-deleting-outputs", func(box *hist.Box, grog string) (wsState, error) {
			w := wsState{}
			if err := build(box, grog, w); err != nil {
				return w, err
			}
			deleteOutputs(box.WS())
			return w, nil
		}},
		{"re-execution-over-existing-entries", func(box *hist.Box, grog string) (wsState, error) {
			w := wsState{}
			if err := build(box, grog, w); err != nil {
				return w, err
			}
			rr := box.Run(grog, hist.RunOpts{Args: []string{"taint", "//..."}})
			if rr.Exit != 0 {
				return w, fmt.Errorf("taint failed: %s", tail(rr.Output, 200))
			}
			return w, nil
		}},
	}
}

func readLines(p string) []string {
	b, _ := os.ReadFile(p)
	var out []string
	for _, l := range strings.Split(string(b), "\n") {
		if l != "" {
			out = append(out, l)
		}
	}
	return out
}

type faultCase struct {
	kind string // crash | backend
	spec string // site#n  or  op#n:mode
	cls  string
}

func init() {
	Registry["C07"] = func(c *Ctx) {
		c.R.Level = "model_checking"
		c.R.Rule = "for each of 4 short histories on the model workspace (cold build; warm rebuild after an input edit; restore after deleting all outputs; re-execution over existing cache entries) a fault-free run of an instrumented grog binary logs every instance of every file-system call site of the cache backend, output handlers, executor, locker and loader, and every cache-backend operation; then for EVERY logged crash-point instance the process is killed (SIGKILL) exactly there, and for EVERY backend operation instance a storage fault is injected (error before the operation; for Set: content consumed, nothing stored, error; for Get: reader failing after the first byte; Get/Exists reporting absent); after each faulted run the cache directory is audited offline (every cas blob hashes to its name, every target result decodes, carries its key and references only present blobs, recursively through directory trees), then a fault-free follow-up build must exit 0 with outputs identical to a from-scratch build, and a second one must execute nothing. Layered cache (local file-system layer + directory-backed remote behind the real RemoteWrapper): the LOCAL layer fails while the remote is healthy - cas / target is a regular file, or a non-empty directory sits at the final path of one entry, for every entry a cold build stores; afterwards the remote passes the audit, a second machine builds correctly from it, and once the obstruction is removed the next build on the first machine exits 0 with from-scratch outputs and the remote passes the audit. The remote layer fails once (every remote operation instance x {error, mid-stream failure, reported absent}) while machine A rebuilds targets whose blobs exist in its local layer only: the remote passes the audit whatever the exit status, and after exit 0 a second machine builds correctly. Component level: 2 and 3 concurrent writers of the SAME digest (targets with identical output bytes) go through the real Cas and TargetResultCache over a backend whose Set is split into started/committed by scheduling points and may fail, under every schedule with <= 3 (quick) / 4 (thorough) deviations: a write is acknowledged only when the blob is stored, no target result is visible without its blob. Interrupts: SIGINT/SIGTERM delivered at every logged call-site instance (quick: <= 3 per site) of a build with a directory output; the cache left behind must pass the same audit. Non-trivial = a fault instance after which the cache directory differs from both the pre-state and the fault-free post-state, or the faulted run failed."
		c.R.Assume("a crash is SIGKILL of the grog process: the surviving state is the prefix of completed system calls (power-loss reordering of unsynced blocks is outside the stated property; grog never calls fsync)", "crash points are the statements that perform os.* / io.Copy / Chmod calls in "+strings.Join(crashFiles, ", "), "the relative progress of other goroutines at the crash instant is whatever the runtime produced in that run (the schedule dimension is explored at component level by the bubblesched checks)")
		grog, err := vc.BuildGrog("grog", nil)
		if err != nil {
			c.R.BrokenCheck("%v", err)
			return
		}
		fbin, points := faultBinary(c)
		abin := auditBinary(c)
		if fbin == "" || abin == "" {
			return
		}
		c.R.Set("crash_point_sites_inserted", points)
		base, cleanup := scratchBase(c, "c07")
		defer cleanup()
		hs := c07Histories()
		if !c.Thorough {
			// quick: every history, but crash instances are thinned to the first 2 occurrences per site class
		}
		clean := map[string]map[string]map[string]hist.Entry{}
		var cleanMu sync.Mutex
		cleanFor := func(w wsState) map[string]map[string]hist.Entry {
			cleanMu.Lock()
			defer cleanMu.Unlock()
			if r, ok := clean[w.key()]; ok {
				return r
			}
			box, _ := hist.NewBox(base)
			defer box.Remove()
			src := w.source()
			src.Materialize(box.WS(), nil)
			rr := box.Run(grog, hist.RunOpts{Args: []string{"build", "//..."}})
			if rr.Exit != 0 {
				c.R.BrokenCheck("clean build failed: %s", tail(rr.Output, 300))
			}
			res := map[string]map[string]hist.Entry{}
			for _, t := range src.Targets {
				res[t.Label()] = outputsListing(box.WS(), t)
			}
			clean[w.key()] = res
			return res
		}
		for _, h := range hs {
			pre, err := hist.NewBox(base)
			if err != nil {
				c.R.BrokenCheck("%v", err)
				return
			}
			w, err := h.prep(pre, grog)
			if err != nil {
				c.R.BrokenCheck("history %s: %v", h.name, err)
				return
			}
			want := cleanFor(w)
			preCache := strings.Join(pre.CacheNames(), ";")
			// fault-free logging run
			logBox, _ := pre.CloneTo(base)
			flog, blog := filepath.Join(logBox.Dir, "faultlog"), filepath.Join(logBox.Dir, "backendlog")
			rr := logBox.Run(fbin, hist.RunOpts{Args: []string{"build", "//..."}, Env: map[string]string{"VERIF_FAULT_LOG": flog, "VERIF_BACKEND_LOG": blog}})
			if rr.Exit != 0 {
				c.R.BrokenCheck("history %s: fault-free run of the instrumented binary failed: %s", h.name, tail(rr.Output, 300))
				return
			}
			postCache := strings.Join(logBox.CacheNames(), ";")
			var cases []faultCase
			cnt := map[string]int{}
			perClass := map[string]int{}
			for _, s := range readLines(flog) {
				cnt[s]++
				cls := siteClass(s)
				perClass[cls]++
				if !c.Thorough && perClass[cls] > 6 {
					continue
				}
				cases = append(cases, faultCase{"crash", fmt.Sprintf("%s#%d", s, cnt[s]), "crash-at:" + cls})
			}
			totalCrash := len(readLines(flog))
			bcnt := map[string]int{}
			bPer := map[string]int{}
			for _, l := range readLines(blog) {
				f := strings.Fields(l)
				op, path := f[0], f[1]
				bcnt[op]++
				modes := map[string][]string{"get": {"err", "late", "miss"}, "set": {"err", "late"}, "exists": {"err", "miss"}, "delete": {"err"}}[op]
				for _, m := range modes {
					cls := "backend-fault:" + op + "-" + path + ":" + m
					bPer[cls]++
					if !c.Thorough && bPer[cls] > 4 {
						continue
					}
					cases = append(cases, faultCase{"backend", fmt.Sprintf("%s#%d:%s", op, bcnt[op], m), cls})
				}
			}
			totalBackend := len(readLines(blog))
			logBox.Remove()
			vc.Logf("history %s: %d crash-point instances, %d backend operations, %d fault cases selected", h.name, totalCrash, totalBackend, len(cases))
			c.R.Set("instances:"+h.name, map[string]int{"crash_point_instances": totalCrash, "backend_operations": totalBackend, "fault_cases_run": len(cases)})
			selCrash := 0
			for _, fc := range cases {
				if fc.kind == "crash" {
					selCrash++
				}
			}
			if selCrash < totalCrash {
				c.R.Cap("history %s: quick tier runs at most 6 instances per call site and 4 per backend operation class (%d of %d crash instances); thorough runs all", h.name, selCrash, totalCrash)
			}
			var wg sync.WaitGroup
			sem := make(chan struct{}, 40)
			for _, fc := range cases {
				wg.Add(1)
				sem <- struct{}{}
				go func(fc faultCase) {
					defer wg.Done()
					defer func() { <-sem }()
					box, err := pre.CloneTo(base)
					if err != nil {
						c.R.BrokenCheck("clone: %v", err)
						return
					}
					defer box.Remove()
					env := map[string]string{}
					if fc.kind == "crash" {
						env["VERIF_CRASH"] = fc.spec
					} else {
						env["VERIF_BACKEND_FAULT"] = fc.spec
					}
					r1 := box.Run(fbin, hist.RunOpts{Args: []string{"build", "//..."}, Env: env})
					replay := map[string]any{"history": h.name, "fault": fc.kind + " " + fc.spec, "faulted_run_exit": r1.Exit, "faulted_run_output_tail": tail(r1.Output, 800)}
					vio := func(sig, format string, a ...any) {
						c.R.Violate(vc.Violation{Sig: sig, Detail: fmt.Sprintf("history %s, %s %s: ", h.name, fc.kind, fc.spec) + fmt.Sprintf(format, a...), Replay: replay})
					}
					if r1.TimedOut {
						vio("C07:faulted-build-hangs:"+fc.cls, "the faulted build did not exit within the 120 s ceiling")
						return
					}
					if fc.kind == "crash" && r1.Exit == 0 && !strings.Contains(fc.spec, "build.go") {
						// the point was not reached in this run (goroutine timing): not a verdict
						c.R.AddInt("crash_points_not_reached_in_rerun", 1)
					}
					problems, _, _, err := auditCache(abin, box.CacheDir(), "")
					if err != nil {
						c.R.BrokenCheck("%v", err)
						return
					}
					for _, p := range problems {
						vio("C07:cache-audit:"+p.Kind+":after-"+fc.cls, "%s", p.Detail)
					}
					if fc.kind == "backend" && r1.Exit == 0 {
						// a fault that grog tolerated must not have produced wrong outputs
						for _, t := range w.source().Targets {
							if d := hist.DiffListing(outputsListing(box.WS(), t), want[t.Label()]); d != "" {
								vio("C07:wrong-output-after-tolerated-fault:"+fc.cls, "the build exited 0 but %s differs from a from-scratch build: %s", t.Label(), d)
							}
						}
					}
					midCache := strings.Join(box.CacheNames(), ";")
					r2 := box.Run(grog, hist.RunOpts{Args: []string{"build", "//..."}})
					if r2.Exit != 0 {
						vio("C07:follow-up-build-fails:after-"+fc.cls, "the next build on the same cache and workspace exited %d: %s", r2.Exit, tail(r2.Output, 500))
					} else {
						for _, t := range w.source().Targets {
							if d := hist.DiffListing(outputsListing(box.WS(), t), want[t.Label()]); d != "" {
								vio("C07:follow-up-build-wrong-output:after-"+fc.cls, "%s differs from a from-scratch build: %s", t.Label(), d)
							}
						}
						r3 := box.Run(grog, hist.RunOpts{Args: []string{"build", "//..."}})
						if r3.Exit != 0 || len(r3.Started()) > 0 {
							vio("C07:second-follow-up-build-not-a-noop:after-"+fc.cls, "exit %d, executed %v", r3.Exit, r3.Started())
						}
						problems, _, _, _ := auditCache(abin, box.CacheDir(), "")
						for _, p := range problems {
							vio("C07:cache-audit-after-recovery:"+p.Kind+":after-"+fc.cls, "%s", p.Detail)
						}
					}
					c.R.AddCounts(1, 1, 3, 1)
					c.R.Outcome(fmt.Sprintf("%s|%s|exit=%d|reexec=%d", h.name, fc.cls, r1.Exit, len(r2.Started())))
					if (midCache != preCache && midCache != postCache) || r1.Exit != 0 {
						c.R.Nontrivial(h.name + "|" + fc.spec)
					}
					c.R.Sample(map[string]any{"history": h.name, "fault": fc.kind + " " + fc.spec, "faulted_exit": r1.Exit, "follow_up_reexecuted": r2.Started()})
				}(fc)
			}
			wg.Wait()
			pre.Remove()
		}
		// layered cache: the local layer fails while the remote is healthy
		if backendDecorated {
			layeredLocalFaults(c, "C07", fbin, abin, base, cleanFor)
			layeredRemoteFaults(c, "C07", fbin, abin, base, cleanFor)
		} else {
			c.R.Cap("the fake remote cannot be attached (GetCacheBackend was refactored away): the layered-cache part is skipped")
		}
		// component level: concurrent writers of the same digest through the real Cas under every
		// schedule (and backend write failure) with a bounded number of deviations
		casRace(c, "C07")
		// an interrupt is a fault too: SIGINT/SIGTERM at every call-site instance of a build with a
		// directory output; whatever the interrupted build left in the cache must pass the audit
		{
			sub := vc.NewReport("C07", c.Tier)
			signalEnumeration(&Ctx{R: sub, Tier: c.Tier, Thorough: c.Thorough}, false)
			sub.Relabel(func(sig string) string {
				if strings.HasPrefix(sig, "C18:cache-audit:") {
					return "C07:cache-audit-after-interrupt:" + strings.TrimPrefix(sig, "C18:cache-audit:")
				}
				return sig
			})
			c.R.Merge(sub, func(sig string) bool { return strings.HasPrefix(sig, "C07:") })
		}
		// lost cache entries while dependency outputs are loaded for an executing dependant (load_outputs=minimal):
		// "re-executing whatever was lost rather than restoring corrupt data or failing"
		missingBlobs(c, "C07", true)
		// the schedule dimension of a failing restore: Registry.LoadOutputs under the controlled scheduler
		loadQuiescence(c, "C07")
		var hn []string
		for _, h := range hs {
			hn = append(hn, h.name)
		}
		sort.Strings(hn)
		c.R.Set("histories", hn)
	}
}
