package checks

import (
	"fmt"
	"os"
	"path/filepath"
	"strings"

	"verif/internal/hist"
	"verif/internal/vc"
)

// c15RunCommand: `grog run` is a build followed by the execution of the target's binary output; under
// load_outputs=minimal it succeeds or fails exactly as under all. Histories (lock-step, one box per mode):
// run; run again (cached); delete the binary, run; edit the tool's input, run; delete the binary and the tool's
// dependency output, run. Exit status and the line the tool prints must agree.
func c15RunCommand(c *Ctx) {
	grog, err := vc.BuildGrog("grog", nil)
	if err != nil {
		c.R.BrokenCheck("%v", err)
		return
	}
	base, cleanup := scratchBase(c, "c15run")
	defer cleanup()
	mk := func(v string) *hist.Source {
		s := &hist.Source{Files: map[string]hist.File{"b/lib.in": {Content: "lib-" + v}, "b/tool.in": {Content: "tool-" + v}}}
		s.Targets = append(s.Targets,
			hist.Target{Pkg: "b", Name: "lib", Inputs: []string{"lib.in"}, Outputs: []string{"lib.txt"}, Command: traceStart + "\ncat lib.in > lib.txt"},
			hist.Target{Pkg: "b", Name: "tool", Deps: []string{":lib"}, Inputs: []string{"tool.in"}, BinOutput: "tool.sh", Command: traceStart + "\nprintf '#!/bin/sh\\necho \"tool-ran %s %s\"\\n' \"$(cat tool.in)\" \"$(cat lib.txt)\" > tool.sh"})
		return s
	}
	type step struct {
		name string
		do   func(ws string, cur **hist.Source)
	}
	steps := []step{
		{"run", func(string, **hist.Source) {}},
		{"run again", func(string, **hist.Source) {}},
		{"delete the binary; run", func(ws string, _ **hist.Source) { os.Remove(filepath.Join(ws, "b/tool.sh")) }},
		{"edit the tool's input; run", func(ws string, cur **hist.Source) {
			n := mk("1")
			n.Files["b/tool.in"] = hist.File{Content: "tool-2"}
			n.Materialize(ws, *cur)
			*cur = n
		}},
		{"delete the binary and the dependency's output; run", func(ws string, _ **hist.Source) {
			os.Remove(filepath.Join(ws, "b/tool.sh"))
			os.Remove(filepath.Join(ws, "b/lib.txt"))
		}},
	}
	boxes := map[string]*hist.Box{}
	cur := map[string]*hist.Source{}
	for _, mode := range []string{"all", "minimal"} {
		b, err := hist.NewBox(base)
		if err != nil {
			c.R.BrokenCheck("%v", err)
			return
		}
		defer b.Remove()
		boxes[mode] = b
		cur[mode] = mk("1")
		cur[mode].Materialize(b.WS(), nil)
	}
	var history []string
	for _, st := range steps {
		history = append(history, st.name)
		obs := map[string]string{}
		outs := map[string]string{}
		for _, mode := range []string{"all", "minimal"} {
			s := cur[mode]
			st.do(boxes[mode].WS(), &s)
			cur[mode] = s
			rr := boxes[mode].Run(grog, hist.RunOpts{Args: []string{"run", "--load-outputs=" + mode, "//b:tool"}, Ceiling: 60e9})
			line := ""
			for _, l := range strings.Split(rr.Output, "\n") {
				if strings.HasPrefix(l, "tool-ran") {
					line = l
				}
			}
			obs[mode] = fmt.Sprintf("exit=%d output=%q", rr.Exit, line)
			outs[mode] = tail(rr.Output, 400)
		}
		if obs["all"] != obs["minimal"] {
			c.R.Violate(vc.Violation{Sig: "C15:lock-step:grog-run-differs-between-modes", Detail: fmt.Sprintf("history %v: `grog run //b:tool` gives %s under load_outputs=all and %s under minimal: %s", history, obs["all"], obs["minimal"], outs["minimal"]), Replay: map[string]any{"history": history, "all": obs["all"], "minimal": obs["minimal"], "output_minimal": outs["minimal"]}})
		}
		c.R.AddCounts(2, 1, 2, 2)
		c.R.Outcome("run|" + st.name + "|" + obs["all"])
		c.R.Nontrivial("run|" + st.name)
	}
}

// c15Triangle: d depends on [x, y] and y depends on x; everything is cached, then the blobs of x and y are lost, their
// outputs removed from the workspace and d's input edited. Under load_outputs=minimal d executes and needs both
// dependencies: each of them is re-run at most once (x is reached twice: directly and through y), the build succeeds
// and d's output equals the one of mode all.
func c15Triangle(c *Ctx) {
	grog, err := vc.BuildGrog("grog", nil)
	if err != nil {
		c.R.BrokenCheck("%v", err)
		return
	}
	base, cleanup := scratchBase(c, "c15tri")
	defer cleanup()
	mk := func(v string) *hist.Source {
		s := &hist.Source{Files: map[string]hist.File{"t/x.in": {Content: "x1"}, "t/y.in": {Content: "y1"}, "t/d.in": {Content: v}}}
		s.Targets = append(s.Targets,
			hist.Target{Pkg: "t", Name: "x", Inputs: []string{"x.in"}, Outputs: []string{"x.out"}, Command: traceStart + "\ncat x.in > x.out"},
			hist.Target{Pkg: "t", Name: "y", Deps: []string{":x"}, Inputs: []string{"y.in"}, Outputs: []string{"y.out"}, Command: traceStart + "\ncat x.out y.in > y.out"},
			hist.Target{Pkg: "t", Name: "d", Deps: []string{":x", ":y"}, Inputs: []string{"d.in"}, Outputs: []string{"d.out"}, Command: traceStart + "\ncat x.out y.out d.in > d.out"})
		return s
	}
	results := map[string]string{}
	for _, mode := range []string{"all", "minimal"} {
		box, err := hist.NewBox(base)
		if err != nil {
			c.R.BrokenCheck("%v", err)
			return
		}
		s1, s2 := mk("d1"), mk("d2")
		s1.Materialize(box.WS(), nil)
		args := []string{"build", "//...", "--load-outputs=" + mode}
		if r := box.Run(grog, hist.RunOpts{Args: args}); r.Exit != 0 {
			c.R.BrokenCheck("triangle: preparation build failed: %s", tail(r.Output, 300))
			box.Remove()
			return
		}
		os.RemoveAll(filepath.Join(box.CacheDir(), "cas"))
		os.Remove(filepath.Join(box.WS(), "t/x.out"))
		os.Remove(filepath.Join(box.WS(), "t/y.out"))
		s2.Materialize(box.WS(), s1)
		rr := box.Run(grog, hist.RunOpts{Args: args, Ceiling: 60e9})
		replay := map[string]any{"history": []string{"build", "lose every blob, delete x.out and y.out, edit d's input", "build"}, "load_outputs": mode, "executed": rr.Started(), "grog_output_tail": tail(rr.Output, 600)}
		counts := map[string]int{}
		for _, l := range rr.Started() {
			counts[l]++
		}
		for l, n := range counts {
			if n > 1 {
				c.R.Violate(vc.Violation{Sig: "C15:minimal-mode:target-executed-twice-in-one-build:" + l, Detail: fmt.Sprintf("triangle (load_outputs=%s): %s was executed %d times in one build; trace %v", mode, l, n, rr.Trace), Replay: replay})
			}
		}
		b, _ := os.ReadFile(filepath.Join(box.WS(), "t/d.out"))
		results[mode] = fmt.Sprintf("exit=%d d.out=%q", rr.Exit, b)
		c.R.AddCounts(2, 1, 2, 2)
		c.R.Nontrivial("triangle|" + mode)
		box.Remove()
	}
	if results["all"] != results["minimal"] {
		c.R.Violate(vc.Violation{Sig: "C15:lock-step:minimal-differs-from-all:triangle-with-lost-blobs", Detail: fmt.Sprintf("triangle d -> [x, y], y -> x with the blobs of x and y lost: mode all gives %s, minimal %s", results["all"], results["minimal"]), Replay: results})
	}
	c.R.Outcome("triangle|" + results["minimal"])
}

// c15SharedRerun: two dependants of ONE dependency whose blobs are lost (the cache fault of C15's quantifier) become
// ready half a second apart; the dependency's command writes its output in two steps a second apart. In lock-step
// under both modes: every command finds the complete dependency output (what it copies is what a from-scratch build
// gives), the dependency's output is right at the end, and what the build recorded restores the same bytes after the
// outputs were deleted. The oracle is on file contents only, so no timing can make a correct build fail it; the
// sleeps only decide whether an incorrect one is noticed.
func c15SharedRerun(c *Ctx) {
	grog, err := vc.BuildGrog("grog", nil)
	if err != nil {
		c.R.BrokenCheck("%v", err)
		return
	}
	base, cleanup := scratchBase(c, "c15shared")
	defer cleanup()
	end := "\necho \"end $GROG_TARGET\" >> \"$VTRACE\""
	mk := func(v string) *hist.Source {
		s := &hist.Source{Files: map[string]hist.File{"t/d.in": {Content: "d"}, "t/s.in": {Content: v}, "t/a.in": {Content: v}, "t/b.in": {Content: v}}, Toml: "num_workers = 4\n"}
		s.Targets = append(s.Targets,
			hist.Target{Pkg: "t", Name: "d", Inputs: []string{"d.in"}, Outputs: []string{"d.txt"}, Command: traceStart + "\nprintf part1 > d.txt\nsleep 1\nprintf part2 >> d.txt" + end},
			hist.Target{Pkg: "t", Name: "s", Inputs: []string{"s.in"}, Outputs: []string{"s.txt"}, Command: traceStart + "\nsleep 0.5\ncat s.in > s.txt" + end},
			hist.Target{Pkg: "t", Name: "a", Deps: []string{":d"}, Inputs: []string{"a.in"}, Outputs: []string{"a.txt"}, Command: traceStart + "\ncat d.txt a.in > a.txt" + end},
			hist.Target{Pkg: "t", Name: "b", Deps: []string{":d", ":s"}, Inputs: []string{"b.in"}, Outputs: []string{"b.txt"}, Command: traceStart + "\ncat d.txt s.txt b.in > b.txt" + end})
		return s
	}
	want := map[string]string{"t/d.txt": "part1part2", "t/s.txt": "v2", "t/a.txt": "part1part2v2", "t/b.txt": "part1part2v2v2"}
	for _, mode := range []string{"all", "minimal"} {
		box, err := hist.NewBox(base)
		if err != nil {
			c.R.BrokenCheck("%v", err)
			return
		}
		s1, s2 := mk("v1"), mk("v2")
		s1.Materialize(box.WS(), nil)
		args := []string{"build", "//...", "--load-outputs=" + mode}
		if r := box.Run(grog, hist.RunOpts{Args: args}); r.Exit != 0 {
			c.R.BrokenCheck("shared re-run: preparation build failed: %s", tail(r.Output, 300))
			box.Remove()
			return
		}
		os.RemoveAll(filepath.Join(box.CacheDir(), "cas"))
		os.Remove(filepath.Join(box.WS(), "t/d.txt"))
		s2.Materialize(box.WS(), s1)
		history := []string{"build", "lose every blob, delete d.txt, edit the inputs of s, a and b", "build"}
		rr := box.Run(grog, hist.RunOpts{Args: args, Ceiling: 60e9})
		check := func(step string, r hist.RunResult) bool {
			replay := map[string]any{"history": history, "load_outputs": mode, "exit": r.Exit, "trace": r.Trace, "grog_output_tail": tail(r.Output, 600)}
			if r.Exit != 0 {
				c.R.Violate(vc.Violation{Sig: "C15:shared-dependency-with-lost-blobs:build-fails", Detail: fmt.Sprintf("load_outputs=%s, %s: grog exited %d: %s", mode, step, r.Exit, tail(r.Output, 300)), Replay: replay})
				return false
			}
			for _, p := range []string{"t/a.txt", "t/b.txt", "t/d.txt", "t/s.txt"} {
				if b, _ := os.ReadFile(filepath.Join(box.WS(), p)); string(b) != want[p] {
					sig := "C15:command-found-a-dependency-output-that-was-being-rewritten"
					if p == "t/d.txt" {
						sig = "C15:dependency-output-wrong-after-it-was-re-run"
					}
					if step != "build" {
						sig = "C15:outputs-recorded-after-a-re-run-restore-wrong-bytes"
					}
					c.R.Violate(vc.Violation{Sig: sig, Detail: fmt.Sprintf("load_outputs=%s, %s: %s is %q, a from-scratch build gives %q (//t:d writes d.txt in two steps; //t:a and //t:b both depend on it and become ready 0.5 s apart; executed %v)", mode, step, p, b, want[p], r.Trace), Replay: replay})
					return false
				}
			}
			return true
		}
		ok := check("build", rr)
		c.R.AddCounts(2, 1, 2, 2)
		c.R.Outcome(fmt.Sprintf("shared-rerun|%s|%v", mode, rr.Started()))
		c.R.Nontrivial("shared-rerun|" + mode)
		if ok {
			for p := range want {
				os.Remove(filepath.Join(box.WS(), p))
			}
			history = append(history, "delete all outputs", "build")
			r3 := box.Run(grog, hist.RunOpts{Args: []string{"build", "//..."}, Ceiling: 60e9})
			check("delete all outputs; build", r3)
			c.R.AddCounts(1, 1, 1, 1)
		}
		box.Remove()
	}
}
