package checks

import (
	"fmt"
	"os"
	"path/filepath"
	"strings"

	"verif/internal/hist"
	"verif/internal/vc"
)

// c15RunCommand: `grog run` is a build followed by the execution of the target's binary output; under
// load_outputs=minimal it succeeds or fails exactly as under all. Histories (lock-step, one box per mode):
// run; run again (cached); delete the binary, run; edit the tool's input, run; delete the binary and the tool's
// dependency output, run. Exit status and the line the tool prints must agree.
func c15RunCommand(c *Ctx) {
	grog, err := vc.BuildGrog("grog", nil)
	if err != nil {
		c.R.BrokenCheck("%v", err)
		return
	}
	base, cleanup := scratchBase(c, "c15run")
	defer cleanup()
	mk := func(v string) *hist.Source {
		s := &hist.Source{Files: map[string]hist.File{"b/lib.in": {Content: "lib-" + v}, "b/tool.in": {Content: "tool-" + v}}}
		s.Targets = append(s.Targets,
			hist.Target{Pkg: "b", Name: "lib", Inputs: []string{"lib.in"}, Outputs: []string{"lib.txt"}, Command: traceStart + "\ncat lib.in > lib.txt"},
			hist.Target{Pkg: "b", Name: "tool", Deps: []string{":lib"}, Inputs: []string{"tool.in"}, BinOutput: "tool.sh", Command: traceStart + "\nprintf '#!/bin/sh\\necho \"tool-ran %s %s\"\\n' \"$(cat tool.in)\" \"$(cat lib.txt)\" > tool.sh"})
		return s
	}
	type step struct {
		name string
		do   func(ws string, cur **hist.Source)
	}
	steps := []step{
		{"run", func(string, **hist.Source) {}},
		{"run again", func(string, **hist.Source) {}},
		{"delete the binary; run", func(ws string, _ **hist.Source) { os.Remove(filepath.Join(ws, "b/tool.sh")) }},
		{"edit the tool's input; run", func(ws string, cur **hist.Source) {
			n := mk("1")
			n.Files["b/tool.in"] = hist.File{Content: "tool-2"}
			n.Materialize(ws, *cur)
			*cur = n
		}},
		{"delete the binary and the dependency's output; run", func(ws string, _ **hist.Source) {
			os.Remove(filepath.Join(ws, "b/tool.sh"))
			os.Remove(filepath.Join(ws, "b/lib.txt"))
		}},
	}
	boxes := map[string]*hist.Box{}
	cur := map[string]*hist.Source{}
	for _, mode := range []string{"all", "minimal"} {
		b, err := hist.NewBox(base)
		if err != nil {
			c.R.BrokenCheck("%v", err)
			return
		}
		defer b.Remove()
		boxes[mode] = b
		cur[mode] = mk("1")
		cur[mode].Materialize(b.WS(), nil)
	}
	var history []string
	for _, st := range steps {
		history = append(history, st.name)
		obs := map[string]string{}
		outs := map[string]string{}
		for _, mode := range []string{"all", "minimal"} {
			s := cur[mode]
			st.do(boxes[mode].WS(), &s)
			cur[mode] = s
			rr := boxes[mode].Run(grog, hist.RunOpts{Args: []string{"run", "--load-outputs=" + mode, "//b:tool"}, Ceiling: 60e9})
			line := ""
			for _, l := range strings.Split(rr.Output, "\n") {
				if strings.HasPrefix(l, "tool-ran") {
					line = l
				}
			}
			obs[mode] = fmt.Sprintf("exit=%d output=%q", rr.Exit, line)
			outs[mode] = tail(rr.Output, 400)
		}
		if obs["all"] != obs["minimal"] {
			c.R.Violate(vc.Violation{Sig: "C15:lock-step:grog-run-differs-between-modes", Detail: fmt.Sprintf("history %v: `grog run //b:tool` gives %s under load_outputs=all and %s under minimal: %s", history, obs["all"], obs["minimal"], outs["minimal"]), Replay: map[string]any{"history": history, "all": obs["all"], "minimal": obs["minimal"], "output_minimal": outs["minimal"]}})
		}
		c.R.AddCounts(2, 1, 2, 2)
		c.R.Outcome("run|" + st.name + "|" + obs["all"])
		c.R.Nontrivial("run|" + st.name)
	}
}
