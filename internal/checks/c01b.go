package checks

import (
	"fmt"
	"os"
	"path/filepath"
	"sort"
	"strings"

	"verif/internal/hist"
	"verif/internal/vc"
)

// c01TradeScenarios: scripted histories in which the SET of bytes a dependant can see stays the same while their
// assignment to dependencies / outputs changes:
//   - two dependencies in different packages declare an output of the same package-relative name and trade their inputs;
//   - one dependency with two outputs whose contents trade places (cached and tagged no-cache);
//   - two dependencies reached through two aliases trade their inputs;
//   - a triangle: the dependant depends on a target directly and through a second target whose output stays the same.
//
// After the edit the dependant's output must equal a from-scratch build.
func c01TradeScenarios(c *Ctx) {
	grog, err := vc.BuildGrog("grog", nil)
	if err != nil {
		c.R.BrokenCheck("%v", err)
		return
	}
	base, cleanup := scratchBase(c, "c01trade")
	defer cleanup()
	gen := func(pkg string, tags []string) hist.Target {
		return hist.Target{Pkg: pkg, Name: "gen", Inputs: []string{"in.txt"}, Outputs: []string{"out.txt"}, Tags: tags, Command: traceStart + "\ncat in.txt > out.txt"}
	}
	two := func(tags []string) hist.Target {
		return hist.Target{Pkg: "n", Name: "two", Inputs: []string{"in1.txt", "in2.txt"}, Outputs: []string{"o1.txt", "o2.txt"}, Tags: tags, Command: traceStart + "\ncat in1.txt > o1.txt\ncat in2.txt > o2.txt"}
	}
	type scenario struct {
		name   string
		build  func(x, y string) *hist.Source
		result string // workspace-relative path of the dependant's output
	}
	scs := []scenario{
		{"two dependencies with a same-named output trade their inputs", func(x, y string) *hist.Source {
			s := &hist.Source{Files: map[string]hist.File{"a/in.txt": {Content: x}, "b/in.txt": {Content: y}}}
			s.Targets = append(s.Targets, gen("a", nil), gen("b", nil),
				hist.Target{Pkg: "top", Name: "join", Deps: []string{"//a:gen", "//b:gen"}, Outputs: []string{"joined.txt"}, Command: traceStart + "\ncat ../a/out.txt ../b/out.txt > joined.txt"})
			return s
		}, "top/joined.txt"},
		{"two no-cache dependencies with a same-named output trade their inputs", func(x, y string) *hist.Source {
			s := &hist.Source{Files: map[string]hist.File{"a/in.txt": {Content: x}, "b/in.txt": {Content: y}}}
			s.Targets = append(s.Targets, gen("a", []string{"no-cache"}), gen("b", []string{"no-cache"}),
				hist.Target{Pkg: "top", Name: "join", Deps: []string{"//a:gen", "//b:gen"}, Outputs: []string{"joined.txt"}, Command: traceStart + "\ncat ../a/out.txt ../b/out.txt > joined.txt"})
			return s
		}, "top/joined.txt"},
		{"the two outputs of one dependency trade their contents", func(x, y string) *hist.Source {
			s := &hist.Source{Files: map[string]hist.File{"n/in1.txt": {Content: x}, "n/in2.txt": {Content: y}}}
			s.Targets = append(s.Targets, two(nil),
				hist.Target{Pkg: "top", Name: "join", Deps: []string{"//n:two"}, Outputs: []string{"joined.txt"}, Command: traceStart + "\ncat ../n/o1.txt ../n/o2.txt > joined.txt"})
			return s
		}, "top/joined.txt"},
		{"the two outputs of one no-cache dependency trade their contents", func(x, y string) *hist.Source {
			s := &hist.Source{Files: map[string]hist.File{"n/in1.txt": {Content: x}, "n/in2.txt": {Content: y}}}
			s.Targets = append(s.Targets, two([]string{"no-cache"}),
				hist.Target{Pkg: "top", Name: "join", Deps: []string{"//n:two"}, Outputs: []string{"joined.txt"}, Command: traceStart + "\ncat ../n/o1.txt ../n/o2.txt > joined.txt"})
			return s
		}, "top/joined.txt"},
		{"triangle: a direct dependency that is also reachable through another dependency whose output does not change", func(x, y string) *hist.Source {
			s := &hist.Source{Files: map[string]hist.File{"a/in.txt": {Content: x}}}
			s.Targets = append(s.Targets, gen("a", nil),
				hist.Target{Pkg: "h", Name: "header", Deps: []string{"//a:gen"}, Outputs: []string{"header.txt"}, Command: traceStart + "\ntest -e ../a/out.txt && printf header > header.txt"},
				hist.Target{Pkg: "top", Name: "join", Deps: []string{"//a:gen", "//h:header"}, Outputs: []string{"joined.txt"}, Command: traceStart + "\ncat ../h/header.txt ../a/out.txt > joined.txt"})
			return s
		}, "top/joined.txt"},
		{"two dependencies reached through aliases trade their inputs", func(x, y string) *hist.Source {
			s := &hist.Source{Files: map[string]hist.File{"a/in.txt": {Content: x}, "b/in.txt": {Content: y}}}
			s.Targets = append(s.Targets, gen("a", nil), gen("b", nil),
				hist.Target{Pkg: "top", Name: "join", Deps: []string{"//top:ala", "//top:alb"}, Outputs: []string{"joined.txt"}, Command: traceStart + "\ncat ../a/out.txt ../b/out.txt > joined.txt"})
			s.Aliases = append(s.Aliases, hist.Alias{Pkg: "top", Name: "ala", Actual: "//a:gen"}, hist.Alias{Pkg: "top", Name: "alb", Actual: "//b:gen"})
			return s
		}, "top/joined.txt"},
	}
	for _, sc := range scs {
		for _, mode := range []string{"all", "minimal"} {
			box, err := hist.NewBox(base)
			if err != nil {
				c.R.BrokenCheck("%v", err)
				return
			}
			s1, s2 := sc.build("XX", "YY"), sc.build("YY", "XX")
			s1.Materialize(box.WS(), nil)
			args := []string{"build", "//...", "--load-outputs=" + mode}
			r1 := box.Run(grog, hist.RunOpts{Args: args})
			s2.Materialize(box.WS(), s1)
			r2 := box.Run(grog, hist.RunOpts{Args: args})
			cl, _ := hist.NewBox(base)
			s2.Materialize(cl.WS(), nil)
			rc := cl.Run(grog, hist.RunOpts{Args: []string{"build", "//..."}})
			replay := map[string]any{"scenario": sc.name, "load_outputs": mode, "executed_in_second_build": r2.Started(), "grog_output_tail": tail(r2.Output, 600)}
			if r1.Exit != 0 || r2.Exit != 0 || rc.Exit != 0 {
				c.R.Violate(vc.Violation{Sig: "C01:build-of-deterministic-workspace-fails:trade", Detail: fmt.Sprintf("%s (load_outputs=%s): exits %d, %d, from scratch %d: %s", sc.name, mode, r1.Exit, r2.Exit, rc.Exit, tail(r2.Output, 300)), Replay: replay})
			} else {
				t := hist.Target{Pkg: "top", Name: "join", Outputs: []string{"joined.txt"}}
				if d := hist.DiffListing(outputsListing(box.WS(), t), outputsListing(cl.WS(), t)); d != "" {
					c.R.Violate(vc.Violation{Sig: "C01:output-differs-from-clean-build://top:join:after:dependencies-trade-their-bytes", Detail: fmt.Sprintf("%s (load_outputs=%s): after the edit //top:join was served from the cache (executed: %v) although what it reads changed: %s", sc.name, mode, r2.Started(), d), Replay: replay})
				}
			}
			c.R.AddCounts(3, 1, 3, 3)
			c.R.Outcome(fmt.Sprintf("trade|%s|%s|%v", sc.name, mode, r2.Started()))
			c.R.Nontrivial("trade|" + sc.name + "|" + mode)
			box.Remove()
			cl.Remove()
		}
	}
}

// c02MissingInput: a target that declares a literal input which does not exist (an optional file), followed in sort
// order by inputs that are edited WITHOUT changing their size. History: build; build (nothing executes); same-size edit
// of the last input; same-size edit of the middle input; create the optional file; build (nothing executes). The target
// and its dependant execute exactly after each change, and what they copy is the current content.
func c02MissingInput(c *Ctx) {
	grog, err := vc.BuildGrog("grog", nil)
	if err != nil {
		c.R.BrokenCheck("%v", err)
		return
	}
	base, cleanup := scratchBase(c, "c02missing")
	defer cleanup()
	mk := func(opt, b, d string) *hist.Source {
		s := &hist.Source{Files: map[string]hist.File{"p/b_config.txt": {Content: b}, "p/c_data.txt": {Content: d}}}
		if opt != "" {
			s.Files["p/a_optional.txt"] = hist.File{Content: opt}
		}
		s.Targets = append(s.Targets,
			hist.Target{Pkg: "p", Name: "gen", Inputs: []string{"a_optional.txt", "b_config.txt", "c_data.txt"}, Outputs: []string{"gen.out"}, Command: traceStart + "\n(if [ -e a_optional.txt ]; then cat a_optional.txt; fi; cat b_config.txt c_data.txt) > gen.out"},
			hist.Target{Pkg: "p", Name: "use", Deps: []string{":gen"}, Outputs: []string{"use.out"}, Command: traceStart + "\ncat gen.out > use.out"})
		return s
	}
	type step struct {
		name string
		src  *hist.Source
		want string
		out  string
	}
	steps := []step{
		{"build", mk("", "config-1", "data-v1"), "//p:gen //p:use", "config-1data-v1"},
		{"build again", mk("", "config-1", "data-v1"), "", "config-1data-v1"},
		{"same-size edit of c_data.txt; build", mk("", "config-1", "data-v2"), "//p:gen //p:use", "config-1data-v2"},
		{"same-size edit of b_config.txt; build", mk("", "config-2", "data-v2"), "//p:gen //p:use", "config-2data-v2"},
		{"create a_optional.txt; build", mk("opt", "config-2", "data-v2"), "//p:gen //p:use", "optconfig-2data-v2"},
		{"build again", mk("opt", "config-2", "data-v2"), "", "optconfig-2data-v2"},
	}
	for _, mode := range []string{"all", "minimal"} {
		box, err := hist.NewBox(base)
		if err != nil {
			c.R.BrokenCheck("%v", err)
			return
		}
		var prev *hist.Source
		var history []string
		for _, st := range steps {
			st.src.Materialize(box.WS(), prev)
			prev = st.src
			history = append(history, st.name)
			rr := box.Run(grog, hist.RunOpts{Args: []string{"build", "//...", "--load-outputs=" + mode}, Ceiling: 60e9})
			got := append([]string{}, rr.Started()...)
			sort.Strings(got)
			replay := map[string]any{"history": history, "load_outputs": mode, "executed": got, "grog_output_tail": tail(rr.Output, 500)}
			bad := true
			switch {
			case rr.Exit != 0:
				c.R.Violate(vc.Violation{Sig: "C02:missing-input:build-fails", Detail: fmt.Sprintf("history %v (load_outputs=%s): grog exited %d: %s", history, mode, rr.Exit, tail(rr.Output, 300)), Replay: replay})
			case strings.Join(got, " ") != st.want && len(got) < len(strings.Fields(st.want)):
				c.R.Violate(vc.Violation{Sig: "C02:missing-input:input-edit-not-noticed", Detail: fmt.Sprintf("history %v (load_outputs=%s): executed %v, expected [%s] (//p:gen declares a_optional.txt, b_config.txt, c_data.txt; the first one does not exist at first)", history, mode, got, st.want), Replay: replay})
			case strings.Join(got, " ") != st.want:
				c.R.Violate(vc.Violation{Sig: "C02:missing-input:executed-although-nothing-changed", Detail: fmt.Sprintf("history %v (load_outputs=%s): executed %v, expected [%s]", history, mode, got, st.want), Replay: replay})
			default:
				bad = false
				if len(got) > 0 {
					if b, _ := os.ReadFile(filepath.Join(box.WS(), "p/use.out")); string(b) != st.out {
						c.R.Violate(vc.Violation{Sig: "C02:missing-input:stale-output", Detail: fmt.Sprintf("history %v (load_outputs=%s): p/use.out is %q, expected %q", history, mode, b, st.out), Replay: replay})
						bad = true
					}
				}
			}
			c.R.AddCounts(1, 1, 1, 1)
			c.R.Outcome(fmt.Sprintf("missing-input|%s|%s|%v", mode, st.name, got))
			c.R.Nontrivial("missing-input|" + mode + "|" + strings.Join(history, ">"))
			if bad {
				break
			}
		}
		box.Remove()
	}
}
