package checks

func init() {
	Registry["C04"] = func(c *Ctx) {
		c.R.Rule = "scenario = (graph of <=4 nodes incl. alias / unselected node, set of failing targets, fail-fast, num_workers); each scenario runs the real dag.Walker with the real TaskWorkerPool under the controlled scheduler for EVERY choice sequence with <= d deviations (a deviation = any non-default scheduling / select / map-order choice). An execution is non-trivial when at least one command ran; distinct (scenario, observable trace) pairs are counted."
		c.R.Assume("commands are stubs with one scheduling point between start and end (latency = any number of other steps, including zero)", "scheduling points sit at every lock, once, wait-group wait, channel operation, select, close and goroutine start of graph_walker.go and task_worker_pool.go; atomics are not scheduling points", "goroutine interleavings beyond the deviation bound are not covered")
		walkCheck("C04", []string{"C04:"}, 2, 3)(c)
	}
}
