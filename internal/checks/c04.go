package checks

import "os"

func init() {
	Registry["C04"] = func(c *Ctx) {
		c.R.Rule = "Pool alone: the real TaskWorkerPool driven directly by 2-4 callers on 1-2 workers with no stop / an interrupt / a task that cancels when it ends / a direct Shutdown (plus early-clock-tick variants when callers wait in the queue), every schedule with <= 3 (quick; bound 2 complete) / 4 deviations: no panic, never more than num_workers tasks running, no task twice, Run returns its own task's result, at most 2*num_workers already accepted jobs (queue + one per worker) start after Shutdown returned. two parts. (a) scenario = (graph of <=4 nodes incl. alias / unselected node, set of failing targets, fail-fast, num_workers); each scenario runs the real dag.Walker with the real TaskWorkerPool under the controlled scheduler for EVERY choice sequence with <= d deviations (a deviation = any non-default scheduling / select / map-order choice). An execution is non-trivial when at least one command ran; distinct (scenario, observable trace) pairs are counted. (b) cache read faults at every depth of a restore, with the REAL binary: a workspace with a flat directory output (3 files), a nested directory output (3 levels), a file output and a dependant is built, all outputs are deleted, then EVERY non-empty subset (quick: all subsets of size <= 3 and >= n-1; thorough: all) of the cache entries (blobs, tree blobs, target results) is removed and the build re-run: it must exit (45 s ceiling only classifies a hang), exit 0 by re-executing what was lost, and produce the right outputs. (c) failure modes with the real binary: histories of <= 3/4 operations over {command exits non-zero (also for a target that declares a timeout which does not expire), declared output missing, timeout, build, build --fail-fast} on the chain workspace: grog exits (60 s ceiling only classifies a hang). Large builds (real binary, plain console): 40 / 70 / 130 (thorough: 260, 520) trivial targets as a wide graph, a chain, and a wide graph whose last target fails, num_workers 1 / default: the build ends within 120 s with the exit status of its targets and every command ran once."
		c.R.Assume("commands are stubs with one scheduling point between start and end (latency = any number of other steps, including zero)", "scheduling points sit at every lock, once, wait-group wait, channel operation, select, close and goroutine start of graph_walker.go and task_worker_pool.go; atomics are not scheduling points", "goroutine interleavings beyond the deviation bound are not covered")
		if os.Getenv("VERIF_PART") == "many-targets" { // development aid: this part alone
			c04ManyTargets(c)
			return
		}
		walkCheckBudget("C04", []string{"C04:"}, 2, 3, 40, 420)(c)
		// the pool alone (callers x workers x {no stop, interrupt, fail-fast-like cancel by a task, Shutdown}), deviation
		// bound 3 / 4: no internal crash (send on a closed channel), callers return when nothing stops the pool
		poolCheck(c, "C04", []string{"C04:"})
		c04MissingBlobs(c)
		c04SharedDependencyOrders(c)
		c04ManyTargets(c)
		// the schedule dimension of a failing restore (real Registry.LoadOutputs under the controlled scheduler): it returns
		loadQuiescence(c, "C04", "load-outputs-never-returns")
		// (c) every failure mode of a real command must end the build: exit code, missing output and
		// timeout failures of targets with dependants, keep-going and fail-fast (real binary, chain workspace;
		// one target declares a timeout that never expires)
		chainCheck("C04", []string{"C04:"}, 3, 4, func(e *chainEngine, thorough bool) {
			e.ops = []chainOp{markOp("fail-x-exit"), markOp("fail-y-exit"), markOp("fail-y-noout"), opBuild, opBuildFF}
			if thorough {
				e.ops = append(e.ops, markOp("fail-y-timeout"))
			}
		})(c)
	}
}
