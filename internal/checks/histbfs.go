package checks

import (
	"crypto/sha256"
	"encoding/hex"
	"encoding/json"
	"fmt"
	"os"
	"path"
	"path/filepath"
	"sort"
	"strings"
	"sync"

	"verif/internal/hist"
	"verif/internal/vc"
)

// ---- reference cache model --------------------------------------------------
// A dictionary from "target state" to "has a successful result", written from
// the documented caching rules. It never looks at grog's hashes.

type buildFlags struct {
	Pattern     string
	LoadOutputs string // all | minimal
	HashAlgo    string
	NoCache     bool   // --enable-cache=false
	Cwd         string // directory (relative to the workspace) in which grog is started
}

func (f buildFlags) args(platform string) []string {
	a := []string{"build", f.Pattern, "--platform", platform}
	if f.LoadOutputs != "" {
		a = append(a, "--load-outputs", f.LoadOutputs)
	}
	if f.NoCache {
		a = append(a, "--enable-cache=false")
	}
	return a
}

func (f buildFlags) env() map[string]string {
	e := map[string]string{}
	if f.HashAlgo != "" {
		e["GROG_HASH_ALGORITHM"] = f.HashAlgo
	}
	return e
}

// resolvedInputs resolves a target's input globs against the source files.
func resolvedInputs(s *hist.Source, t hist.Target) [][2]string {
	var out [][2]string
	for p, f := range s.Files {
		if !strings.HasPrefix(p, t.Pkg+"/") {
			continue
		}
		rel := strings.TrimPrefix(p, t.Pkg+"/")
		excluded := false
		for _, g := range t.Exclude {
			if ok, _ := path.Match(g, rel); ok || g == rel {
				excluded = true
			}
		}
		if excluded {
			continue
		}
		for _, g := range t.Inputs {
			if ok, _ := path.Match(g, rel); ok || g == rel {
				content := f.Content
				if f.Link != "" {
					// a symlinked input stands for the bytes of the file it points to
					content = s.Files[path.Join(path.Dir(p), f.Link)].Content
				}
				out = append(out, [2]string{rel, content})
				break
			}
		}
	}
	sort.Slice(out, func(i, j int) bool { return out[i][0] < out[j][0] })
	return out
}

// stateKeys computes the model's state key of every selected target, in
// topological order. depOutputs gives the (observed) content of a target's
// declared outputs; targets without outputs expose their own state.
func stateKeys(s *hist.Source, order []string, platform string, depOutputs func(t hist.Target) string) map[string]string {
	keys := map[string]string{}
	for _, l := range order {
		t := *s.Target(l)
		outs := append([]string{}, t.Outputs...)
		if t.BinOutput != "" {
			outs = append(outs, "bin:"+t.BinOutput)
		}
		sort.Strings(outs)
		var fp []string
		for k, v := range t.Fingerprint {
			b, _ := json.Marshal([2]string{k, v})
			fp = append(fp, string(b))
		}
		sort.Strings(fp)
		var deps []string
		for _, d := range depsOf(s, t) {
			dt := *s.Target(d)
			if len(dt.Outputs) == 0 && dt.BinOutput == "" {
				deps = append(deps, d+"=state:"+keys[d])
			} else {
				deps = append(deps, d+"=out:"+depOutputs(dt))
			}
		}
		// the declared dependency labels are part of the target's definition
		b, _ := json.Marshal([]any{l, t.Command, outs, fp, platform, resolvedInputs(s, t), deps, t.Deps, t.OutputChecks, t.Timeout})
		keys[l] = string(b)
	}
	return keys
}

// ---- BFS --------------------------------------------------------------------

type hnode struct {
	box     *hist.Box
	boxKey  string
	ws      wsState
	builtWs *wsState // source state at the last build (what is materialised in the box)
	pending []string // workspace pre-state operations to apply before the next build
	model   map[string]bool
	hist    []string
	lastOp  string // most recent edit / pre-state op since the last build
}

func (n *hnode) key() string {
	// the reference model is part of the state (see cnode.key)
	ms := make([]string, 0, len(n.model))
	for k := range n.model {
		h := sha256.Sum256([]byte(k))
		ms = append(ms, hex.EncodeToString(h[:6]))
	}
	sort.Strings(ms)
	return n.boxKey + "|" + n.ws.key() + "|" + strings.Join(n.pending, ",") + "|" + strings.Join(ms, "")
}

type cleanResult struct {
	listings map[string]map[string]hist.Entry // label -> listing of its declared outputs
	reads    []string
	exit     int
	output   string
	// selfCheck: non-empty when the from-scratch build itself is wrong by an absolute oracle
	// (the differential oracle is blind to a defect that also affects the from-scratch build)
	selfCheck string
}

type histEngine struct {
	c        *Ctx
	grog     string
	base     string
	flags    []buildFlags
	preOps   []string
	maxOps   int
	toggles  []int
	cleanMu  sync.Mutex
	clean    map[string]*cleanResult
	builds   int64
	mu       sync.Mutex
	lockstep bool
	// prebuilt: every history starts with `grog build <flags[0]>`, which is not counted in maxOps
	// (the search starts from the state after a first build instead of the empty workspace)
	prebuilt bool
	// returnToggles: see runReturnHistories
	returnToggles []int
}

var preOpNames = []string{"delete-lib-output", "delete-lib-output-parent-dir", "modify-lib-output", "truncate-gen-output", "delete-dist-dir", "replace-dist-dir-by-file", "add-stale-file-to-dist", "chmod-minus-x-tool"}

func applyPreOp(ws, op string) {
	switch op {
	case "delete-lib-output":
		os.Remove(filepath.Join(ws, "a/out/lib.txt"))
	case "delete-lib-output-parent-dir":
		os.RemoveAll(filepath.Join(ws, "a/out"))
	case "modify-lib-output":
		if _, err := os.Stat(filepath.Join(ws, "a/out/lib.txt")); err == nil {
			os.WriteFile(filepath.Join(ws, "a/out/lib.txt"), []byte("tampered"), 0o644)
		}
	case "truncate-gen-output":
		if _, err := os.Stat(filepath.Join(ws, "b/gen.txt")); err == nil {
			os.WriteFile(filepath.Join(ws, "b/gen.txt"), nil, 0o644)
		}
	case "delete-dist-dir":
		os.RemoveAll(filepath.Join(ws, "b/dist"))
	case "replace-dist-dir-by-file":
		os.RemoveAll(filepath.Join(ws, "b/dist"))
		os.WriteFile(filepath.Join(ws, "b/dist"), []byte("a file where the directory output should be"), 0o644)
	case "add-stale-file-to-dist":
		if _, err := os.Stat(filepath.Join(ws, "b/dist")); err == nil {
			os.WriteFile(filepath.Join(ws, "b/dist/stale.txt"), []byte("stale"), 0o644)
		}
	case "chmod-minus-x-tool":
		os.Chmod(filepath.Join(ws, "b/tool.sh"), 0o644)
	}
}

func outputsListing(ws string, t hist.Target) map[string]hist.Entry {
	out := map[string]hist.Entry{}
	for _, p := range hist.OutputPaths(t) {
		for k, v := range hist.Listing(ws, p) {
			out[k] = v
		}
	}
	return out
}

func (e *histEngine) cleanFor(ws wsState, f buildFlags) *cleanResult {
	k := ws.key() + "|" + f.Pattern + "|" + f.HashAlgo
	e.cleanMu.Lock()
	if r, ok := e.clean[k]; ok {
		e.cleanMu.Unlock()
		return r
	}
	e.cleanMu.Unlock()
	box, err := hist.NewBox(e.base)
	if err != nil {
		e.c.R.BrokenCheck("scratch: %v", err)
		return &cleanResult{exit: -9}
	}
	defer box.Remove()
	src := ws.source()
	src.Materialize(box.WS(), nil)
	cf := f
	cf.LoadOutputs = "all"
	cf.NoCache = false
	rr := box.Run(e.grog, hist.RunOpts{Args: cf.args(ws.platform()), Env: cf.env()})
	e.mu.Lock()
	e.builds++
	e.mu.Unlock()
	res := &cleanResult{listings: map[string]map[string]hist.Entry{}, exit: rr.Exit, output: rr.Output}
	for _, l := range closure(src, f.Pattern) {
		res.listings[l] = outputsListing(box.WS(), *src.Target(l))
	}
	for _, l := range rr.Trace {
		if strings.HasPrefix(l, "read ") {
			res.reads = append(res.reads, l)
		}
	}
	if rr.Exit == 0 && src.Target("//b:app") != nil && src.Target("//a:lib") != nil {
		// absolute oracle: app's output embeds its own input and the bytes of lib's output
		libTxt, err1 := os.ReadFile(filepath.Join(box.WS(), "a/out/lib.txt"))
		appIn, _ := os.ReadFile(filepath.Join(box.WS(), "b/app.in"))
		appTxt, err2 := os.ReadFile(filepath.Join(box.WS(), "b/dist/app.txt"))
		if err1 == nil && err2 == nil && len(libTxt) > 0 {
			if want := "app[" + string(appIn) + "|" + string(libTxt) + "|" + string(libTxt) + "]"; string(appTxt) != want {
				res.selfCheck = fmt.Sprintf("a from-scratch build leaves b/dist/app.txt = %q, but //b:app writes app[<app.in>|<$(output //a:lib 0)>|<../a/out/lib.txt>] = %q: its command did not see the dependency's output", appTxt, want)
			}
			for _, r := range res.reads {
				if strings.HasPrefix(r, "read //b:top ") && !strings.Contains(r, "dist/app.txt="+string(appTxt)+" ") {
					res.selfCheck = fmt.Sprintf("a from-scratch build: //b:top observed %q but b/dist/app.txt is %q", r, appTxt)
				}
			}
		}
	}
	e.cleanMu.Lock()
	e.clean[k] = res
	e.cleanMu.Unlock()
	return res
}

func boxKeyOf(b *hist.Box, src *hist.Source) string {
	srcPaths := src.SourcePaths()
	all := hist.Listing(b.WS(), ".")
	var parts []string
	for p, en := range all {
		if srcPaths[p] || en.Kind == "dir" && (p == "." || p == "a" || p == "b" || p == "a/src") {
			continue
		}
		parts = append(parts, fmt.Sprintf("%s:%s:%v:%s:%s", p, en.Kind, en.Exec, en.Digest, en.Link))
	}
	sort.Strings(parts)
	return strings.Join(parts, ";") + "#" + strings.Join(b.CacheNames(), ";")
}

type buildJob struct {
	parent *hnode
	flags  buildFlags
	child  *hnode
}

// doBuild clones the parent's box, materialises the sources, applies pending
// pre-state operations, runs the real build and evaluates the oracles.
func (e *histEngine) doBuild(j *buildJob) {
	p := j.parent
	box, err := p.box.CloneTo(e.base)
	if err != nil {
		e.c.R.BrokenCheck("clone: %v", err)
		return
	}
	src := p.ws.source()
	var prev *hist.Source
	if p.builtWs != nil {
		prev = p.builtWs.source()
	}
	if err := src.Materialize(box.WS(), prev); err != nil {
		e.c.R.BrokenCheck("materialize: %v", err)
		return
	}
	for _, op := range p.pending {
		applyPreOp(box.WS(), op)
	}
	f := j.flags
	rr := box.Run(e.grog, hist.RunOpts{Args: f.args(p.ws.platform()), Env: f.env(), Cwd: f.Cwd})
	e.mu.Lock()
	e.builds++
	e.mu.Unlock()
	buildName := "build " + f.Pattern
	if f.Cwd != "" {
		buildName += " (started in " + f.Cwd + "/)"
	}
	histNow := append(append([]string{}, p.hist...), buildName)
	replay := map[string]any{"history": histNow, "flags": f, "source_toggles": p.ws.describe(), "grog_output_tail": tail(rr.Output, 1500), "trace": rr.Trace}
	last := p.lastOp
	if last == "" {
		last = "nothing"
	}
	vio := func(sig, format string, a ...any) {
		if f.LoadOutputs == "minimal" && (strings.HasPrefix(sig, "C01:") || strings.HasPrefix(sig, "C02:")) {
			// under load_outputs=minimal the same oracle decides C15 (same verdicts and executed sets as mode all)
			sig = "C15:minimal-mode:" + sig[4:]
		}
		e.c.R.Violate(vc.Violation{Sig: sig, Detail: fmt.Sprintf("history %v (load_outputs=%s): ", histNow, f.LoadOutputs) + fmt.Sprintf(format, a...), Replay: replay})
	}
	order := closure(src, f.Pattern)
	executed := map[string]bool{}
	for _, l := range rr.Started() {
		if executed[l] {
			vio("C03:executed-twice-in-one-build:"+l, "%s was executed twice in one build", l)
		}
		executed[l] = true
	}
	if os.Getenv("VERIF_DEBUG") != "" {
		appTxt, _ := os.ReadFile(filepath.Join(box.WS(), "b/dist/app.txt"))
		vc.Logf("DEBUG hist %v (%s) exit=%d executed=%v app.txt=%q grog=%s", histNow, f.LoadOutputs, rr.Exit, rr.Started(), appTxt, e.grog)
	}
	sel := map[string]bool{}
	for _, l := range order {
		sel[l] = true
	}
	for l := range executed {
		if !sel[l] {
			vio("C12:unselected-target-executed:"+l, "%s is not in the selection closure of %s but was executed", l, f.Pattern)
		}
	}
	if rr.TimedOut {
		vio("C04:build-hangs:after:"+last, "grog build did not exit within the 120 s ceiling")
	}
	if rr.Exit != 0 {
		vio("C01:build-of-deterministic-workspace-fails:after:"+last, "grog build exited with %d: %s", rr.Exit, tail(rr.Output, 600))
	}
	// model prediction (uses the observed dependency outputs after the build)
	model := map[string]bool{}
	for k := range p.model {
		model[k] = true
	}
	if rr.Exit == 0 {
		// the model takes the content of dependency outputs from the from-scratch
		// build of the current sources (what the dependency MUST produce), never
		// from grog's hashes and never from possibly stale workspace files
		cl := e.cleanFor(p.ws, f)
		keys := stateKeys(src, order, p.ws.platform(), func(t hist.Target) string {
			return hist.ListingKey(cl.listings[t.Label()])
		})
		for _, l := range order {
			k := f.HashAlgo + "|" + keys[l]
			predictedExec := !model[k] || f.NoCache
			if predictedExec && !executed[l] {
				vio("C01:cached-result-served-for-different-state:"+l+":after:"+last, "%s was NOT executed although no successful result for its current state (definition, inputs, dependency outputs) exists in the cache", l)
			}
			if !predictedExec && executed[l] {
				vio("C02:unexpected-execution:"+l+":after:"+last, "%s was executed although the cache holds a successful result for its current state", l)
			}
			model[k] = true
		}
		// differential oracle: outputs equal a from-scratch build of the current sources
		if cl.selfCheck != "" {
			vio("C01:from-scratch-build-wrong:dependency-output-not-seen-by-command", "%s", cl.selfCheck)
		}
		if cl.exit != 0 {
			e.c.R.BrokenCheck("clean build of source state %v fails (exit %d): %s", p.ws.describe(), cl.exit, tail(cl.output, 400))
		} else {
			for _, l := range order {
				t := *src.Target(l)
				got := outputsListing(box.WS(), t)
				if f.LoadOutputs == "minimal" && !executed[l] {
					// minimal mode does not promise to materialise outputs of restored targets
					// (what an executed dependant reads is checked through the read lines)
					continue
				}
				if os.Getenv("VERIF_DEBUG") != "" {
					vc.Logf("DEBUG diff %v %s: %q (clean has %d entries, got %d)", histNow, l, hist.DiffListing(got, cl.listings[l]), len(cl.listings[l]), len(got))
				}
				if d := hist.DiffListing(got, cl.listings[l]); d != "" {
					vio("C01:output-differs-from-clean-build:"+l+":after:"+last, "declared outputs of %s differ from a from-scratch build: %s", l, d)
				}
			}
			var reads []string
			for _, l := range rr.Trace {
				if strings.HasPrefix(l, "read ") {
					reads = append(reads, l)
				}
			}
			for _, r := range reads {
				found := false
				for _, c := range cl.reads {
					if c == r {
						found = true
					}
				}
				if !found {
					vio("C15:command-read-stale-or-missing-dependency-output:after:"+last, "an executed command observed %q, a from-scratch build observes %v", r, cl.reads)
				}
			}
		}
	}
	j.child = &hnode{box: box, boxKey: boxKeyOf(box, src), ws: p.ws, builtWs: &p.ws, model: model, hist: histNow}
	hits := len(order) - len(executed)
	e.c.R.Outcome(fmt.Sprintf("exec=%s exit=%d", fmtSet(executed), rr.Exit))
	if hits > 0 && len(executed) > 0 {
		e.c.R.Nontrivial(strings.Join(histNow, ">"))
	}
	e.c.R.AddCounts(1, 0, 1, 1)
	if len(histNow) >= 3 {
		e.c.R.Sample(map[string]any{"history": histNow, "executed": fmtSet(executed), "cache_hits": hits})
	}
}

func tail(s string, n int) string {
	if len(s) > n {
		return "…" + s[len(s)-n:]
	}
	return s
}

// run explores all histories of at most maxOps operations breadth-first.
func (e *histEngine) run() {
	root, err := hist.NewBox(e.base)
	if err != nil {
		e.c.R.BrokenCheck("scratch: %v", err)
		return
	}
	start := &hnode{box: root, ws: wsState{}, model: map[string]bool{}}
	start.boxKey = boxKeyOf(root, start.ws.source())
	seen := map[string]bool{start.key(): true}
	frontier := []*hnode{start}
	states := int64(1)
	maxOps := e.maxOps
	if e.prebuilt {
		maxOps++
	}
	for depth := 0; depth < maxOps && len(frontier) > 0; depth++ {
		var next []*hnode
		var jobs []*buildJob
		for _, n := range frontier {
			remaining := maxOps - depth
			if depth == 0 && e.prebuilt {
				jobs = append(jobs, &buildJob{parent: n, flags: e.flags[0]})
				continue
			}
			if remaining >= 2 { // an edit is only useful if a build can follow
				for _, tg := range e.toggles {
					ws := n.ws
					ws.T[tg] = !ws.T[tg]
					c := &hnode{box: n.box, boxKey: n.boxKey, ws: ws, builtWs: n.builtWs, pending: n.pending, model: n.model,
						hist: append(append([]string{}, n.hist...), "edit "+toggleNames[tg]), lastOp: toggleNames[tg]}
					if !seen[c.key()] {
						seen[c.key()] = true
						next = append(next, c)
					}
				}
				if n.builtWs != nil {
					for _, op := range e.preOps {
						c := &hnode{box: n.box, boxKey: n.boxKey, ws: n.ws, builtWs: n.builtWs, pending: append(append([]string{}, n.pending...), op), model: n.model,
							hist: append(append([]string{}, n.hist...), "workspace "+op), lastOp: op}
						if !seen[c.key()] {
							seen[c.key()] = true
							next = append(next, c)
						}
					}
				}
			}
			for _, f := range e.flags {
				jobs = append(jobs, &buildJob{parent: n, flags: f})
			}
		}
		// run the builds of this level concurrently
		var wg sync.WaitGroup
		sem := make(chan struct{}, 48)
		for _, j := range jobs {
			wg.Add(1)
			sem <- struct{}{}
			go func(j *buildJob) {
				defer wg.Done()
				defer func() { <-sem }()
				e.doBuild(j)
			}(j)
		}
		wg.Wait()
		keep := map[*hist.Box]bool{}
		for _, j := range jobs {
			if j.child == nil {
				continue
			}
			if seen[j.child.key()] {
				j.child.box.Remove()
				continue
			}
			seen[j.child.key()] = true
			next = append(next, j.child)
		}
		for _, n := range next {
			keep[n.box] = true
		}
		for _, n := range frontier {
			if !keep[n.box] {
				n.box.Remove()
			}
		}
		states += int64(len(next))
		vc.Logf("history depth %d: %d builds, %d new states", depth+1, len(jobs), len(next))
		frontier = next
	}
	for _, n := range frontier {
		n.box.Remove()
	}
	e.runReturnHistories()
	e.c.R.AddCounts(0, states, 0, 0)
	e.c.R.Set("real_grog_builds", e.builds)
	e.c.R.Set("history_length_bound", e.maxOps)
}

// runReturnHistories: longer, scripted histories that RETURN to a state cached earlier after the workspace was rewritten
// by later executions: build A; edit t1 (B); build; undo t1 (A again: restored from cache); build; edit t2 (C: executes,
// writing over the restored files in place); build; undo t2 (A); build. Every build is judged by the oracles of the
// search. One history per ordered pair of the toggles in returnToggles.
func (e *histEngine) runReturnHistories() {
	if len(e.returnToggles) == 0 {
		return
	}
	var wg sync.WaitGroup
	sem := make(chan struct{}, 24)
	n := 0
	for _, t1 := range e.returnToggles {
		for _, t2 := range e.returnToggles {
			if t1 == t2 {
				continue
			}
			n++
			wg.Add(1)
			sem <- struct{}{}
			go func(t1, t2 int) {
				defer wg.Done()
				defer func() { <-sem }()
				root, err := hist.NewBox(e.base)
				if err != nil {
					e.c.R.BrokenCheck("scratch: %v", err)
					return
				}
				node := &hnode{box: root, ws: wsState{}, model: map[string]bool{}}
				boxes := []*hist.Box{root}
				defer func() {
					for _, b := range boxes {
						b.Remove()
					}
				}()
				build := func() bool {
					j := &buildJob{parent: node, flags: e.flags[0]}
					e.doBuild(j)
					if j.child == nil {
						return false
					}
					node = j.child
					boxes = append(boxes, node.box)
					return true
				}
				toggle := func(tg int) {
					ws := node.ws
					ws.T[tg] = !ws.T[tg]
					node = &hnode{box: node.box, boxKey: node.boxKey, ws: ws, builtWs: node.builtWs, model: node.model,
						hist: append(append([]string{}, node.hist...), "edit "+toggleNames[tg]), lastOp: toggleNames[tg]}
				}
				if !build() {
					return
				}
				for _, tg := range []int{t1, t1, t2, t2} {
					toggle(tg)
					if !build() {
						return
					}
				}
			}(t1, t2)
		}
	}
	wg.Wait()
	e.c.R.Set("return_histories", n)
}

func scratchBase(c *Ctx, tag string) (string, func()) {
	base := "/dev/shm"
	if _, err := os.Stat(base); err != nil {
		base = os.TempDir()
	}
	d, err := os.MkdirTemp(base, "vcheck-"+tag+"-")
	if err != nil {
		c.R.BrokenCheck("scratch: %v", err)
		return "", func() {}
	}
	return d, func() { os.RemoveAll(d) }
}

func histCheck(prop string, keep []string, quickOps, thoroughOps int, configure func(e *histEngine, thorough bool)) CheckFunc {
	return func(c *Ctx) {
		grog, err := vc.BuildGrog("grog", nil)
		if err != nil {
			c.R.BrokenCheck("%v", err)
			return
		}
		base, cleanup := scratchBase(c, strings.ToLower(prop))
		defer cleanup()
		sub := vc.NewReport(prop, c.Tier)
		sc := &Ctx{R: sub, Tier: c.Tier, Thorough: c.Thorough}
		e := &histEngine{c: sc, grog: grog, base: base, clean: map[string]*cleanResult{}, maxOps: quickOps}
		if c.Thorough {
			e.maxOps = thoroughOps
		}
		for i := 0; i < numToggles; i++ {
			if i == tgGenExtra {
				continue // only used by scripted histories (C08)
			}
			e.toggles = append(e.toggles, i)
		}
		e.flags = []buildFlags{{Pattern: "//..."}, {Pattern: "//b:top"}}
		configure(e, c.Thorough)
		e.run()
		c.R.Merge(sub, func(sig string) bool {
			for _, k := range keep {
				if strings.HasPrefix(sig, k) {
					return true
				}
			}
			return false
		})
	}
}

func init() {
	Registry["C01"] = func(c *Ctx) {
		c.R.Rule = "explicit-state breadth-first search over build histories: a state is (source toggles, workspace outputs, abstract cache content); operations = 13 source edits (append byte, move a byte from the end of one input to the start of the next, add/rename file under a glob, command change with/without output change, declared outputs, fingerprint value, fingerprint '=' shift, alias edge <-> direct edge, inputs of two other targets, platform), two workspace pre-state operations (a stale file inside a directory output, a tampered file output) and `grog build //...` / `grog build //b:top` / `grog build //...` started in the sub-directory a/src by the REAL binary on a cloned workspace+cache (every clone lives at a different absolute path); all histories of <= n operations with state de-duplication (quick: additionally all histories of <= n further operations after a first `build //...`, i.e. one operation deeper from the built state). Scripted trade histories (both load_outputs modes): two dependencies with a same-named output (cached / no-cache / through aliases) trade their inputs, the two outputs of one dependency (cached / no-cache) trade their contents: the dependant equals a from-scratch build. Scripted return histories (9 operations, one per ordered pair of 6 edits): build; edit t1; build; undo t1; build (restored from cache); edit t2; build (executes over the restored files); undo t2; build. After every build: exit 0, every declared output of every selected target equals a from-scratch build of the current sources (memoised per source state; the from-scratch build itself is checked against an absolute oracle: //b:app's output embeds the bytes of //a:lib's output, read both through $(output ...) and by path, and //b:top observed exactly that file), and no target is served from cache whose state (per a reference dictionary model) has no successful result. Non-trivial = a build with at least one cache hit and one execution. No-cache tool: a no-cache target whose only output is its bin_output, called by a cached dependant through $(bin :tool): build; build; edit the tool's input; build; build, both modes: the dependant re-executes exactly when the tool changed."
		c.R.Assume("commands of the model workspace are deterministic functions of their declared inputs and dependency outputs", "the reference cache model keys on (label, command, declared outputs, fingerprint, platform, input path+content, observed dependency output contents)", "histories longer than the bound and workspaces other than the 6-target model workspace are not covered")
		if os.Getenv("VERIF_PART") == "no-cache-tool" { // development aid: this part alone
			noCacheTool(c, "C01")
			return
		}
		histCheck("C01", []string{"C01:", "C04:build-hangs"}, 3, 5, func(e *histEngine, thorough bool) {
			// restores happen over whatever the workspace holds: a polluted directory output and a tampered file output
			e.preOps = []string{"add-stale-file-to-dist", "modify-lib-output"}
			// the directory grog is started in is not part of any target's state
			e.flags = append(e.flags, buildFlags{Pattern: "//...", Cwd: "a/src"})
			e.returnToggles = []int{tgAppend, tgShift, tgCmdOutput, tgSharedEdit, tgAppIn, tgToolIn}
		})(c)
		c01TradeScenarios(c)
		// a no-cache tool whose only changing artefact is its bin_output, called by a cached dependant
		noCacheTool(c, "C01")
		if !c.Thorough {
			// quick: one operation deeper from the state after a first `build //...`
			histCheck("C01", []string{"C01:", "C04:build-hangs"}, 3, 5, func(e *histEngine, thorough bool) {
				e.prebuilt = true
				e.preOps = []string{"add-stale-file-to-dist", "modify-lib-output"}
			})(c)
		}
	}
	Registry["C02"] = func(c *Ctx) {
		c.R.Rule = "the C01 history search extended with workspace pre-state operations on output paths between builds (delete output, delete its parent directory, modify, truncate, delete a directory output, replace a file output by a directory, add a stale file to a directory output, clear an exec bit); after every build the set of executed commands (trace written by the commands themselves) must EQUAL the set predicted by the reference cache model: nothing on a no-op rebuild, only targets whose state has no cached result otherwise; dependants of a target that reproduces identical outputs are restored (early cut-off); every clone of the workspace lives at a different absolute path. Thorough additionally runs sha256 and load_outputs=minimal universes. Missing input: a target declaring a literal input that does not exist, followed in sort order by inputs edited without changing their size, six builds in both modes: the target and its dependant execute exactly after each change."
		c.R.Assume("commands of the model workspace are deterministic", "executions are observed through an O_APPEND trace file written by the commands", "the reference model predicts a hit whenever a successful result for the identical target state was stored earlier in the same history")
		if os.Getenv("VERIF_PART") == "missing-input" { // development aid: this part alone
			c02MissingInput(c)
			return
		}
		// "irrespective of timing": the output hash that decides early cut-off must not depend on the
		// order in which a target's concurrent output writers finish (real Registry under the scheduler)
		defer outOrder(c, "C02")
		histCheck("C02", []string{"C02:"}, 3, 4, func(e *histEngine, thorough bool) {
			e.preOps = preOpNames
			if thorough {
				e.flags = append(e.flags, buildFlags{Pattern: "//...", HashAlgo: "sha256"}, buildFlags{Pattern: "//...", LoadOutputs: "minimal"})
			}
		})(c)
		// a declared input that does not exist, followed by inputs that are edited without changing their size
		c02MissingInput(c)
		// chain workspace: edits x taint; a taint is consumed by whatever execution follows it (also one caused by an edit),
		// afterwards a no-op build executes nothing
		chainCheck("C02", []string{"C02:", "C13:dependant-or-clean-target-executed", "C13:taint-not-consumed-by-successful-execution"}, 5, 6, func(e *chainEngine, thorough bool) {
			e.ops = []chainOp{opEditFirst, opEditY, opTaintY, opBuild}
		})(c)
		if !c.Thorough {
			// quick: one operation deeper from the state after a first `build //...`
			histCheck("C02", []string{"C02:"}, 3, 4, func(e *histEngine, thorough bool) {
				e.prebuilt = true
				e.preOps = preOpNames
			})(c)
		}
	}
}

func init() {
	Registry["C15"] = func(c *Ctx) {
		c.R.Rule = "the C01/C02 history search (13 source edits, 8 workspace pre-state operations, build //... and build //b:top) run by the REAL binary with --load-outputs=minimal; the reference cache model that mode 'all' is checked against (C01/C02) must predict the executed set of every minimal-mode build as well (same commands, same success), every command that executes must observe exactly what a from-scratch build observes of its dependency outputs (//b:top records the bytes, the symlink and the exec bit it reads from //b:app's directory output, which it reaches through //b:app -> alias -> //a:lib; //b:gen runs the restored bin tool), and every output of an executed target equals the from-scratch build. Thorough mixes 'all' and 'minimal' builds inside one history. Second part: the chain workspace x->y->z plus w (output checks) in minimal mode, three no-cache-tag universes, histories of <= 4/5 operations over {edits, grog taint, destroy the checked condition, delete all outputs, build, build --enable-cache=false}, each run under load_outputs=all and under minimal: the exit status and the executed set of every build must be the same in both modes (direct lock-step oracle, also where the reference model makes no prediction), a target that must run although a result is stored (tainted / no-cache / failing check) must find its dependency outputs, the executed set must equal the reference model of mode all. `grog run //b:tool` in lock-step under both modes over the history {run, run again, delete the binary, edit the tool's input, delete binary and dependency output}: same exit status and same output of the tool. Third part (cache faults while dependency outputs are loaded): after a build, all outputs are deleted and the dependant's input is edited, then every subset (quick: size <= 3 and >= n-1) of the cache entries is removed and a minimal-mode build must exit 0 with the dependant's output identical to a from-scratch build. Shared dependency with lost blobs: two dependants that become ready 0.5 s apart, the dependency writes its output in two steps 1 s apart; under both modes every output equals the from-scratch bytes after the build and again after deleting all outputs and building once more."
		c.R.Assume("lock-step is realised through the shared reference model: mode 'all' is compared with the model by C01/C02, mode 'minimal' by this check", "commands of the model workspace are deterministic")
		if os.Getenv("VERIF_PART") == "shared-rerun" { // development aid: this part alone
			c15SharedRerun(c)
			return
		}
		// third part: cache faults while dependency outputs are being loaded (missing cache entries)
		defer missingBlobs(c, "C15", true)
		// ... and the schedule dimension of that: when loading a dependency's outputs fails, the restore must be
		// over before the dependency is re-executed (real Registry.LoadOutputs under the controlled scheduler)
		defer loadQuiescence(c, "C15")
		// `grog run` (a build + the execution of the binary output) in lock-step under both modes
		defer c15RunCommand(c)
		defer c15Triangle(c)
		// one dependency with lost blobs, two dependants that become ready at different times
		defer c15SharedRerun(c)
		// second part: taint / no-cache / failing output check / failures under minimal mode
		defer chainCheck("C15", []string{"C15:"}, 4, 5, func(e *chainEngine, thorough bool) {
			e.relabelMinimal = true
			// mode all first: its observations are the reference of the lock-step oracle
			e.universes = []chainState{{}, {Minimal: true}}
			e.lockstep = map[string]string{}
			e.noCache = []string{"", "x", "y"}
			e.ops = []chainOp{opEditAppend, opEditFirst, opTaintX, opTaintY, markOp("w-destroyed"), opDelOutputs, opBuild, opBuildNoC}
			if thorough {
				e.ops = append(e.ops, markOp("fail-y-exit"))
			}
		})(c)
		// from the state after a first build: one operation deeper (dependency cached, dependant has to run, dependency output absent / stale)
		defer histCheck("C15", []string{"C15:"}, 3, 4, func(e *histEngine, thorough bool) {
			e.prebuilt = true
			e.preOps = []string{"delete-lib-output", "delete-dist-dir", "modify-lib-output", "chmod-minus-x-tool"}
			e.flags = []buildFlags{{Pattern: "//...", LoadOutputs: "minimal"}, {Pattern: "//b:top", LoadOutputs: "minimal"}}
		})(c)
		histCheck("C15", []string{"C15:"}, 3, 4, func(e *histEngine, thorough bool) {
			e.preOps = []string{"delete-lib-output", "delete-dist-dir", "modify-lib-output", "chmod-minus-x-tool"}
			e.flags = []buildFlags{{Pattern: "//...", LoadOutputs: "minimal"}, {Pattern: "//b:top", LoadOutputs: "minimal"}}
			if thorough {
				e.flags = append(e.flags, buildFlags{Pattern: "//...", LoadOutputs: "all"})
			}
		})(c)
	}
}
