package checks

import (
	"fmt"
	"os"
	"os/exec"
	"path/filepath"
	"strings"
	"time"

	"verif/internal/hist"
	"verif/internal/vc"
)

// c19Binary: the query and build commands themselves (cobra Run closures
// included) on ladder workspaces, run by a grog binary built from the sources
// instrumented with function-entry counters. The binary aborts (panic
// "vcount: budget exceeded") as soon as the number of entries of instrumented
// functions exceeds the polynomial bound 8(V+E)(V+1)+64 times a constant for
// the command's fixed overhead; wall-clock time only classifies a hang.
func c19Binary(c *Ctx) {
	ov, _, err := c19Overlay()
	if err != nil {
		c.R.BrokenCheck("c19 overlay: %v", err)
		return
	}
	if err := ov.AddHarness("vcount"); err != nil {
		c.R.BrokenCheck("overlay: %v", err)
		return
	}
	if err := ov.AddContent("c19", "zverif_count_init.go", []byte(`package main

import (
	"os"
	"strconv"

	"grog/internal/zverif/vcount"
)

func init() {
	if v := os.Getenv("VERIF_COUNT_BUDGET"); v != "" {
		n, _ := strconv.ParseInt(v, 10, 64)
		vcount.SetMode(vcount.ModePanic)
		vcount.Reset()
		vcount.SetBudget(n)
	}
}
`)); err != nil {
		c.R.BrokenCheck("overlay: %v", err)
		return
	}
	grog, err := vc.BuildGrog("grog-count", ov)
	if err != nil {
		c.R.BrokenCheck("%v", err)
		return
	}
	if _, err := exec.LookPath("git"); err != nil {
		c.R.Cap("git is not installed: the command-level part (grog changes) is skipped")
		return
	}
	base, cleanup := scratchBase(c, "c19bin")
	defer cleanup()
	type shape struct {
		name         string
		width, depth int
	}
	shapes := []shape{{"ladder 3x14", 3, 14}, {"ladder 2x20", 2, 20}, {"chain of 42", 1, 42}}
	if c.Thorough {
		shapes = append(shapes, shape{"ladder 3x24", 3, 24}, shape{"ladder 4x12", 4, 12}, shape{"chain of 72", 1, 72})
	}
	for _, sh := range shapes {
		// layer 0 is the bottom (owns base.txt); layer i depends on every node of layer i-1
		src := &hist.Source{Files: map[string]hist.File{"p/base.txt": {Content: "base"}}}
		name := func(l, i int) string { return fmt.Sprintf("l%02d_%d", l, i) }
		for l := 0; l < sh.depth; l++ {
			for i := 0; i < sh.width; i++ {
				t := hist.Target{Pkg: "p", Name: name(l, i), Command: "true"}
				if l == 0 {
					t.Inputs = []string{"base.txt"}
					if i == 0 {
						t.Command = `test -z "${VFAIL:-}"` // fails in the runs that set VFAIL
					}
				} else {
					for j := 0; j < sh.width; j++ {
						t.Deps = append(t.Deps, ":"+name(l-1, j))
					}
				}
				src.Targets = append(src.Targets, t)
			}
		}
		v := sh.width * sh.depth
		e := sh.width * sh.width * (sh.depth - 1)
		budget := int64(4 * (8*(v+e)*(v+1) + 64))
		box, err := hist.NewBox(base)
		if err != nil {
			c.R.BrokenCheck("%v", err)
			return
		}
		src.Materialize(box.WS(), nil)
		git := func(args ...string) error {
			cmd := exec.Command("git", append([]string{"-c", "user.email=v@example.com", "-c", "user.name=v", "-c", "init.defaultBranch=main"}, args...)...)
			cmd.Dir = box.WS()
			cmd.Env = append(os.Environ(), "HOME="+filepath.Join(box.Dir, "home"), "GIT_CONFIG_NOSYSTEM=1")
			out, err := cmd.CombinedOutput()
			if err != nil {
				return fmt.Errorf("git %v: %v: %s", args, err, out)
			}
			return nil
		}
		if err := firstErr(git("init", "-q", "."), git("add", "-A"), git("commit", "-q", "-m", "init")); err != nil {
			c.R.BrokenCheck("%v", err)
			box.Remove()
			return
		}
		os.WriteFile(filepath.Join(box.WS(), "p/base.txt"), []byte("base changed"), 0o644)
		top, bottom := "//p:"+name(sh.depth-1, 0), "//p:"+name(0, 0)
		cmds := [][]string{
			{"changes", "--since=HEAD", "--dependents=transitive"},
			{"changes", "--since=HEAD", "--dependents=none"},
			{"deps", "-t", top},
			{"deps", top},
			{"rdeps", "-t", bottom},
			{"rdeps", bottom},
			{"list", "//..."},
			{"owners", "p/base.txt"},
			{"check"},
			{"build", top},
			{"build", "//..."},
			// the same walks with filters that most of the graph does not match, and with the platform check bypassed
			{"rdeps", "-t", "--target-type=test", bottom},
			{"deps", "-t", "--target-type=test", top},
			{"rdeps", "-t", "--tag=nobody-has-this-tag", bottom},
			{"list", "--target-type=test", "//..."},
			{"changes", "--since=HEAD", "--dependents=transitive", "--target-type=test"},
			{"--all-platforms", "build", top},
			{"--all-platforms", "check"},
			// a failing target below the ladder (keep-going): the failure is propagated to its dependants, with the ladder
			// selected and with the ladder NOT selected (only the failing target is built)
			{"VFAIL", "build", "//..."},
			{"VFAIL", "build", bottom},
		}
		for _, args := range cmds {
			env := map[string]string{"VERIF_COUNT_BUDGET": fmt.Sprint(budget)}
			mustFail := false
			if args[0] == "VFAIL" {
				args, mustFail = args[1:], true
				env["VFAIL"] = "1"
				// the bottom layer's input changes, so that it is executed (and fails) instead of being restored
				os.WriteFile(filepath.Join(box.WS(), "p/base.txt"), []byte("base changed again for "+strings.Join(args, " ")), 0o644)
			}
			rr := box.Run(grog, hist.RunOpts{Args: args, Env: env, Ceiling: 120 * time.Second})
			// everything but the labels
			var nameParts []string
			for _, a := range args {
				if !strings.HasPrefix(a, "//") && a != "--since=HEAD" && a != "p/base.txt" {
					nameParts = append(nameParts, a)
				}
			}
			cmdName := strings.Join(nameParts, " ")
			if mustFail {
				cmdName += " (bottom target fails)"
			}
			replay := map[string]any{"workspace": fmt.Sprintf("%s (V=%d, E=%d), git repository with p/base.txt modified", sh.name, v, e), "command": "grog " + strings.Join(args, " "), "budget_function_entries": budget, "exit": rr.Exit, "output_tail": tail(rr.Output, 600)}
			switch {
			case strings.Contains(rr.Output, "vcount: budget exceeded"):
				at := rr.Output[strings.Index(rr.Output, "vcount: budget exceeded"):]
				if i := strings.IndexByte(at, '\n'); i > 0 {
					at = at[:i]
				}
				c.R.Violate(vc.Violation{Sig: "C19:command-exceeds-polynomial-bound:" + cmdName, Detail: fmt.Sprintf("`grog %s` on %s (V=%d, E=%d): more than 4*(8(V+E)(V+1)+64)=%d entries of graph / selection / analysis / query functions (%s)", strings.Join(args, " "), sh.name, v, e, budget, at), Replay: replay})
			case rr.TimedOut:
				c.R.Violate(vc.Violation{Sig: "C19:command-does-not-finish:" + cmdName, Detail: fmt.Sprintf("`grog %s` on %s did not finish within 120 s", strings.Join(args, " "), sh.name), Replay: replay})
			case mustFail && rr.Exit == 0:
				c.R.Violate(vc.Violation{Sig: "C19:build-succeeds-although-a-target-failed:" + cmdName, Detail: fmt.Sprintf("`grog %s` on %s exited 0 although %s fails", strings.Join(args, " "), sh.name, bottom), Replay: replay})
			case rr.Exit != 0 && !mustFail:
				c.R.Violate(vc.Violation{Sig: "C19:command-fails-on-ladder:" + cmdName, Detail: fmt.Sprintf("`grog %s` on %s exited %d: %s", strings.Join(args, " "), sh.name, rr.Exit, tail(rr.Output, 300)), Replay: replay})
			}
			c.R.AddCounts(1, 1, 1, 1)
			c.R.Outcome(fmt.Sprintf("binary|%s|exit=%d", cmdName, rr.Exit))
			if sh.width > 1 {
				c.R.Nontrivial("binary|" + sh.name + "|" + strings.Join(args, " "))
			}
		}
		box.Remove()
	}
}

func firstErr(errs ...error) error {
	for _, e := range errs {
		if e != nil {
			return e
		}
	}
	return nil
}
