package checks

import (
	"fmt"
	"os"

	"verif/internal/instr"
	"verif/internal/vc"
)

func init() {
	schedFiles["internal/locking/workspace_locker.go"] = instr.SchedConfig{
		OsShim:       "grog/internal/zverif/vlockos",
		Replace:      map[string]string{"processRunning(otherPid)": "os.ProcessRunning(otherPid)", "tryLockFile(file)": "os.TryLockFile(file)"},
		ExtraImports: map[string]string{},
	}
	Registry["C10"] = func(c *Ctx) {
		c.R.Rule = "scenario = (2 or 3 virtual processes, pre-existing lock file in {none, empty, garbage, dead pid, live foreign pid that later dies}, optionally one crash); each process runs the REAL WorkspaceLocker.Lock / critical section / Unlock on one real lock file; every os call of workspace_locker.go is a scheduling point followed by the real system call; all choice sequences with <= d deviations (a crash of a process before any of its file-system steps is a deviation). Non-trivial = at least one process acquired the lock; distinct (scenario, outcome) pairs are counted. Process half (REAL binary, one workspace): build A holds the workspace (its last command waits for a marker), then {nothing, A runs with GOGC=1, `grog clean`, `grog clean --expunge`, A is killed with SIGKILL while its command's shell lives on}, then build B starts: B's command never starts while A's is running (a violation only when the overlap is observed in the trace), B acquires the lock once A released it / is dead. Three processes: A's output goes to a 4 KiB pipe whose reader stops for 3 s once it has seen A's summary line (A sits in a write between the end of its execution and its exit), B has been waiting since A's command ran, C starts after A exited: no two commands overlap in the trace, every waiter acquires."
		c.R.Assume("pids and process liveness come from a virtual process table; the file system is real (tmpfs)", "PID reuse is not modelled", "the 1 s retry timer runs on the bubble's fake clock; 'never acquires' = still waiting after 6 clock advances with nothing else runnable")
		// process half first (real grog processes on one workspace): it does not depend on the instrumented build
		if os.Getenv("VERIF_PART") == "stalled-holder" { // development aid: this part alone
			c10StalledHolder(c)
			return
		}
		c10Processes(c)
		c10StalledHolder(c)
		ov := schedOverlay(c, "sched-c10", []string{"internal/locking/workspace_locker.go"}, []string{"vlockos", "c10"})
		if ov == nil {
			return
		}
		bin, err := vc.BuildHarnessTest("c10", ov, "c10", false)
		if err != nil {
			c.R.BrokenCheck("%v", err)
			return
		}
		bound, budget := 3, 50
		if c.Thorough {
			bound, budget = 4, 540
		}
		env := map[string]string{"VERIF_TIER": c.Tier, "VERIF_BOUND": fmt.Sprint(bound), "VERIF_BUDGET_S": fmt.Sprint(budget), "GOMAXPROCS": "1"}
		shards := 16
		if c.Thorough {
			// bound 4 needs more memory than a shard's ceiling allows (goroutines of abandoned executions are never
			// freed): four times as many shards, 16 at a time, each with a quarter of the level-1 subtrees
			shards = 64
		}
		vc.RunHarnessShards(c.R, vc.HarnessRun{Bin: bin, Env: env, Tag: "c10"}, shards, 16)
	}
}
