package checks

import (
	"verif/internal/instr"
	"verif/internal/vc"
)

// exportLoadingInternalsC16 adds a file to package grog/internal/loading (through
// the overlay only) that exposes the unexported enrichment step to the harness.
func exportLoadingInternalsC16(ov *vc.Overlay) error {
	return ov.AddContent("exports-c16", "internal/loading/zverif_export_c16.go", []byte(`package loading

import (
	"grog/internal/console"
	"grog/internal/model"
)

// VerifC16EnrichPackage exposes getEnrichedPackage to the verification harness (overlay only).
func VerifC16EnrichPackage(logger *console.Logger, packagePath string, pkg PackageDTO) (*model.Package, error) {
	return getEnrichedPackage(logger, packagePath, pkg)
}
`))
}

func init() {
	Registry["C16"] = func(c *Ctx) {
		c.R.Rule = "(a) package definitions = 2 base definitions (minimal single target in the root package; rich two-target package p with every field set) x every assignment of <=2 (quick) / <=3 (thorough) of 16 fields (name, command, dependencies, inputs, exclude_inputs, outputs, bin_output, output_checks, tags, fingerprint, platforms, environment_variables, timeout, aliases, default_platforms, extra target) to any value of that field's domain (78 values in total: absent / empty / one / two values / documented forms such as ':x', '//p:y', shorthand '//p', 'src/*.txt', '**/*.txt', 'dir::d', multi-line and quote-laden commands / one invalid value per validated field); each definition is rendered to BUILD.json, BUILD.yaml, BUILD.star and - when it has no package-level parts - as its `make <goal>` twin to BUILD.json + Makefile '# @grog' annotations (goal name = target name, and explicit 'name:' with another goal name; each with a bare rule line 'goal:', with prerequisites 'goal: lib.o main.c' and with order-only prerequisites 'goal: | gen_dir'), and loaded by the real PackageLoader.LoadIfMatched + getEnrichedPackage in a scratch package containing the files the globs refer to. A definition is non-trivial when it was loaded through at least two formats (the renderings are different texts by construction). (b) six seed files (BUILD.json, BUILD.yaml, BUILD.star, BUILD.star using load(), Makefile with two annotated goals, s.grog.sh with an annotation header) x every single edit: each offset x {delete, replace by / insert each of the 16 bytes # : @ LF { } quote [ , space - ( ) = a NUL}, every truncation, every line deleted / duplicated / swapped with its successor; plus every node of a rich package tree replaced by each of null, [], {}, empty string, 0, true, [null], {a: null} in JSON, YAML and (inside target()/alias() arguments) Starlark; thorough adds every pair of single edits on five tiny seeds (16-26 bytes, one per loader). A corrupted file is non-trivial when it differs from its seed (results identical to the seed are not loaded; identical results are loaded once). (c') LoadPackages + BuildNodeMapFromPackages + BuildGraph (the steps of MustLoadGraphForBuild) on on-disk workspaces of 4 BUILD files (a/BUILD.json + a/BUILD.yaml that must merge, b/BUILD.star, c/Makefile), 5 scenarios (disjoint; duplicate target / alias / alias-vs-target in either file across the two same-directory files) x both creation orders of the two files (raw directory order recorded) x NumWorkers 1,2,3,8 x 5 (quick) / 40 (thorough) repetitions: identical package set for the valid workspace, rejection in every run for the duplicates. Nested packages whose globs reach the same files under different relative names (//p: q/**/*.txt, //p/q: **/*.txt, //p/q/r: *.txt), worker counts 1/2/3/8 x repetitions x three creation orders: every target's resolved inputs are relative to its own package and complete. A workspace of 300 packages with one malformed BUILD file (root BUILD.json, zz/BUILD.json, root BUILD.star), workers 1/2/8: LoadPackages returns an error (no hang, no success). Same-directory BUILD files include the cases in which one of the two files defines aliases only."
		c.R.Assume(
			"Pkl loader excluded: it needs the external `pkl` binary, which is not installed",
			"JSON is the reference rendering; YAML/Starlark/Makefile results are compared against it field by field (labels, command, resolved inputs as a set, outputs, bin output, dependencies, tags, fingerprint, platforms, timeout, output checks, environment, aliases); SourceFilePath ignored; nil and empty collections are the same value",
			"Makefile annotations are compared only on the fields the property statement lists (labels, command `make <goal>`, resolved inputs after excludes, outputs, dependencies, tags, fingerprint, platforms, timeout); docs/build-configuration.mdx says everything between '# @grog' and the goal is the YAML target configuration, so a listed field that is silently dropped is reported as makefile:field-dropped:<field>; environment_variables / bin_output / output_checks in annotations are only counted, not judged",
			"default_platforms cannot be written in BUILD.star (no builtin sets it): such definitions are not rendered to Starlark (counted as starlark_inexpressible)",
			"part (c): loading.LoadPackages runs under the controlled scheduler with the directory walker replaced by one that delivers the files in a scheduler-chosen order (any permutation = one deviation); workspaces with three BUILD-defining files in one package (JSON, YAML, Makefile), a duplicate target across files and an alias/target clash across files, 2 and 3 workers, all schedules with <= 2 (quick) / 3 (thorough) deviations: identical verdict and node set in every execution, duplicates rejected in every order, and no access to the shared package map without the common lock (lockset discipline)",
			"hang ceiling 30 s per loaded file is used only to classify a hang",
		)
		ov := vc.NewOverlay()
		if err := exportLoadingInternalsC16(ov); err != nil {
			c.R.BrokenCheck("%v", err)
			return
		}
		simpleHarnessOv(c, ov, "c16", "c16", nil, nil, 16)
		c16Sched(c)
	}
}

// c16Sched: design part (c) — LoadPackages under the controlled scheduler.
func c16Sched(c *Ctx) {
	schedFiles["internal/loading/load.go"] = instr.SchedConfig{
		ChanRanges:    []string{"fileListQueue"},
		ImportRewrite: map[string]string{"github.com/boyter/gocodewalker": "grog/internal/zverif/vwalker"},
		Access:        map[string]string{"loadedPackages[": "LoadPackages.loadedPackages", "mergePackages(": "LoadPackages.loadedPackages!w"},
	}
	ov := schedOverlay(c, "sched-c16", []string{"internal/loading/load.go"}, []string{"vwalker", "c16sched"})
	if ov == nil {
		return
	}
	bin, err := vc.BuildHarnessTest("c16sched", ov, "c16sched", false)
	if err != nil {
		c.R.BrokenCheck("%v", err)
		return
	}
	bound, budget := "2", "25"
	if c.Thorough {
		bound, budget = "3", "300"
	}
	vc.RunHarnessShards(c.R, vc.HarnessRun{Bin: bin, Env: map[string]string{"VERIF_TIER": c.Tier, "VERIF_BOUND": bound, "VERIF_BUDGET_S": budget, "GOMAXPROCS": "1"}, Tag: "c16sched"}, 8, 8)
}
