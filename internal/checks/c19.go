package checks

import (
	"os"
	"path"
	"path/filepath"
	"sort"
	"strings"

	"verif/internal/instr"
	"verif/internal/vc"
)

// c19Packages: every non-test file of these packages is instrumented with
// entry counters (graph algorithms, selection, analysis).
var c19Packages = []string{"internal/dag", "internal/selection", "internal/analysis"}

// c19Files: further single files (query commands; only their helper functions
// are reachable without the cobra Run closures).
var c19Files = []string{"internal/cmd/cmds/deps.go", "internal/cmd/cmds/rdeps.go", "internal/cmd/cmds/changes.go"}

func c19Overlay() (*vc.Overlay, []string, error) {
	ov := vc.NewOverlay()
	files := append([]string{}, c19Files...)
	for _, dir := range c19Packages {
		ents, err := os.ReadDir(filepath.Join(vc.RepoDir, dir))
		if err != nil {
			return nil, nil, err
		}
		for _, e := range ents {
			if e.IsDir() || !strings.HasSuffix(e.Name(), ".go") || strings.HasSuffix(e.Name(), "_test.go") {
				continue
			}
			files = append(files, path.Join(dir, e.Name()))
		}
	}
	sort.Strings(files)
	for _, rel := range files {
		// SourceFor: a mutant supplied through VERIF_EXTRA_OVERLAY is instrumented too
		b, err := instr.InstrumentCounts(vc.SourceFor(rel), "grog/"+path.Dir(rel))
		if err != nil {
			return nil, nil, err
		}
		if err := ov.AddContent("c19", rel, b); err != nil {
			return nil, nil, err
		}
	}
	// exports (overlay only): unexported helpers the harness drives directly
	exports := map[string]string{
		"internal/dag/zverif_export_c19.go": `package dag

// VerifAbort cancels every node routine synchronously so that a Walk whose
// failure propagation was aborted by the operation budget can return.
func (w *Walker) VerifAbort() {
	for _, node := range w.graph.nodes {
		w.cancelNode(node)
	}
}
`,
		"internal/analysis/zverif_export_c19.go": `package analysis

import "grog/internal/dag"

// VerifDetectOutputConflicts exposes detectOutputConflicts (overlay only).
func VerifDetectOutputConflicts(graph *dag.DirectedTargetGraph) error {
	return detectOutputConflicts(graph)
}
`,
		"internal/cmd/cmds/zverif_export_c19.go": `package cmds

// VerifContainsFile exposes containsFile of changes.go (overlay only).
func VerifContainsFile(files []string, file string) bool { return containsFile(files, file) }
`,
	}
	for rel, src := range exports {
		if err := ov.AddContent("c19", rel, []byte(src)); err != nil {
			return nil, nil, err
		}
	}
	return ov, files, nil
}

func init() {
	Registry["C19"] = func(c *Ctx) {
		c.R.Rule = "graph families: every DAG on <=5 (quick) / <=6 (thorough) nodes (all subsets of the edges i->j, i<j), ladders (layered complete-bipartite) of width 2 and 3 and depth 1..12 / 1..16, dense DAGs (all i<j edges) on 2..14 nodes, chains with the node count of every ladder and dense DAG. Operations (each on a fresh graph, through the real code instrumented with function-entry counters): SelectTargetsForBuild of the sinks, GetDescendants(source), GetAncestors(sink), failure propagation (Walker.Walk, source fails, failFast=false), BuildGraph, cycle detection, output-conflict detection, and the graph part of deps -t / rdeps -t / changes --dependents=transitive. Command level: the REAL binary built from the same instrumented sources runs changes --dependents=transitive|none, deps [-t], rdeps [-t], list, owners, check, build <top> and build //..., the transitive queries with --target-type / --tag filters that nothing matches, and build / check with --all-platforms on ladder workspaces (3x14, 2x20; thorough 3x24, 4x12) and chains inside a git repository whose bottom-layer input is modified; the process aborts as soon as the number of counted function entries exceeds 4*(8(V+E)(V+1)+64). An evaluation is one (operation, graph) pair. A graph is non-trivial when some node has at least two distinct paths to another node (it contains a diamond). The command-level part also builds with a failing bottom target (keep-going), once with the ladder selected and once with only the failing target selected (its dependants unselected)."
		c.R.Assume(
			"cost = number of entries of instrumented functions and of the bodies of their for / range loops (all functions of internal/dag, internal/selection, internal/analysis and the helpers of cmds/deps.go, rdeps.go, changes.go); wall-clock time is never measured",
			"polynomial bound: calls(f,G) <= 8*(V+E)*(V+1)+64; chain comparison: calls(f,G) <= 4*calls(f, chain with the same node count) + 8*(V+E) for ladders and dense DAGs",
			"the cobra Run closures of deps/rdeps/changes (logger.Fatalf/os.Exit, git) are not invoked; the harness repeats their graph part call by call (GetAncestors/GetDescendants, containsFile matching, de-duplication, Selector.FilterNodes)",
			"Walk: callbacks of dependency-free nodes wait until every node routine has been registered (avoids the unrelated lost wake-up in Walker.Walk, property C04)",
		)
		ov, files, err := c19Overlay()
		if err != nil {
			c.R.BrokenCheck("c19 overlay: %v", err)
			return
		}
		c.R.Set("instrumented_files", files)
		simpleHarnessOv(c, ov, "c19", "c19", []string{"vcount"}, nil, 1)
		c19Binary(c)
	}
}
