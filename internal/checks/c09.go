package checks

import "verif/internal/vc"

func init() {
	Registry["C09"] = func(c *Ctx) {
		c.R.Rule = "families of target states, one per boundary between adjacent components of the hashed byte stream (every split of every string of <=N chars over {a , = :}), per list separator, per permutation of <=4 inputs / <=3 outputs / <=3 dep digests / <=4 fingerprint insertions, per environment dimension; each state is hashed by the real GetTargetChangeHash / TargetHasher under xxh3 and sha256. A family is non-trivial when it contains at least two different canonical states; every distinct canonical state of such a family is counted. Inputs that are symbolic links (both of two adjacent inputs / the first one) in the file-boundary families. The output hash of a no-cache target (Registry.GetNoCacheOutputHash, the registry's own locks as scheduling points) under every completion order of its hash tasks. Whatever order the writers of WriteOutputs finished in, the stored result passes the validation that loading applies."
		c.R.Assume("a collision counts only if it reproduces under both xxh3 and sha256 (encoding collision, not hash accident)", "canonical state = (label, command, set of (input path, content|missing), sorted declared outputs, sorted dep digests, fingerprint entries, platform unless multiplatform-cache)")
		ov := vc.NewOverlay()
		if err := exportOutputHash(ov); err != nil {
			c.R.BrokenCheck("%v", err)
			return
		}
		simpleHarnessOv(c, ov, "c09", "c09", nil, nil, 1)
		// independence from scheduling: the real Registry.WriteOutputs under every completion order of its writers
		outOrder(c, "C09")
	}
}
