package checks

import "os"

func init() {
	Registry["C12"] = func(c *Ctx) {
		common := "Every configuration (graph x invocation) of the families below goes through the real analysis.BuildGraph + selection.New(...).SelectTargetsForBuild twice (fresh node objects, opposite node-map insertion orders) and is compared with a reference selector written from the statement and the docs. " +
			"Graphs: node i is a target depending on any subset of the lower-numbered nodes (targets or aliases) or an alias of any lower-numbered node; all graphs of every size up to the bound are enumerated (all DAG shapes, diamonds, alias chains, aliases as dependencies), labels distinct. Host platform os/p or os/q; target platforms are os/p, os/q. " +
			"Families: " +
			"[structure<=4, and the same with the label order reversed] 1..4 nodes, node i labelled //:x, //a:a, //a/b:b, //ab:y (a 5th would be //a:b), each target with one profile of {plain, tags[x], platforms[os/q], tags[x]+platforms[os/q], test target named xtest}; 32 invocations = pattern sets {//... | //a/... | //a:all //ab:y | :x //a/b from the root package} x --tag {none,x} x build/test x --all-platforms off/on, host os/p. " +
			"[patterns<=2] 1..2 nodes, every label of {'',a,a/b,ab} x {x,y,a,b,xtest}, no tags/platforms; 228 invocations = all 114 pattern sets of size 1..2 over {//a:x, //a/b:b, //:xtest, //a/..., //..., //a:all, //a:..., //a, //a/b, //...:x, //a/...:x, and relative :x from each of the 4 current packages} x build/test. " +
			"[filters<=2] 1..2 nodes, node0 in {//a:x, //a:xtest}, node1 in {//a/b:b, //a/b:xtest}, every tags subset of {x,y} x platforms in {none,[p],[q],[p,q]}; 144 invocations = patterns {//..., //a/b:all, //a:all} x (tags,exclude-tags) in {(-,-),(x,-),(y,-),(x y,-),(-,y),(x,y)} x build/test x host p/q x --all-platforms off/on. "
		if c.Thorough {
			common += "Thorough replaces structure<=4 (original label order) by 6 profiles (adds tags[y]) and 64 invocations ((tags,exclude) in {(-,-),(x,-),(-,y),(x,y)}), and adds: [structure=5] all 5-node graphs (5th label //a:b) with profiles {plain, tags[x], platforms[os/q], test target xtest}, 16 invocations ({//..., //a/...} x --tag {none,x} x build/test x --all-platforms off/on); [patterns=3] all 3-node graphs over the 20 labels x the 15 single patterns, build; [filters=3] all 3-node graphs on //a:x, //a/b:b, //:y with every tags x platforms value x the 72 build invocations of filters<=2. "
		}
		c.R.Rule = common + "A configuration is non-trivial when the reference demands an error (a target that has to be built has a platform-incompatible transitive dependency) or demands at least one selected target while at least one other target must stay unselected. Outcomes = distinct (set of selected target labels | error). Host platform os/pq with selectors os/p (a strict prefix of the host platform is not a match)."
		c.R.Assume(
			"a test target is one whose name ends in 'test' (model.Target.IsTest); only the names x,y,a,b (non-test) and xtest (test) occur",
			"several --tag values mean any-of (topics/querying.mdx); --exclude-tag removes a target only as a root, never as a dependency (statement)",
			"an alias matched by a pattern makes the target it resolves to a root when that target passes the tag, exclude-tag, test and platform filters (reference/target-aliases.mdx: building an alias builds the aliased target). When the aliased target fails a filter neither statement nor docs define the result: selecting it with its closure, not selecting it, or an error caused by its platform incompatibility are all accepted and only counted (undefined_alias_root/*); whatever is selected must still be dependency-closed and platform-compatible",
			"IsSelected of alias nodes and the platformSkipped count are not judged; after an error only the fact of the error is judged (RunBuild aborts before executing anything)",
			"the walker-level fact 'only IsSelected nodes run' (C03/C04 harnesses) and the real-binary slice of DESIGN.md are outside this check",
		)
		shards := 16
		if os.Getenv("VERIF_REPLAY") != "" {
			shards = 1
		}
		simpleHarness(c, "c12", "c12", nil, nil, shards)
	}
}
