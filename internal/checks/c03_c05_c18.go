package checks

func init() {
	Registry["C03"] = func(c *Ctx) {
		c.R.Rule = "scenario = (graph of <=4 nodes incl. alias / unselected node, <=1 failing target, num_workers in {1,2}); the real dag.Walker + real TaskWorkerPool run under the controlled scheduler for EVERY choice sequence with <= d deviations; on every execution: a command starts only after all transitive dependencies ended successfully, no command starts twice, running commands <= num_workers. Non-trivial = at least one command ran; distinct (scenario, observable trace) pairs are counted."
		c.R.Assume("commands are stubs with one scheduling point between start and end (latency = any number of other steps, including zero)", "scheduling points at every lock / once / wait / channel operation / select / close / goroutine start of graph_walker.go and task_worker_pool.go", "interleavings beyond the deviation bound are not covered; hashing / output-loading mutexes are covered by the second harness (mutexmap)")
		walkCheck("C03", []string{"C03:", "C12:"}, 2, 3)(c)
	}
	Registry["C05"] = func(c *Ctx) {
		c.R.Rule = "scenario = (graph of <=4 nodes, non-empty set of failing targets (<=1 quick, <=2 thorough), keep-going or fail-fast, num_workers); real Walker + pool under every choice sequence with <= d deviations; oracles: keep-going executes exactly selected minus (failed and their descendants), every failure is in the completion map, with fail-fast no command starts after the failing node's routine recorded the failure. The 'never cached' half is decided by the history part (real binary)."
		c.R.Assume("commands are stubs; a stub does not start under a cancelled context (like exec.CommandContext)")
		walkCheck("C05", []string{"C05:"}, 2, 3)(c)
	}
}

func init() {
	Registry["C18"] = func(c *Ctx) {
		c.R.Rule = "scenario = (graph of <=4 nodes, optional failing target, fail-fast, num_workers) plus one external cancel event (what SIGINT/SIGTERM trigger via SetupCommand's context) delivered by a dedicated goroutine at ANY scheduling point; real Walker + pool under every choice sequence with <= d deviations; oracles: Walk returns, no command starts after the cancel was delivered, an interrupt with unfinished targets surfaces as an error. Non-trivial = at least one command ran."
		c.R.Assume("the signal is modelled as cancellation of the root context (console.SetupCommand does exactly that on SIGINT/SIGTERM)", "commands are stubs that, like exec.CommandContext, do not start under a cancelled context and are killed when it is cancelled")
		walkCheck("C18", []string{"C18:", "C04:walk-never-returns", "C04:panic"}, 2, 3)(c)
	}
}
