package checks

import (
	"fmt"
	"os"
	"path/filepath"
	"strings"
	"sync"

	"verif/internal/hist"
	"verif/internal/vc"
)

func init() {
	Registry["C03"] = func(c *Ctx) {
		c.R.Rule = "Pool alone: the real TaskWorkerPool driven directly by 2-4 callers on 1-2 workers with no stop / an interrupt / a task that cancels when it ends / a direct Shutdown (plus early-clock-tick variants when callers wait in the queue), every schedule with <= 3 (quick; bound 2 complete) / 4 deviations: no panic, never more than num_workers tasks running, no task twice, Run returns its own task's result, at most 2*num_workers already accepted jobs (queue + one per worker) start after Shutdown returned. scenario = (graph of <=4 nodes incl. alias / unselected node, <=1 failing target, num_workers in {1,2}); the real dag.Walker + real TaskWorkerPool run under the controlled scheduler for EVERY choice sequence with <= d deviations; on every execution: a command starts only after all transitive dependencies ended successfully, no command starts twice, running commands <= num_workers. Non-trivial = at least one command ran; distinct (scenario, observable trace) pairs are counted. Second part (real binary): histories of <= 3/4 operations over {edit, taint, build} on the chain workspace in load_outputs all and minimal with the no-cache tag on nobody / x / y: no command appears twice in the trace of one build. Per-target locks: the real maps.MutexMap alone, 2-3 goroutines x 1-2 rounds on one name (and a second name), mutex and atomic operations as scheduling points, <= 3/5 deviations: never two holders, Unlock never fails, nobody waits forever. Declared edges (real binary): a target depending on two same-named targets of different packages / on a target and an alias / twice on one target starts after every dependency's command has ended. Worker bound (real binary): load_outputs minimal / all, num_workers 1 / 2, one or two command-less dependants (cache misses) of a dependency whose blobs are evicted while every worker runs a long command: the number of commands between their own start and end trace lines never exceeds num_workers."
		c.R.Assume("commands are stubs with one scheduling point between start and end (latency = any number of other steps, including zero)", "scheduling points at every lock / once / wait / channel operation / select / close / goroutine start of graph_walker.go and task_worker_pool.go", "interleavings beyond the deviation bound are not covered; hashing / output-loading mutexes are covered by the second harness (mutexmap)")
		if os.Getenv("VERIF_PART") == "worker-bound" { // development aid: this part alone
			c03WorkerBound(c)
			return
		}
		walkCheckBudget("C03", []string{"C03:", "C12:"}, 2, 3, 40, 420)(c)
		// the pool alone (small driver, deviation bound 3 / 4): never more than num_workers tasks, no task twice
		poolCheck(c, "C03", []string{"C03:"})
		// the per-target locks that make "each target once" hold for the hasher and the output registry
		mutexMapCheck(c, "C03", []string{"C03:", "C04:"})
		c03DeclaredEdges(c)
		c03WorkerBound(c)
		// "each selected target is executed at most once per build" with the real binary: the chain
		// workspace in both load_outputs modes and all no-cache-tag universes (a no-cache dependency
		// must not be executed again by each executing dependant)
		chainCheck("C03", []string{"C03:"}, 3, 4, func(e *chainEngine, thorough bool) {
			e.universes = []chainState{{}, {Minimal: true}}
			e.noCache = []string{"", "x", "y"}
			e.ops = []chainOp{opEditFirst, opTaintY, opBuild}
		})(c)
	}
	Registry["C05"] = func(c *Ctx) {
		c.R.Rule = "two halves. Schedules: scenario = (graph of <=4 nodes, non-empty set of failing targets (<=1 quick, <=2 thorough), keep-going or fail-fast, num_workers); real Walker + pool under every choice sequence with <= d deviations; keep-going executes exactly selected minus (failed and their descendants), every failure is in the completion map, with fail-fast no command starts after the failing node's routine recorded the failure. Histories: breadth-first search over histories of <= n operations from {make //p:x or //p:y fail (exit code, a failing statement that is not the command's last one, missing declared output), remove the failure, grog taint, grog build, grog build --fail-fast} with the REAL binary on the chain workspace x->y->z: dependants of a failed target are not executed, independent targets are, grog exits non-zero naming the failed targets, and a failed target leaves no cache entry (the follow-up build attempts it and its dependants again). Non-trivial = at least one command ran / a build executed some but not all targets. Failing re-run (real binary, both modes): a dependency that is a cache hit with lost blobs is re-run and exits 0 without its declared output while two dependants are cache misses: non-zero exit, neither dependant's command starts, and the follow-up build (condition restored) executes them and produces the from-scratch outputs."
		c.R.Assume("commands of the schedule half are stubs; a stub does not start under a cancelled context (like exec.CommandContext)", "failures of the history half are driven by marker files outside the declared inputs (an external condition), so the failing and the succeeding attempt have the same cache key")
		if os.Getenv("VERIF_PART") == "failing-rerun" { // development aid: this part alone
			c05RerunFails(c)
			return
		}
		walkCheckBudget("C05", []string{"C05:"}, 2, 3, 25, 400)(c)
		c05RerunFails(c)
		chainCheck("C05", []string{"C05:", "C04:build-hangs"}, 5, 6, func(e *chainEngine, thorough bool) {
			e.universes = []chainState{{}, {Queue: true}}
			e.ops = []chainOp{markOp("fail-y-exit"), markOp("fail-x-exit"), markOp("fail-y-noout"), markOp("fail-y-mid"), markOp("fail-d-nodir"), opTaintY, opBuild, opBuildFF}
			if thorough {
				e.ops = append(e.ops, markOp("fail-y-timeout"), opEditY, markOp("w-self-destroy"), opEditFirst)
			}
		})(c)
		// quick tier only: the failure that the command itself causes after the pre-run checks passed (in the alphabet
		// of the thorough search above) on its own short alphabet, so that it is part of every quick run
		if !c.Thorough {
			chainCheck("C05", []string{"C05:"}, 4, 4, func(e *chainEngine, thorough bool) {
				e.universes = []chainState{{}}
				e.ops = []chainOp{markOp("w-self-destroy"), markOp("w-destroyed"), opBuild}
			})(c)
		}
	}
}

func init() {
	Registry["C18"] = func(c *Ctx) {
		c.R.Rule = "Pool alone: the real TaskWorkerPool driven directly by 2-4 callers on 1-2 workers with no stop / an interrupt / a task that cancels when it ends / a direct Shutdown (plus early-clock-tick variants when callers wait in the queue), every schedule with <= 3 (quick; bound 2 complete) / 4 deviations: no panic, never more than num_workers tasks running, no task twice, Run returns its own task's result, at most 2*num_workers already accepted jobs (queue + one per worker) start after Shutdown returned. scenario = (graph of <=4 nodes, optional failing target, fail-fast, num_workers) plus one external cancel event (what SIGINT/SIGTERM trigger via SetupCommand's context) delivered by a dedicated goroutine at ANY scheduling point; real Walker + pool under every choice sequence with <= d deviations; oracles: Walk returns, no command starts after the cancel was delivered, an interrupt with unfinished targets surfaces as an error. Non-trivial = at least one command ran. Process half (real binary, real signals): a workspace with num_workers=1, five short targets and a directory-output target; a fault-free run of the instrumented binary logs every instance of every file-system call site from loading to shutdown; for every instance (quick: <= 3 per call site, alternating SIGINT/SIGTERM; thorough: every instance with both signals) the process sends the signal to itself exactly there and writes a marker into the command trace: grog must exit within 60 s, at most one queued command may still start after the marker, the exit status is non-zero when targets were unfinished, the cache holds no more target results than commands that finished and passes the offline audit (no result referencing a blob that was not stored), and an uninstrumented follow-up build acquires the (stale) lock, exits 0 and produces the outputs of a from-scratch build. Finally the running command itself interrupts grog (SIGINT/SIGTERM, with and without a shell that traps the signals): non-zero exit, dependant not started, no cache entry, and the shell does not survive (it would create a marker file 2 s later). A command that leaves a long-lived child behind when interrupted does not delay the next build. A build that is still waiting for the workspace lock exits non-zero on SIGINT / SIGTERM without starting a command. A dependency that is re-run inside its dependant's task (load_outputs=minimal, blobs lost) and interrupts grog is terminated like any other command. The signal is also delivered in the middle of a slow cache write (the goroutine at an fs.go call site stays there for 20 s while grog exits), and every follow-up is two builds: the second one after all outputs were deleted must restore the bytes of a from-scratch build. `grog test`: a running test (it exits 1 when it runs to its end) interrupts grog with SIGINT / SIGTERM: non-zero exit, not reported as passed, no cache entry, and the next `grog test` runs it again."
		c.R.Assume("the signal is modelled as cancellation of the root context (console.SetupCommand does exactly that on SIGINT/SIGTERM)", "commands are stubs that, like exec.CommandContext, do not start under a cancelled context and are killed when it is cancelled")
		walkCheckBudget("C18", []string{"C18:", "C04:walk-never-returns", "C04:panic"}, 2, 3, 35, 400)(c)
		// the pool alone: after Shutdown has returned at most the already accepted jobs (queue + one per worker) may still start
		poolCheck(c, "C18", []string{"C18:", "C04:panic"})
		c18Signals(c)
		// a signal while the build is still waiting for the workspace lock held by another build
		lockWaiterInterrupted(c)
	}
}

// c03DeclaredEdges: "dependencies first" from the BUILD files down (the walk harness builds its graphs through
// the dag API): a target that depends on two targets with the SAME NAME in different packages, on a target and
// on an alias of another one, and twice on the same target; the slow dependency is listed last. The dependant's
// command must start after every dependency's command has ended (trace written by the commands themselves).
func c03DeclaredEdges(c *Ctx) {
	grog, err := vc.BuildGrog("grog", nil)
	if err != nil {
		c.R.BrokenCheck("%v", err)
		return
	}
	base, cleanup := scratchBase(c, "c03edges")
	defer cleanup()
	slow := traceStart + "\nsleep 0.5\nprintf slow > lib.txt\necho \"end $GROG_TARGET\" >> \"$VTRACE\""
	fast := traceStart + "\nprintf fast > lib.txt\necho \"end $GROG_TARGET\" >> \"$VTRACE\""
	type variant struct {
		name string
		deps []string
	}
	for _, v := range []variant{
		{"same name in two packages, slow one listed last", []string{"//a:lib", "//b:lib"}},
		{"same name in two packages, slow one listed first", []string{"//b:lib", "//a:lib"}},
		{"target and alias of the same-named other one", []string{"//a:lib", "//b:al"}},
		{"the fast dependency listed twice, then the slow one", []string{"//a:lib", "//a:lib", "//b:lib"}},
	} {
		src := &hist.Source{Files: map[string]hist.File{}, Toml: "num_workers = 4\n"}
		src.Targets = append(src.Targets,
			hist.Target{Pkg: "a", Name: "lib", Outputs: []string{"lib.txt"}, Command: fast},
			hist.Target{Pkg: "b", Name: "lib", Outputs: []string{"lib.txt"}, Command: slow},
			hist.Target{Pkg: "app", Name: "app", Deps: v.deps, Outputs: []string{"app.txt"}, Command: traceStart + "\ncat ../a/lib.txt ../b/lib.txt > app.txt\necho \"end $GROG_TARGET\" >> \"$VTRACE\""})
		src.Aliases = append(src.Aliases, hist.Alias{Pkg: "b", Name: "al", Actual: ":lib"})
		box, err := hist.NewBox(base)
		if err != nil {
			c.R.BrokenCheck("%v", err)
			return
		}
		src.Materialize(box.WS(), nil)
		rr := box.Run(grog, hist.RunOpts{Args: []string{"build", "//..."}, Ceiling: 60e9})
		replay := map[string]any{"workspace": v.name, "dependencies_of_app": v.deps, "exit": rr.Exit, "trace": rr.Trace, "grog_output_tail": tail(rr.Output, 500)}
		pos := map[string]int{}
		for i, l := range rr.Trace {
			pos[l] = i + 1
		}
		for _, dep := range []string{"//a:lib", "//b:lib"} {
			if pos["start //app:app"] != 0 && (pos["end "+dep] == 0 || pos["end "+dep] > pos["start //app:app"]) {
				c.R.Violate(vc.Violation{Sig: "C03:started-before-dependency-finished", Detail: fmt.Sprintf("%s: //app:app (dependencies %v) started before %s had finished; trace %v", v.name, v.deps, dep, rr.Trace), Replay: replay})
			}
		}
		if rr.Exit != 0 {
			c.R.Violate(vc.Violation{Sig: "C03:build-with-same-named-dependencies-fails", Detail: fmt.Sprintf("%s: grog exited %d: %s", v.name, rr.Exit, tail(rr.Output, 300)), Replay: replay})
		}
		c.R.AddCounts(1, 1, 1, 1)
		c.R.Outcome("declared-edges|" + v.name)
		c.R.Nontrivial("declared-edges|" + v.name)
		box.Remove()
	}
}

// c03WorkerBound: "never more than num_workers commands at once" with the real binary where a command is NOT started
// by its own target's task: under load_outputs=minimal a dependant that is a cache miss re-runs a dependency whose
// blobs are gone, inside its own task. The dependants here are command-less grouping targets (one or two of them),
// every worker is busy with a long command at that moment. The commands write start / end lines themselves; the
// number of commands between their start and end line is a lower bound of the number running, so the oracle cannot
// fire on a build that keeps the bound. ("At most once" is not judged here: C03 states it for builds without cache
// faults; what two dependants do to a dependency with lost blobs is C15's, see c15SharedRerun.)
func c03WorkerBound(c *Ctx) {
	grog, err := vc.BuildGrog("grog", nil)
	if err != nil {
		c.R.BrokenCheck("%v", err)
		return
	}
	base, cleanup := scratchBase(c, "c03bound")
	defer cleanup()
	cmd := func(sleep, out string) string {
		return traceStart + "\nsleep " + sleep + "\nprintf made > " + out + "\necho \"end $GROG_TARGET\" >> \"$VTRACE\""
	}
	var wg sync.WaitGroup
	for _, workers := range []int{1, 2} {
		for _, groups := range []int{1, 2} {
			for _, mode := range []string{"minimal", "all"} {
				wg.Add(1)
				go func(workers, groups int, mode string) {
					defer wg.Done()
					name := fmt.Sprintf("num_workers=%d, %d command-less dependants of an evicted dependency, load_outputs=%s", workers, groups, mode)
					mk := func(v string) *hist.Source {
						s := &hist.Source{Files: map[string]hist.File{"p/d.in": {Content: "d"}}, Toml: fmt.Sprintf("num_workers = %d\n", workers)}
						s.Targets = append(s.Targets,
							hist.Target{Pkg: "p", Name: "d", Inputs: []string{"d.in"}, Outputs: []string{"d.txt"}, Command: cmd("0.6", "d.txt")},
							hist.Target{Pkg: "p", Name: "k", Deps: []string{":d"}})
						for i := 0; i < workers; i++ {
							n := fmt.Sprintf("l%d", i)
							s.Files["p/"+n+".in"] = hist.File{Content: v}
							s.Targets = append(s.Targets, hist.Target{Pkg: "p", Name: n, Deps: []string{":k"}, Inputs: []string{n + ".in"}, Outputs: []string{n + ".txt"}, Command: cmd("1.5", n+".txt")})
						}
						for i := 0; i < groups; i++ {
							n := fmt.Sprintf("g%d", i)
							s.Files["p/"+n+".in"] = hist.File{Content: v}
							s.Targets = append(s.Targets, hist.Target{Pkg: "p", Name: n, Deps: []string{":d"}, Inputs: []string{n + ".in"}})
						}
						return s
					}
					s1, s2 := mk("v1"), mk("v2")
					box, err := hist.NewBox(base)
					if err != nil {
						c.R.BrokenCheck("%v", err)
						return
					}
					s1.Materialize(box.WS(), nil)
					if r0 := box.Run(grog, hist.RunOpts{Args: []string{"build", "//..."}, Ceiling: 60e9}); r0.Exit != 0 {
						c.R.BrokenCheck("worker bound, %s: preparation build failed: %s", name, tail(r0.Output, 300))
						box.Remove()
						return
					}
					// the dependency's blobs are evicted and its output is gone; the dependants' inputs change
					os.RemoveAll(filepath.Join(box.CacheDir(), "cas"))
					os.Remove(filepath.Join(box.WS(), "p/d.txt"))
					s2.Materialize(box.WS(), s1)
					rr := box.Run(grog, hist.RunOpts{Args: []string{"build", "//...", "--load-outputs=" + mode}, Ceiling: 60e9})
					replay := map[string]any{"scenario": name, "history": "build //...; delete the cas directory and p/d.txt; edit the inputs of l* and g*; build //... --load-outputs=" + mode, "exit": rr.Exit, "trace": rr.Trace, "grog_output_tail": tail(rr.Output, 500)}
					running, maxRunning := 0, 0
					starts := map[string]int{}
					for _, l := range rr.Trace {
						switch {
						case strings.HasPrefix(l, "start "):
							running++
							starts[strings.TrimPrefix(l, "start ")]++
							if running > maxRunning {
								maxRunning = running
							}
						case strings.HasPrefix(l, "end "):
							running--
						}
					}
					if maxRunning > workers {
						c.R.Violate(vc.Violation{Sig: "C03:more-commands-running-than-num_workers", Detail: fmt.Sprintf("%s: %d commands were between their start and end line at once; trace %v", name, maxRunning, rr.Trace), Replay: replay})
					}
					if rr.Exit != 0 {
						c.R.Violate(vc.Violation{Sig: "C03:build-with-evicted-dependency-fails", Detail: fmt.Sprintf("%s: grog exited %d: %s", name, rr.Exit, tail(rr.Output, 300)), Replay: replay})
					}
					c.R.AddCounts(1, 1, 2, 1)
					c.R.Outcome(fmt.Sprintf("worker-bound|%s|max=%d|started=%d", name, maxRunning, len(starts)))
					if len(starts) > workers {
						c.R.Nontrivial("worker-bound|" + name)
					}
					box.Remove()
				}(workers, groups, mode)
			}
		}
	}
	wg.Wait()
}

// c05RerunFails: failure containment where the failing execution is a RE-RUN: a dependency is a cache hit whose blobs
// are lost, two dependants are cache misses, and the dependency's command now exits 0 without creating its declared
// output (an external condition, not an input). In both load_outputs modes: the build exits non-zero, neither
// dependant's command starts, and nothing is cached for the three of them — once the condition is back, the next build
// executes all three and produces the from-scratch outputs.
func c05RerunFails(c *Ctx) {
	grog, err := vc.BuildGrog("grog", nil)
	if err != nil {
		c.R.BrokenCheck("%v", err)
		return
	}
	base, cleanup := scratchBase(c, "c05rerun")
	defer cleanup()
	end := "\necho \"end $GROG_TARGET\" >> \"$VTRACE\""
	mk := func(v string) *hist.Source {
		s := &hist.Source{Files: map[string]hist.File{"t/d.in": {Content: "d"}, "t/a.in": {Content: v}, "t/b.in": {Content: v}}, Toml: "num_workers = 2\n"}
		s.Targets = append(s.Targets,
			hist.Target{Pkg: "t", Name: "d", Inputs: []string{"d.in"}, Outputs: []string{"d.txt"}, Command: traceStart + "\nif [ ! -e \"$VMARK/d-makes-nothing\" ]; then printf made > d.txt; fi" + end},
			hist.Target{Pkg: "t", Name: "a", Deps: []string{":d"}, Inputs: []string{"a.in"}, Outputs: []string{"a.txt"}, Command: traceStart + "\n(cat d.txt 2>/dev/null || printf MISSING; cat a.in) > a.txt" + end},
			hist.Target{Pkg: "t", Name: "b", Deps: []string{":d"}, Inputs: []string{"b.in"}, Outputs: []string{"b.txt"}, Command: traceStart + "\n(cat d.txt 2>/dev/null || printf MISSING; cat b.in) > b.txt" + end})
		return s
	}
	for _, mode := range []string{"minimal", "all"} {
		box, err := hist.NewBox(base)
		if err != nil {
			c.R.BrokenCheck("%v", err)
			return
		}
		marks := filepath.Join(box.Dir, "marks")
		os.MkdirAll(marks, 0o755)
		env := map[string]string{"VMARK": marks}
		s1, s2 := mk("v1"), mk("v2")
		s1.Materialize(box.WS(), nil)
		args := []string{"build", "//...", "--load-outputs=" + mode}
		if r := box.Run(grog, hist.RunOpts{Args: args, Env: env}); r.Exit != 0 {
			c.R.BrokenCheck("failing re-run: preparation build failed: %s", tail(r.Output, 300))
			box.Remove()
			return
		}
		os.RemoveAll(filepath.Join(box.CacheDir(), "cas"))
		os.Remove(filepath.Join(box.WS(), "t/d.txt"))
		os.WriteFile(filepath.Join(marks, "d-makes-nothing"), nil, 0o644)
		s2.Materialize(box.WS(), s1)
		history := []string{"build", "lose every blob, delete d.txt, //t:d's command stops creating d.txt (exit 0), edit the inputs of a and b", "build"}
		r2 := box.Run(grog, hist.RunOpts{Args: args, Env: env, Ceiling: 60e9})
		replay := map[string]any{"history": history, "load_outputs": mode, "exit": r2.Exit, "trace": r2.Trace, "grog_output_tail": tail(r2.Output, 700)}
		vio := func(sig, format string, a ...any) {
			c.R.Violate(vc.Violation{Sig: sig, Detail: fmt.Sprintf("load_outputs=%s, history %v: ", mode, history) + fmt.Sprintf(format, a...), Replay: replay})
		}
		if r2.TimedOut {
			vio("C04:build-hangs", "the build did not end within 60 s")
			box.Remove()
			continue
		}
		started := strings.Join(r2.Started(), " ")
		for _, t := range []string{"//t:a", "//t:b"} {
			if strings.Contains(started, t) {
				vio("C05:dependant-of-failed-target-executed:"+t, "%s was executed although its dependency //t:d did not produce its declared output in this build; trace %v", t, r2.Trace)
			}
		}
		if r2.Exit == 0 {
			vio("C05:build-succeeds-although-a-target-failed", "grog exited 0 although //t:d did not produce its declared output; trace %v", r2.Trace)
		}
		// the condition is back: everything that failed or was skipped is attempted again
		os.Remove(filepath.Join(marks, "d-makes-nothing"))
		history = append(history, "//t:d's command creates d.txt again", "build")
		r3 := box.Run(grog, hist.RunOpts{Args: args, Env: env, Ceiling: 60e9})
		replay["follow_up_trace"] = r3.Trace
		replay["follow_up_output_tail"] = tail(r3.Output, 500)
		started3 := strings.Join(r3.Started(), " ")
		for _, t := range []string{"//t:a", "//t:b"} {
			if !strings.Contains(started3, t) {
				vio("C05:failed-target-not-attempted-again:"+t, "%s was not executed by the follow-up build although it did not succeed in the failed build (a result was cached for it); follow-up trace %v", t, r3.Trace)
			}
		}
		if r3.Exit != 0 {
			vio("C05:follow-up-build-fails", "the follow-up build exited %d: %s", r3.Exit, tail(r3.Output, 300))
		} else {
			for p, want := range map[string]string{"t/d.txt": "made", "t/a.txt": "madev2", "t/b.txt": "madev2"} {
				if b, _ := os.ReadFile(filepath.Join(box.WS(), p)); string(b) != want {
					vio("C05:follow-up-build-wrong-output", "%s is %q after the follow-up build, a from-scratch build gives %q", p, b, want)
				}
			}
		}
		c.R.AddCounts(3, 1, 3, 3)
		c.R.Outcome(fmt.Sprintf("failing-rerun|%s|exit=%d|%s|%s", mode, r2.Exit, started, started3))
		c.R.Nontrivial("failing-rerun|" + mode)
		box.Remove()
	}
}
