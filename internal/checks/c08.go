package checks

import (
	"fmt"
	"os"
	"path/filepath"
	"sort"
	"strings"
	"sync"

	"verif/internal/hist"
	"verif/internal/vc"
)

// C08: two "machines" (separate workspace path and GROG_ROOT) share one fake
// remote object store (a directory) behind the REAL RemoteWrapper; every
// transition is a run of the real (overlay-instrumented) grog binary.

type universe struct {
	dir    string
	a, b   *hist.Box
	remote string
}

func newUniverse(base string) (*universe, error) {
	d, err := os.MkdirTemp(base, "uni")
	if err != nil {
		return nil, err
	}
	u := &universe{dir: d, remote: filepath.Join(d, "remote")}
	os.MkdirAll(u.remote, 0o755)
	mk := func(name string) *hist.Box {
		b := &hist.Box{Dir: filepath.Join(d, name)}
		for _, p := range []string{b.WS(), b.Root(), filepath.Join(b.Dir, "home")} {
			os.MkdirAll(p, 0o755)
		}
		return b
	}
	u.a, u.b = mk("A"), mk("B")
	return u, nil
}

func (u *universe) clone(base string) (*universe, error) {
	d, err := os.MkdirTemp(base, "uni")
	if err != nil {
		return nil, err
	}
	if err := hist.CopyTree(u.dir, d); err != nil {
		return nil, err
	}
	n := &universe{dir: d, remote: filepath.Join(d, "remote"), a: &hist.Box{Dir: filepath.Join(d, "A")}, b: &hist.Box{Dir: filepath.Join(d, "B")}}
	for _, pair := range [][2]*hist.Box{{u.a, n.a}, {u.b, n.b}} {
		oldp := filepath.Join(pair[1].Root(), hist.CachePrefix(pair[0].WS()))
		newp := filepath.Join(pair[1].Root(), hist.CachePrefix(pair[1].WS()))
		if _, err := os.Stat(oldp); err == nil {
			os.Rename(oldp, newp)
		}
	}
	return n, nil
}

func dirNames(dir string) []string {
	var out []string
	filepath.Walk(dir, func(p string, info os.FileInfo, err error) error {
		if err != nil || info.IsDir() || strings.HasPrefix(info.Name(), "tmp-") {
			return nil
		}
		r, _ := filepath.Rel(dir, p)
		out = append(out, r)
		return nil
	})
	sort.Strings(out)
	return out
}

type c08node struct {
	u       *universe
	ws      wsState
	builtA  *wsState
	builtB  *wsState
	localA  map[string]bool // model: state keys with a result in A's local cache
	localB  map[string]bool
	remoteM map[string]bool // model: state keys whose result was written with the remote enabled
	hist    []string
	key     string
}

func cloneSet(m map[string]bool) map[string]bool {
	n := map[string]bool{}
	for k := range m {
		n[k] = true
	}
	return n
}

type c08op struct {
	name    string
	machine string // A | B
	kind    string // build | build-local | wipe | edit
}

func init() {
	Registry["C08"] = func(c *Ctx) {
		c.R.Rule = "breadth-first search over histories of <= n operations from {grog build on machine A, grog build on machine B, grog build on A with the remote disabled (pre-populates A's local cache only), wipe A's local cache, edit an input} where A and B are separate checkouts with separate GROG_ROOTs sharing one remote object store; the remote is a directory-backed fake attached behind the REAL RemoteWrapper through the build overlay, every build is run by the real binary. After every successful remote-enabled build: the remote store passes the offline audit (every target result decodes and references only blobs present in the remote, recursively through trees; every blob hashes to its digest), every result written locally by that build is in the remote, the executed set equals a reference model (nothing that any machine already built with the remote enabled is executed again; outputs identical to a from-scratch build), and a follow-up build without the remote executes nothing (the local cache was filled while reading). Then, for every remote operation instance of two histories, a fault is injected (Get error / reader failing after the first byte / missing object, Put error before or after reading the body or without reading it, Head error / false miss): the build must end with exit 0 and correct outputs or with a non-zero exit, never hang, never leave a dangling reference in the remote. Non-trivial = a build with at least one cache hit served through the remote. Eviction: the remote loses every blob while it keeps the target results and one target is not reproducible: machine B re-executes, afterwards the remote passes the audit (the new result replaced the old one) and a third machine gets B's bytes without executing anything. One key: 2-3 concurrent read-throughs, two write-throughs and a read-through next to a write-through of one key through the real RemoteWrapper over the real FileSystemCache, every file-system call of fs.go and every remote operation a scheduling point, every schedule with <= 2/3 deviations: every reader gets the object's bytes, nothing fails while the remote is healthy, both layers end with the right bytes, nothing hangs. Single object loss: for every object of the remote's cas/ in turn (file blobs, members of a directory output, tree objects) the remote loses exactly that one; machine B builds (re-executing what it cannot load), afterwards the remote passes the audit and machine A with a wiped cache restores everything without executing."
		c.R.Assume("the S3/GCS clients themselves cannot run offline: the seam is CacheBackend behind backends.NewRemoteWrapper (real code); the fake remote stores objects atomically like an object store PUT", "both machines address the same remote namespace (the fake ignores bucket/prefix/workspace identity; key construction of the real clients is unit-tested by the repository)")
		grog, _ := faultBinary(c)
		if !backendDecorated {
			c.R.BrokenCheck("the fake remote cannot be attached (GetCacheBackend was refactored away): this check cannot run")
			return
		}
		abin := auditBinary(c)
		plain, err := vc.BuildGrog("grog", nil)
		if grog == "" || abin == "" || err != nil {
			if err != nil {
				c.R.BrokenCheck("%v", err)
			}
			return
		}
		base, cleanup := scratchBase(c, "c08")
		defer cleanup()
		maxOps := 3
		if c.Thorough {
			maxOps = 4
		}
		ops := []c08op{{"build on A", "A", "build"}, {"build on B", "B", "build"}, {"build on A with the remote disabled", "A", "build-local"}, {"wipe A's local cache", "A", "wipe"}, {"edit input", "", "edit"}}
		var cleanMu sync.Mutex
		clean := map[string]*cleanResult{}
		cleanFor := func(w wsState) *cleanResult {
			cleanMu.Lock()
			defer cleanMu.Unlock()
			if r, ok := clean[w.key()]; ok {
				return r
			}
			box, _ := hist.NewBox(base)
			defer box.Remove()
			src := w.source()
			src.Materialize(box.WS(), nil)
			rr := box.Run(plain, hist.RunOpts{Args: []string{"build", "//..."}})
			res := &cleanResult{listings: map[string]map[string]hist.Entry{}, exit: rr.Exit, output: rr.Output}
			for _, t := range src.Targets {
				res.listings[t.Label()] = outputsListing(box.WS(), t)
			}
			clean[w.key()] = res
			return res
		}
		runBuild := func(n *c08node, op c08op, fault string) (*c08node, hist.RunResult) {
			u, err := n.u.clone(base)
			if err != nil {
				c.R.BrokenCheck("clone: %v", err)
				return nil, hist.RunResult{}
			}
			box, built := u.a, n.builtA
			if op.machine == "B" {
				box, built = u.b, n.builtB
			}
			src := n.ws.source()
			var prev *hist.Source
			if built != nil {
				prev = built.source()
			}
			src.Materialize(box.WS(), prev)
			env := map[string]string{}
			if op.kind == "build" {
				env["VERIF_REMOTE_DIR"] = u.remote
				if fault != "" {
					env["VERIF_REMOTE_FAULT"] = fault
				}
			}
			before := setOf(box.CacheNames())
			rr := box.Run(grog, hist.RunOpts{Args: []string{"build", "//..."}, Env: env})
			child := &c08node{u: u, ws: n.ws, builtA: n.builtA, builtB: n.builtB, localA: cloneSet(n.localA), localB: cloneSet(n.localB), remoteM: cloneSet(n.remoteM), hist: append(append([]string{}, n.hist...), op.name)}
			w := n.ws
			if op.machine == "A" {
				child.builtA = &w
			} else {
				child.builtB = &w
			}
			if fault != "" {
				return child, rr
			}
			// ---- oracles of a fault-free build ----
			replay := map[string]any{"history": child.hist, "grog_output_tail": tail(rr.Output, 1200), "trace": rr.Trace}
			vio := func(sig, format string, a ...any) {
				c.R.Violate(vc.Violation{Sig: sig, Detail: fmt.Sprintf("history %v: ", child.hist) + fmt.Sprintf(format, a...), Replay: replay})
			}
			if rr.TimedOut {
				vio("C08:build-hangs", "the build did not exit within the ceiling")
				return child, rr
			}
			if rr.Exit != 0 {
				vio("C08:build-fails", "grog exited %d: %s", rr.Exit, tail(rr.Output, 400))
				return child, rr
			}
			cl := cleanFor(n.ws)
			order := closure(src, "//...")
			keys := stateKeys(src, order, n.ws.platform(), func(t hist.Target) string { return hist.ListingKey(cl.listings[t.Label()]) })
			local := child.localA
			if op.machine == "B" {
				local = child.localB
			}
			executed := setOf(rr.Started())
			hitsViaRemote := 0
			for _, l := range order {
				k := keys[l]
				known := local[k] || (op.kind == "build" && child.remoteM[k])
				if !known && !executed[l] {
					vio("C08:cached-result-served-for-unknown-state:"+l, "%s was not executed although neither the local nor the remote cache can hold a result for its state", l)
				}
				if known && executed[l] {
					why := "its local cache holds the result"
					sig := "C08:executed-although-locally-cached:" + l
					if !local[k] {
						why = "another build already stored the result in the shared remote"
						sig = "C08:executed-although-available-in-remote:" + l
					}
					vio(sig, "%s was executed on machine %s although %s", l, op.machine, why)
				}
				if known && !local[k] && !executed[l] {
					hitsViaRemote++
				}
				local[k] = true
				if op.kind == "build" && executed[l] {
					child.remoteM[k] = true
				}
			}
			for _, t := range src.Targets {
				if d := hist.DiffListing(outputsListing(box.WS(), t), cl.listings[t.Label()]); d != "" {
					vio("C08:wrong-output:"+t.Label(), "outputs of %s on machine %s differ from a from-scratch build: %s", t.Label(), op.machine, d)
				}
			}
			if op.kind == "build" {
				problems, _, _, err := auditCache(abin, u.remote, "")
				if err != nil {
					c.R.BrokenCheck("%v", err)
				}
				for _, p := range problems {
					vio("C08:remote-audit:"+p.Kind, "%s", p.Detail)
				}
				remoteNames := setOf(dirNames(u.remote))
				for name := range setOf(box.CacheNames()) {
					if !before[name] && strings.HasPrefix(name, "target/") && !remoteNames[name] {
						vio("C08:result-written-locally-but-not-remotely", "%s was written to machine %s's local cache by this build but is not in the remote store", name, op.machine)
					}
				}
				// the local cache was filled while reading: a build without the remote executes nothing
				u2, err := u.clone(base)
				if err == nil {
					b2 := u2.a
					if op.machine == "B" {
						b2 = u2.b
					}
					r2 := b2.Run(grog, hist.RunOpts{Args: []string{"build", "//..."}})
					if r2.Exit != 0 || len(r2.Started()) > 0 {
						vio("C08:local-cache-not-filled-by-remote-reads", "after a successful build with the remote, a build without the remote on machine %s exits %d and executes %v", op.machine, r2.Exit, r2.Started())
					}
					os.RemoveAll(u2.dir)
				}
			}
			c.R.AddCounts(1, 0, 1, 1)
			c.R.Outcome(fmt.Sprintf("%s exec=%s", op.name, fmtSet(executed)))
			if hitsViaRemote > 0 {
				c.R.Nontrivial(strings.Join(child.hist, ">"))
			}
			if len(child.hist) >= 2 {
				c.R.Sample(map[string]any{"history": child.hist, "executed": fmtSet(executed), "hits_served_through_remote": hitsViaRemote})
			}
			return child, rr
		}
		nodeKey := func(n *c08node) string {
			return strings.Join(n.u.a.CacheNames(), ";") + "|" + strings.Join(n.u.b.CacheNames(), ";") + "|" + strings.Join(dirNames(n.u.remote), ";") + "|" + n.ws.key() +
				"|" + hist.ListingKey(hist.Listing(n.u.a.WS(), ".")) + "|" + hist.ListingKey(hist.Listing(n.u.b.WS(), "."))
		}
		u0, err := newUniverse(base)
		if err != nil {
			c.R.BrokenCheck("%v", err)
			return
		}
		start := &c08node{u: u0, localA: map[string]bool{}, localB: map[string]bool{}, remoteM: map[string]bool{}}
		start.key = nodeKey(start)
		seen := map[string]bool{start.key: true}
		frontier := []*c08node{start}
		states := int64(1)
		var faultSeeds []*c08node // states from which fault enumeration starts
		for depth := 0; depth < maxOps; depth++ {
			type job struct {
				n  *c08node
				op c08op
				c  *c08node
			}
			var jobs []*job
			for _, n := range frontier {
				for _, op := range ops {
					if op.kind != "build" && op.kind != "build-local" && maxOps-depth < 2 {
						continue
					}
					jobs = append(jobs, &job{n: n, op: op})
				}
			}
			var wg sync.WaitGroup
			sem := make(chan struct{}, 24)
			for _, j := range jobs {
				wg.Add(1)
				sem <- struct{}{}
				go func(j *job) {
					defer wg.Done()
					defer func() { <-sem }()
					switch j.op.kind {
					case "edit":
						u, err := j.n.u.clone(base)
						if err != nil {
							return
						}
						ws := j.n.ws
						ws.T[tgAppend] = !ws.T[tgAppend]
						j.c = &c08node{u: u, ws: ws, builtA: j.n.builtA, builtB: j.n.builtB, localA: j.n.localA, localB: j.n.localB, remoteM: j.n.remoteM, hist: append(append([]string{}, j.n.hist...), j.op.name)}
					case "wipe":
						u, err := j.n.u.clone(base)
						if err != nil {
							return
						}
						os.RemoveAll(u.a.CacheDir())
						j.c = &c08node{u: u, ws: j.n.ws, builtA: j.n.builtA, builtB: j.n.builtB, localA: map[string]bool{}, localB: j.n.localB, remoteM: j.n.remoteM, hist: append(append([]string{}, j.n.hist...), j.op.name)}
					default:
						j.c, _ = runBuild(j.n, j.op, "")
					}
				}(j)
			}
			wg.Wait()
			var next []*c08node
			for _, j := range jobs {
				if j.c == nil {
					continue
				}
				j.c.key = nodeKey(j.c)
				if seen[j.c.key] {
					os.RemoveAll(j.c.u.dir)
					continue
				}
				seen[j.c.key] = true
				next = append(next, j.c)
			}
			for _, n := range frontier {
				keep := false
				for _, f := range faultSeeds {
					if f == n {
						keep = true
					}
				}
				if !keep {
					os.RemoveAll(n.u.dir)
				}
			}
			// fault seeds: the initial state (A uploads everything) and the state after "build on A" (B downloads everything)
			for _, n := range next {
				if (len(n.hist) == 1 && n.hist[0] == "build on A") || (len(n.hist) == 2 && n.hist[0] == "build on A with the remote disabled" && n.hist[1] == "edit input") {
					faultSeeds = append(faultSeeds, n)
				}
			}
			states += int64(len(next))
			vc.Logf("remote histories depth %d: %d transitions, %d new states", depth+1, len(jobs), len(next))
			frontier = next
		}
		c.R.AddCounts(0, states, 0, 0)
		c.R.Set("history_length_bound", maxOps)
		// ---- remote fault enumeration ----
		type seed struct {
			name string
			n    *c08node
			op   c08op
		}
		fresh, _ := newUniverse(base)
		seeds := []seed{{"A uploads a cold build", &c08node{u: fresh, localA: map[string]bool{}, localB: map[string]bool{}, remoteM: map[string]bool{}}, ops[0]}}
		for _, fs := range faultSeeds {
			if fs.hist[0] == "build on A" {
				seeds = append(seeds, seed{"B restores everything from the remote", fs, ops[1]})
			} else {
				// after a local-only build and an edit: the rebuilt targets reference blobs that are in A's
				// local cache but not in the remote; the write-through decision depends on the remote HEAD
				seeds = append(seeds, seed{"A uploads blobs that already exist locally", fs, ops[0]})
			}
		}
		for _, sd := range seeds {
			// log the remote operations of the fault-free run
			logU, err := sd.n.u.clone(base)
			if err != nil {
				continue
			}
			lb := logU.a
			if sd.op.machine == "B" {
				lb = logU.b
			}
			sd.n.ws.source().Materialize(lb.WS(), nil)
			logf := filepath.Join(logU.dir, "remotelog")
			lb.Run(grog, hist.RunOpts{Args: []string{"build", "//..."}, Env: map[string]string{"VERIF_REMOTE_DIR": logU.remote, "VERIF_REMOTE_LOG": logf}})
			cnt := map[string]int{}
			var faults []string
			for _, l := range readLines(logf) {
				f := strings.Fields(l)
				cnt[f[0]]++
				modes := map[string][]string{"get": {"err", "late", "miss"}, "set": {"err", "late", "ignore-body"}, "exists": {"err", "miss"}, "delete": {"err"}}[f[0]]
				for _, m := range modes {
					faults = append(faults, fmt.Sprintf("%s#%d:%s", f[0], cnt[f[0]], m))
				}
			}
			os.RemoveAll(logU.dir)
			c.R.Set("remote_fault_cases:"+sd.name, len(faults))
			cl := cleanFor(sd.n.ws)
			var wg sync.WaitGroup
			sem := make(chan struct{}, 24)
			for _, f := range faults {
				wg.Add(1)
				sem <- struct{}{}
				go func(f string) {
					defer wg.Done()
					defer func() { <-sem }()
					child, rr := runBuild(sd.n, sd.op, f)
					if child == nil {
						return
					}
					defer os.RemoveAll(child.u.dir)
					box := child.u.a
					if sd.op.machine == "B" {
						box = child.u.b
					}
					cls := f[:strings.Index(f, "#")] + f[strings.LastIndex(f, ":"):]
					replay := map[string]any{"seed": sd.name, "remote_fault": f, "exit": rr.Exit, "grog_output_tail": tail(rr.Output, 1000)}
					vio := func(sig, format string, a ...any) {
						c.R.Violate(vc.Violation{Sig: sig, Detail: fmt.Sprintf("%s, remote fault %s: ", sd.name, f) + fmt.Sprintf(format, a...), Replay: replay})
					}
					if rr.TimedOut {
						vio("C08:hang-under-remote-fault:"+cls, "the build did not exit within the 120 s ceiling")
						return
					}
					if rr.Exit == 0 {
						for _, t := range sd.n.ws.source().Targets {
							if d := hist.DiffListing(outputsListing(box.WS(), t), cl.listings[t.Label()]); d != "" {
								vio("C08:wrong-content-under-remote-fault:"+cls, "the build exited 0 but %s differs from a from-scratch build: %s", t.Label(), d)
							}
						}
					}
					problems, _, _, _ := auditCache(abin, child.u.remote, "")
					for _, p := range problems {
						vio("C08:remote-audit-under-fault:"+p.Kind+":"+cls, "%s", p.Detail)
					}
					// (the local cache is a read-through copy: a result whose blob could not be fetched
					// yet is completed from the remote on the next read, so it is not audited here)
					c.R.AddCounts(1, 1, 1, 1)
					c.R.Outcome(fmt.Sprintf("fault %s exit=%d exec=%d", cls, rr.Exit, len(rr.Started())))
					c.R.Nontrivial("fault|" + sd.name + "|" + f)
				}(f)
			}
			wg.Wait()
		}
		os.RemoveAll(fresh.dir)
		// scripted history: a blob that exists only locally is first LOADED (restore of a cache hit whose
		// file is missing) and then WRITTEN by another target producing identical bytes, in one build
		{
			u, err := newUniverse(base)
			if err == nil {
				w := wsState{}
				w.T[tgExtraOut], w.T[tgGenExtra] = true, true
				n0 := &c08node{u: u, ws: w, localA: map[string]bool{}, localB: map[string]bool{}, remoteM: map[string]bool{}}
				n1, _ := runBuild(n0, ops[2], "")
				if n1 != nil {
					os.Remove(filepath.Join(n1.u.a.WS(), "a/extra.txt"))
					n1.ws.T[tgMoveInput] = true
					n1.hist = append(n1.hist, "delete //a:lib's extra.txt from the workspace", "move //b:gen's input (gen re-executes and writes the same bytes as extra.txt)")
					n2, _ := runBuild(n1, ops[0], "")
					if n2 != nil {
						n3, _ := runBuild(n2, ops[1], "") // machine B must be able to restore everything
						if n3 != nil {
							os.RemoveAll(n3.u.dir)
						}
						os.RemoveAll(n2.u.dir)
					}
					os.RemoveAll(n1.u.dir)
				}
				os.RemoveAll(u.dir)
			}
		}
		// a fault of the LOCAL layer while the remote is healthy: the build may fail, but the remote must
		// not receive an object whose content does not match its digest, and machine B must still build correctly
		{
			u, err := newUniverse(base)
			if err == nil {
				w := wsState{}
				w.source().Materialize(u.a.WS(), nil)
				os.RemoveAll(u.a.CacheDir())
				os.MkdirAll(u.a.CacheDir(), 0o755)
				os.WriteFile(filepath.Join(u.a.CacheDir(), "cas"), []byte("not a directory: every local blob write fails"), 0o644)
				rr := u.a.Run(grog, hist.RunOpts{Args: []string{"build", "//..."}, Env: map[string]string{"VERIF_REMOTE_DIR": u.remote}})
				replay := map[string]any{"scenario": "local cache layer broken (cas is a file), remote healthy", "exit": rr.Exit, "grog_output_tail": tail(rr.Output, 800)}
				if rr.TimedOut {
					c.R.Violate(vc.Violation{Sig: "C08:hang-with-broken-local-layer", Detail: "the build did not exit", Replay: replay})
				}
				problems, _, _, _ := auditCache(abin, u.remote, "")
				for _, p := range problems {
					c.R.Violate(vc.Violation{Sig: "C08:remote-audit-after-local-layer-fault:" + p.Kind, Detail: "machine A's local cache layer failed every blob write while the remote was healthy: " + p.Detail, Replay: replay})
				}
				w.source().Materialize(u.b.WS(), nil)
				rb := u.b.Run(grog, hist.RunOpts{Args: []string{"build", "//..."}, Env: map[string]string{"VERIF_REMOTE_DIR": u.remote}})
				if rb.Exit != 0 {
					c.R.Violate(vc.Violation{Sig: "C08:machine-B-fails-after-local-layer-fault-on-A", Detail: fmt.Sprintf("machine B exited %d: %s", rb.Exit, tail(rb.Output, 300)), Replay: replay})
				} else {
					cl := cleanFor(w)
					for _, t := range w.source().Targets {
						if d := hist.DiffListing(outputsListing(u.b.WS(), t), cl.listings[t.Label()]); d != "" {
							c.R.Violate(vc.Violation{Sig: "C08:wrong-content-after-local-layer-fault-on-A", Detail: fmt.Sprintf("machine B: %s differs from a from-scratch build: %s", t.Label(), d), Replay: replay})
						}
					}
				}
				c.R.AddCounts(2, 1, 2, 2)
				c.R.Nontrivial("local-layer-fault")
				os.RemoveAll(u.dir)
			}
		}
		// scripted history: the remote loses its blobs (eviction / lifecycle rule) while it keeps the target results, and
		// one target is not reproducible (its output depends on something undeclared). Machine B re-executes what cannot be
		// loaded; afterwards the remote must again be a consistent mirror (the re-executed target's NEW result replaces
		// the old one) and a third machine gets B's bytes without executing anything.
		{
			u, err := newUniverse(base)
			if err == nil {
				w := wsState{}
				src := w.source()
				src.Targets = append(src.Targets, hist.Target{Pkg: "b", Name: "stamp", Inputs: []string{"app.in"}, Outputs: []string{"stamp.txt"},
					Command: traceStart + "\nprintf 'stamp-%s' \"${VNONCE:-0}\" > stamp.txt"})
				run := func(box *hist.Box, nonce string) hist.RunResult {
					src.Materialize(box.WS(), nil)
					return box.Run(grog, hist.RunOpts{Args: []string{"build", "//..."}, Env: map[string]string{"VERIF_REMOTE_DIR": u.remote, "VNONCE": nonce}})
				}
				hist0 := []string{"build on A", "the remote loses every blob (results stay)", "build on B (re-executes; //b:stamp is not reproducible)", "wipe A's local cache", "build on A"}
				ra := run(u.a, "1")
				os.RemoveAll(filepath.Join(u.remote, "cas"))
				rb := run(u.b, "2")
				replay := map[string]any{"history": hist0, "exit_A": ra.Exit, "exit_B": rb.Exit, "executed_on_B": rb.Started(), "output_tail_B": tail(rb.Output, 800)}
				vio := func(sig, format string, a ...any) {
					c.R.Violate(vc.Violation{Sig: sig, Detail: fmt.Sprintf("history %v: ", hist0) + fmt.Sprintf(format, a...), Replay: replay})
				}
				if ra.Exit != 0 {
					c.R.BrokenCheck("eviction scenario: first build failed: %s", tail(ra.Output, 300))
				} else if rb.Exit != 0 {
					vio("C08:build-fails-after-remote-lost-its-blobs", "machine B exited %d instead of re-executing what could not be loaded: %s", rb.Exit, tail(rb.Output, 300))
				} else {
					if b, _ := os.ReadFile(filepath.Join(u.b.WS(), "b/stamp.txt")); string(b) != "stamp-2" {
						vio("C08:wrong-output-after-remote-lost-its-blobs", "machine B has b/stamp.txt = %q after re-executing //b:stamp with VNONCE=2", b)
					}
					problems, _, _, _ := auditCache(abin, u.remote, "")
					for _, p := range problems {
						vio("C08:remote-audit-after-eviction-and-rebuild:"+p.Kind, "%s", p.Detail)
					}
					os.RemoveAll(u.a.CacheDir())
					for _, t := range src.Targets {
						for _, op := range hist.OutputPaths(t) {
							os.RemoveAll(filepath.Join(u.a.WS(), op))
						}
					}
					rc := run(u.a, "3")
					replay["exit_A2"], replay["executed_on_A2"] = rc.Exit, rc.Started()
					if rc.Exit != 0 {
						vio("C08:build-fails-after-eviction-and-rebuild", "machine A (local cache wiped) exited %d: %s", rc.Exit, tail(rc.Output, 300))
					} else {
						if len(rc.Started()) > 0 {
							vio("C08:executed-although-available-in-remote:after-eviction-and-rebuild", "machine A executed %v although machine B had just rebuilt and uploaded everything", rc.Started())
						}
						if b, _ := os.ReadFile(filepath.Join(u.a.WS(), "b/stamp.txt")); string(b) != "stamp-2" && len(rc.Started()) == 0 {
							vio("C08:wrong-content-served-from-remote", "machine A restored b/stamp.txt = %q, machine B had uploaded stamp-2", b)
						}
					}
				}
				c.R.AddCounts(3, 1, 3, 3)
				c.R.Nontrivial("eviction")
				os.RemoveAll(u.dir)
			}
		}
		c08SingleBlobLoss(c, grog, abin, base)
		// concurrent uploads of the same digest (two targets with identical output content), with a failing Put
		casRace(c, "C08")
		// concurrent read- and write-throughs of one key through the real wrapper over the real local layer
		oneKey(c, "C08")
	}
}

// c08SingleBlobLoss: the remote loses exactly ONE object of its cas/ directory — every object in turn: a file blob, a
// member of a directory output whose tree object stays, a tree object whose members stay — while the target results
// stay. Machine B (empty local cache) builds: it re-executes what it cannot load, and afterwards the remote is a
// consistent mirror again (the lost object is back, nothing dangles) and machine A with a wiped local cache restores
// everything without executing.
func c08SingleBlobLoss(c *Ctx, grog, abin, base string) {
	w := wsState{}
	src := w.source()
	seed, err := newUniverse(base)
	if err != nil {
		c.R.BrokenCheck("%v", err)
		return
	}
	defer os.RemoveAll(seed.dir)
	src.Materialize(seed.a.WS(), nil)
	src.Materialize(seed.b.WS(), nil)
	if ra := seed.a.Run(grog, hist.RunOpts{Args: []string{"build", "//..."}, Env: map[string]string{"VERIF_REMOTE_DIR": seed.remote}}); ra.Exit != 0 {
		c.R.BrokenCheck("single blob loss: first build failed: %s", tail(ra.Output, 300))
		return
	}
	var blobs []string
	for _, n := range dirNames(seed.remote) {
		if strings.HasPrefix(n, "cas/") {
			blobs = append(blobs, n)
		}
	}
	c.R.Set("single_blob_loss_objects", len(blobs))
	var wg sync.WaitGroup
	sem := make(chan struct{}, 8)
	for _, blob := range blobs {
		wg.Add(1)
		sem <- struct{}{}
		go func(blob string) {
			defer wg.Done()
			defer func() { <-sem }()
			u, err := seed.clone(base)
			if err != nil {
				c.R.BrokenCheck("clone: %v", err)
				return
			}
			defer os.RemoveAll(u.dir)
			os.Remove(filepath.Join(u.remote, blob))
			hist0 := []string{"build on A", "the remote loses the object " + blob + " (everything else stays)", "build on B", "wipe A's local cache and outputs", "build on A"}
			env := map[string]string{"VERIF_REMOTE_DIR": u.remote}
			rb := u.b.Run(grog, hist.RunOpts{Args: []string{"build", "//..."}, Env: env, Ceiling: 60e9})
			replay := map[string]any{"history": hist0, "exit_B": rb.Exit, "executed_on_B": rb.Started(), "output_tail_B": tail(rb.Output, 800)}
			vio := func(sig, format string, a ...any) {
				c.R.Violate(vc.Violation{Sig: sig, Detail: fmt.Sprintf("history %v: ", hist0) + fmt.Sprintf(format, a...), Replay: replay})
			}
			switch {
			case rb.TimedOut:
				vio("C08:build-hangs-after-remote-lost-one-object", "machine B did not finish within 60 s")
			case rb.Exit != 0:
				vio("C08:build-fails-after-remote-lost-one-object", "machine B exited %d instead of re-executing what could not be loaded: %s", rb.Exit, tail(rb.Output, 300))
			default:
				problems, _, _, _ := auditCache(abin, u.remote, "")
				for _, p := range problems {
					vio("C08:remote-audit-after-single-object-loss-and-rebuild:"+p.Kind, "%s", p.Detail)
				}
				if len(problems) == 0 {
					os.RemoveAll(u.a.CacheDir())
					for _, t := range src.Targets {
						for _, op := range hist.OutputPaths(t) {
							os.RemoveAll(filepath.Join(u.a.WS(), op))
						}
					}
					rc := u.a.Run(grog, hist.RunOpts{Args: []string{"build", "//..."}, Env: env, Ceiling: 60e9})
					replay["exit_A2"], replay["executed_on_A2"] = rc.Exit, rc.Started()
					if rc.Exit != 0 || rc.TimedOut {
						vio("C08:build-fails-after-single-object-loss-and-rebuild", "machine A (local cache wiped) exited %d: %s", rc.Exit, tail(rc.Output, 300))
					} else if len(rc.Started()) > 0 {
						vio("C08:executed-although-available-in-remote:after-single-object-loss-and-rebuild", "machine A executed %v although machine B had just rebuilt and uploaded everything", rc.Started())
					}
				}
			}
			c.R.AddCounts(2, 1, 2, 2)
			c.R.Outcome(fmt.Sprintf("single-loss|B executed %d", len(rb.Started())))
			c.R.Nontrivial("single-loss|" + blob)
		}(blob)
	}
	wg.Wait()
}
