package checks

func init() {
	Registry["C17"] = func(c *Ctx) {
		c.R.Rule = "every string of <=N tokens over {//,/,:,...,.,a,b,ab,all} is parsed as a label (4 current packages) and as a pattern (3 current packages) by the real label API; patterns are matched against a 36-label universe. A case is non-trivial when the documentation defines its meaning (then acceptance, resolution and the matched set are compared with a reference written from docs/reference/labels.md); all other strings are checked for no panic and for the print/re-parse invariants only."
		c.R.Assume("reference parser/matcher written from docs/reference/labels.md is the specification", "label universe: packages {'',a,a/b,ab,a/bb,b,ab/b,ab/a/b,b/a} x names {a,b,ab,all}")
		simpleHarness(c, "c17", "c17", nil, nil, 1)
	}
}
