package checks

import (
	"fmt"
	"path/filepath"
	"strings"

	"verif/internal/instr"
	"verif/internal/vc"
)

// schedFiles lists the repo files instrumented for the controlled scheduler
// with their per-file configuration.
var schedFiles = map[string]instr.SchedConfig{
	"internal/dag/graph_walker.go": {MapRanges: []string{"w.graph.nodes"},
		Access: map[string]string{"w.nodeInfoMap[": "Walker.nodeInfoMap", "w.completions[": "Walker.completions"}},
	"internal/worker/task_worker_pool.go":            {AtomicPoints: true},
	"internal/maps/mutex_map.go":                     {AtomicPoints: true},
	"internal/output/handlers/dir_output_handler.go": {ChanRanges: []string{"errChan"}},
	"internal/caching/backends/remote_wrapper.go":    {ChanRanges: []string{"errChan"}},
	// the registry's own locks become scheduling points: the completion order of its pool tasks is then explored
	// even where the tasks never touch the cache backend (GetNoCacheOutputHash)
	"internal/output/registry.go": {},
}

// schedOverlay instruments the given repo files (vc.SourceFor honours
// VERIF_EXTRA_OVERLAY so that mutated copies are instrumented too) and adds the
// scheduler packages.
func schedOverlay(c *Ctx, tag string, files []string, harnessPkgs []string) *vc.Overlay {
	ov := vc.NewOverlay()
	for _, p := range append([]string{"vrep", "vs", "vsync", "vatomic", "explore"}, harnessPkgs...) {
		if err := ov.AddHarness(p); err != nil {
			c.R.BrokenCheck("overlay: %v", err)
			return nil
		}
	}
	// cheap goroutine identity (assembly needs a real package directory)
	ov.AddFile("internal/label/zverif_gid_amd64.s", filepath.Join(vc.HarnessDir, "_gid", "zverif_gid_amd64.s"))
	ov.AddFile("internal/label/zverif_gid.go", filepath.Join(vc.HarnessDir, "_gid", "zverif_gid.go"))
	var notes []string
	unins := 0
	for _, f := range files {
		cfg := schedFiles[f]
		out, st, err := instr.InstrumentSched(vc.SourceFor(f), cfg)
		if err != nil {
			c.R.BrokenCheck("instrumenting %s: %v", f, err)
			return nil
		}
		unins += st.Uninstrumented
		notes = append(notes, fmt.Sprintf("%s: go=%d select=%d chanops=%d close=%d maprange=%d chanrange=%d access=%d", filepath.Base(f), st.GoStmts, st.Selects, st.ChanOps, st.Closes, st.MapRanges, st.ChanRanges, st.Accesses))
		notes = append(notes, st.Notes...)
		if err := ov.AddContent(tag, f, out); err != nil {
			c.R.BrokenCheck("overlay: %v", err)
			return nil
		}
	}
	c.R.Set("instrumented_files", notes)
	c.R.Set("uninstrumented_sites", unins)
	return ov
}

func walkCheck(prop string, sigPrefixes []string, quickBound, thoroughBound int) CheckFunc {
	return walkCheckBudget(prop, sigPrefixes, quickBound, thoroughBound, 50, 540)
}

func walkCheckBudget(prop string, sigPrefixes []string, quickBound, thoroughBound, quickBudget, thoroughBudget int) CheckFunc {
	return func(c *Ctx) {
		files := []string{"internal/dag/graph_walker.go", "internal/worker/task_worker_pool.go"}
		ov := schedOverlay(c, "sched", files, []string{"walk"})
		if ov == nil {
			return
		}
		bin, err := vc.BuildHarnessTest("walk", ov, "walk", false)
		if err != nil {
			c.R.BrokenCheck("%v", err)
			return
		}
		bound, budget := quickBound, quickBudget
		if c.Thorough {
			bound, budget = thoroughBound, thoroughBudget
		}
		env := map[string]string{"VERIF_PROP": prop, "VERIF_TIER": c.Tier, "VERIF_BOUND": fmt.Sprint(bound), "VERIF_BUDGET_S": fmt.Sprint(budget), "GOMAXPROCS": "1"}
		sub := vc.NewReport(prop, c.Tier)
		shards := 16
		if c.Thorough {
			// a shard process cannot free the goroutines of abandoned executions and stops at its memory ceiling:
			// four times as many, shorter-lived shards (16 at a time) cover more within the same wall-clock time
			shards = 64
			env["VERIF_BUDGET_S"] = fmt.Sprint(budget / 4)
		}
		vc.RunHarnessShards(sub, vc.HarnessRun{Bin: bin, Env: env, Tag: "walk-" + prop}, shards, 16)
		// keep only the oracle signatures that belong to this property
		c.R.Merge(sub, func(sig string) bool {
			for _, p := range sigPrefixes {
				if strings.HasPrefix(sig, p) {
					return true
				}
			}
			return false
		})
	}
}

// poolCheck: the real TaskWorkerPool alone (callers x workers x stop mode) under every schedule with a
// bounded number of deviations; a small driver, so that higher bounds complete than with the Walker on top.
func poolCheck(c *Ctx, prop string, sigPrefixes []string) {
	ov := schedOverlay(c, "sched-pool", []string{"internal/worker/task_worker_pool.go"}, []string{"pool"})
	if ov == nil {
		return
	}
	bin, err := vc.BuildHarnessTest("pool", ov, "pool", false)
	if err != nil {
		c.R.BrokenCheck("%v", err)
		return
	}
	bound, budget, shards := "3", "25", 16
	if c.Thorough {
		bound, budget, shards = "4", "60", 64 // shorter-lived shards: see walkCheckBudget
	}
	sub := vc.NewReport(prop, c.Tier)
	vc.RunHarnessShards(sub, vc.HarnessRun{Bin: bin, Env: map[string]string{"VERIF_TIER": c.Tier, "VERIF_BOUND": bound, "VERIF_BUDGET_S": budget, "GOMAXPROCS": "1"}, Tag: "pool-" + prop}, shards, 16)
	c.R.Merge(sub, func(sig string) bool {
		for _, p := range sigPrefixes {
			if strings.HasPrefix(sig, p) {
				return true
			}
		}
		return false
	})
}

// mutexMapCheck: the per-target locks (maps.MutexMap) alone under every schedule with a bounded number of deviations.
func mutexMapCheck(c *Ctx, prop string, sigPrefixes []string) {
	ov := schedOverlay(c, "sched-mutexmap", []string{"internal/maps/mutex_map.go"}, []string{"mutexmap"})
	if ov == nil {
		return
	}
	bin, err := vc.BuildHarnessTest("mutexmap", ov, "mutexmap", false)
	if err != nil {
		c.R.BrokenCheck("%v", err)
		return
	}
	bound, budget := "3", "20"
	if c.Thorough {
		bound, budget = "5", "200"
	}
	sub := vc.NewReport(prop, c.Tier)
	vc.RunHarnessShards(sub, vc.HarnessRun{Bin: bin, Env: map[string]string{"VERIF_TIER": c.Tier, "VERIF_BOUND": bound, "VERIF_BUDGET_S": budget, "GOMAXPROCS": "1"}, Tag: "mutexmap-" + prop}, 8, 8)
	c.R.Merge(sub, func(sig string) bool {
		for _, p := range sigPrefixes {
			if strings.HasPrefix(sig, p) {
				return true
			}
		}
		return false
	})
}
