// Package hist is the build-history engine ("histbfs"): workspaces are plain
// data (Source), materialised on disk, built by the REAL grog binary, cloned
// as directories, and observed through an append-only trace written by the
// generated commands.
package hist

import (
	"bytes"
	"context"
	"crypto/sha256"
	"encoding/hex"
	"encoding/json"
	"fmt"
	"io/fs"
	"os"
	"os/exec"
	"path/filepath"
	"sort"
	"strings"
	"syscall"
	"time"
)

type Check struct {
	Command        string `json:"command"`
	ExpectedOutput string `json:"expected_output,omitempty"`
}

type Target struct {
	Pkg          string            `json:"pkg"`
	Name         string            `json:"name"`
	Command      string            `json:"command"`
	Inputs       []string          `json:"inputs,omitempty"`
	Exclude      []string          `json:"exclude_inputs,omitempty"`
	Outputs      []string          `json:"outputs,omitempty"`
	BinOutput    string            `json:"bin_output,omitempty"`
	Deps         []string          `json:"dependencies,omitempty"`
	Tags         []string          `json:"tags,omitempty"`
	Fingerprint  map[string]string `json:"fingerprint,omitempty"`
	OutputChecks []Check           `json:"output_checks,omitempty"`
	Timeout      string            `json:"timeout,omitempty"`
	Platforms    []string          `json:"platforms,omitempty"`
}

func (t Target) Label() string { return "//" + t.Pkg + ":" + t.Name }

type Alias struct {
	Pkg    string `json:"pkg"`
	Name   string `json:"name"`
	Actual string `json:"actual"`
}

type File struct {
	Content string `json:"content"`
	Exec    bool   `json:"exec,omitempty"`
	// Link: the entry is a symbolic link with this target (Content is ignored)
	Link string `json:"link,omitempty"`
}

// Source is a complete workspace definition.
type Source struct {
	Targets []Target        `json:"targets"`
	Aliases []Alias         `json:"aliases,omitempty"`
	Files   map[string]File `json:"files"` // workspace-relative path -> file
	Toml    string          `json:"toml,omitempty"`
}

func (s *Source) Clone() *Source {
	b, _ := json.Marshal(s)
	var c Source
	json.Unmarshal(b, &c)
	if c.Files == nil {
		c.Files = map[string]File{}
	}
	return &c
}

func (s *Source) Key() string {
	b, _ := json.Marshal(s)
	h := sha256.Sum256(b)
	return hex.EncodeToString(h[:12])
}

func (s *Source) Target(label string) *Target {
	for i := range s.Targets {
		if s.Targets[i].Label() == label {
			return &s.Targets[i]
		}
	}
	return nil
}

func (s *Source) packages() []string {
	set := map[string]bool{}
	for _, t := range s.Targets {
		set[t.Pkg] = true
	}
	for _, a := range s.Aliases {
		set[a.Pkg] = true
	}
	var out []string
	for p := range set {
		out = append(out, p)
	}
	sort.Strings(out)
	return out
}

// SourcePaths returns the workspace-relative paths that Materialize writes
// (everything else found in a workspace is an output or a leftover).
func (s *Source) SourcePaths() map[string]bool {
	out := map[string]bool{"grog.toml": true}
	for p := range s.Files {
		out[p] = true
	}
	for _, p := range s.packages() {
		out[filepath.Join(p, "BUILD.json")] = true
	}
	return out
}

// Materialize (re)writes the source files of s into ws, removing source files
// of prev that are no longer part of s. Outputs are left alone.
func (s *Source) Materialize(ws string, prev *Source) error {
	if prev != nil {
		now := s.SourcePaths()
		for p := range prev.SourcePaths() {
			if !now[p] {
				os.Remove(filepath.Join(ws, p))
			}
		}
	}
	write := func(rel string, content []byte, mode os.FileMode) error {
		p := filepath.Join(ws, rel)
		if old, err := os.ReadFile(p); err == nil && bytes.Equal(old, content) {
			if st, err := os.Stat(p); err == nil && st.Mode().Perm() == mode {
				return nil
			}
		}
		if err := os.MkdirAll(filepath.Dir(p), 0o755); err != nil {
			return err
		}
		os.Remove(p)
		if err := os.WriteFile(p, content, mode); err != nil {
			return err
		}
		return os.Chmod(p, mode)
	}
	if err := write("grog.toml", []byte(s.Toml), 0o644); err != nil {
		return err
	}
	for rel, f := range s.Files {
		if f.Link != "" {
			p := filepath.Join(ws, rel)
			if cur, err := os.Readlink(p); err == nil && cur == f.Link {
				continue
			}
			os.MkdirAll(filepath.Dir(p), 0o755)
			os.Remove(p)
			if err := os.Symlink(f.Link, p); err != nil {
				return err
			}
			continue
		}
		mode := os.FileMode(0o644)
		if f.Exec {
			mode = 0o755
		}
		if err := write(rel, []byte(f.Content), mode); err != nil {
			return err
		}
	}
	for _, pkg := range s.packages() {
		type tj struct {
			Name         string            `json:"name"`
			Command      string            `json:"command"`
			Deps         []string          `json:"dependencies,omitempty"`
			Inputs       []string          `json:"inputs,omitempty"`
			Exclude      []string          `json:"exclude_inputs,omitempty"`
			Outputs      []string          `json:"outputs,omitempty"`
			BinOutput    string            `json:"bin_output,omitempty"`
			OutputChecks []Check           `json:"output_checks,omitempty"`
			Tags         []string          `json:"tags,omitempty"`
			Fingerprint  map[string]string `json:"fingerprint,omitempty"`
			Timeout      string            `json:"timeout,omitempty"`
			Platforms    []string          `json:"platforms,omitempty"`
		}
		type aj struct {
			Name   string `json:"name"`
			Actual string `json:"actual"`
		}
		var doc struct {
			Targets []tj `json:"targets"`
			Aliases []aj `json:"aliases,omitempty"`
		}
		doc.Targets = []tj{}
		for _, t := range s.Targets {
			if t.Pkg == pkg {
				doc.Targets = append(doc.Targets, tj{t.Name, t.Command, t.Deps, t.Inputs, t.Exclude, t.Outputs, t.BinOutput, t.OutputChecks, t.Tags, t.Fingerprint, t.Timeout, t.Platforms})
			}
		}
		for _, a := range s.Aliases {
			if a.Pkg == pkg {
				doc.Aliases = append(doc.Aliases, aj{a.Name, a.Actual})
			}
		}
		b, _ := json.MarshalIndent(doc, "", "  ")
		if err := write(filepath.Join(pkg, "BUILD.json"), b, 0o644); err != nil {
			return err
		}
	}
	return nil
}

// ---------------------------------------------------------------------------

// Box is one universe: a workspace directory and a private GROG_ROOT.
type Box struct {
	Dir string
}

func (b *Box) WS() string    { return filepath.Join(b.Dir, "ws") }
func (b *Box) Root() string  { return filepath.Join(b.Dir, "root") }
func (b *Box) Trace() string { return filepath.Join(b.Dir, "trace") }

// CachePrefix mirrors config.GetWorkspaceCachePrefix.
func CachePrefix(ws string) string {
	h := sha256.Sum256([]byte(ws))
	return fmt.Sprintf("%x", h)[:16] + "-" + filepath.Base(ws)
}

func (b *Box) CacheDir() string { return filepath.Join(b.Root(), CachePrefix(b.WS()), "cache") }

func NewBox(base string) (*Box, error) {
	d, err := os.MkdirTemp(base, "box")
	if err != nil {
		return nil, err
	}
	b := &Box{Dir: d}
	for _, p := range []string{b.WS(), b.Root(), filepath.Join(d, "home")} {
		if err := os.MkdirAll(p, 0o755); err != nil {
			return nil, err
		}
	}
	return b, nil
}

func (b *Box) Remove() { os.RemoveAll(b.Dir) }

// CloneTo copies the universe to a new box (the workspace's cache is moved to
// the cache prefix of the new workspace location: a checkout at a different
// absolute path sharing the same cache content).
func (b *Box) CloneTo(base string) (*Box, error) {
	d, err := os.MkdirTemp(base, "box")
	if err != nil {
		return nil, err
	}
	nb := &Box{Dir: d}
	if err := CopyTree(b.Dir, d); err != nil {
		return nil, err
	}
	oldp := filepath.Join(nb.Root(), CachePrefix(b.WS()))
	newp := filepath.Join(nb.Root(), CachePrefix(nb.WS()))
	if _, err := os.Stat(oldp); err == nil {
		if err := os.Rename(oldp, newp); err != nil {
			return nil, err
		}
	}
	return nb, nil
}

// CopyTree copies a directory tree. Hard links between files INSIDE the tree are preserved (two names of one
// inode stay two names of one inode in the copy): an aliasing between a workspace file and a cache blob must
// survive the cloning of a state, otherwise the history engines could not observe its consequences.
func CopyTree(src, dst string) error {
	linked := map[[2]uint64]string{}
	return filepath.WalkDir(src, func(p string, d fs.DirEntry, err error) error {
		if err != nil {
			return err
		}
		rel, _ := filepath.Rel(src, p)
		target := filepath.Join(dst, rel)
		info, err := d.Info()
		if err != nil {
			return err
		}
		switch {
		case info.Mode()&os.ModeSymlink != 0:
			l, err := os.Readlink(p)
			if err != nil {
				return err
			}
			return os.Symlink(l, target)
		case d.IsDir():
			return os.MkdirAll(target, 0o755)
		default:
			if st, ok := info.Sys().(*syscall.Stat_t); ok && st.Nlink > 1 {
				key := [2]uint64{uint64(st.Dev), uint64(st.Ino)}
				if first, seen := linked[key]; seen {
					return os.Link(first, target)
				}
				linked[key] = target
			}
			b, err := os.ReadFile(p)
			if err != nil {
				return err
			}
			if err := os.WriteFile(target, b, info.Mode().Perm()); err != nil {
				return err
			}
			return os.Chmod(target, info.Mode().Perm())
		}
	})
}

type RunResult struct {
	Exit     int
	Output   string
	Trace    []string
	TimedOut bool
	Wall     time.Duration
}

type RunOpts struct {
	Args    []string
	Env     map[string]string
	Cwd     string // relative to the workspace
	Ceiling time.Duration
	Stdin   string
}

// Run executes the grog binary in the box. The trace file is truncated first.
func (b *Box) Run(grog string, o RunOpts) RunResult {
	os.WriteFile(b.Trace(), nil, 0o644)
	if o.Ceiling == 0 {
		o.Ceiling = 120 * time.Second
	}
	ctx, cancel := context.WithTimeout(context.Background(), o.Ceiling)
	defer cancel()
	cmd := exec.CommandContext(ctx, grog, o.Args...)
	cmd.Dir = filepath.Join(b.WS(), o.Cwd)
	env := map[string]string{
		"PATH":             os.Getenv("PATH"),
		"HOME":             filepath.Join(b.Dir, "home"),
		"GROG_ROOT":        b.Root(),
		"GROG_DISABLE_TEA": "true",
		"GROG_COLOR":       "no",
		"VTRACE":           b.Trace(),
		"TMPDIR":           os.TempDir(),
	}
	for k, v := range o.Env {
		env[k] = v
	}
	for k, v := range env {
		cmd.Env = append(cmd.Env, k+"="+v)
	}
	var out bytes.Buffer
	cmd.Stdout = &out
	cmd.Stderr = &out
	cmd.SysProcAttr = &syscall.SysProcAttr{Setpgid: true}
	cmd.Cancel = func() error { return syscall.Kill(-cmd.Process.Pid, syscall.SIGKILL) }
	t0 := time.Now()
	err := cmd.Run()
	r := RunResult{Output: out.String(), Wall: time.Since(t0)}
	if ctx.Err() != nil {
		r.TimedOut = true
		r.Exit = -1
	} else if err != nil {
		if ee, ok := err.(*exec.ExitError); ok {
			r.Exit = ee.ExitCode()
		} else {
			r.Exit = -2
			r.Output += "\n[runner] " + err.Error()
		}
	}
	if tb, err := os.ReadFile(b.Trace()); err == nil {
		for _, l := range strings.Split(string(tb), "\n") {
			if l != "" {
				r.Trace = append(r.Trace, l)
			}
		}
	}
	return r
}

// Started returns the labels with a "start <label>" trace line, in order.
func (r RunResult) Started() []string {
	var out []string
	for _, l := range r.Trace {
		if strings.HasPrefix(l, "start ") {
			out = append(out, strings.TrimPrefix(l, "start "))
		}
	}
	return out
}

// ---------------------------------------------------------------------------

// Entry describes one file-system entry for exact comparison.
type Entry struct {
	Kind   string `json:"kind"` // file | dir | symlink
	Exec   bool   `json:"exec,omitempty"`
	Digest string `json:"digest,omitempty"`
	Link   string `json:"link,omitempty"`
}

// Listing returns path -> entry for root (a file, dir or symlink) relative to base.
func Listing(base, rel string) map[string]Entry {
	out := map[string]Entry{}
	root := filepath.Join(base, rel)
	filepath.WalkDir(root, func(p string, d fs.DirEntry, err error) error {
		if err != nil {
			return nil
		}
		r, _ := filepath.Rel(base, p)
		info, err := d.Info()
		if err != nil {
			return nil
		}
		switch {
		case info.Mode()&os.ModeSymlink != 0:
			l, _ := os.Readlink(p)
			out[r] = Entry{Kind: "symlink", Link: l}
		case d.IsDir():
			out[r] = Entry{Kind: "dir"}
		default:
			b, _ := os.ReadFile(p)
			h := sha256.Sum256(b)
			out[r] = Entry{Kind: "file", Exec: info.Mode()&0o111 != 0, Digest: hex.EncodeToString(h[:8])}
		}
		return nil
	})
	return out
}

func ListingKey(m map[string]Entry) string {
	keys := make([]string, 0, len(m))
	for k := range m {
		keys = append(keys, k)
	}
	sort.Strings(keys)
	var sb strings.Builder
	for _, k := range keys {
		e := m[k]
		fmt.Fprintf(&sb, "%s:%s:%v:%s:%s\n", k, e.Kind, e.Exec, e.Digest, e.Link)
	}
	return sb.String()
}

func DiffListing(got, want map[string]Entry) string {
	var diffs []string
	for k, w := range want {
		g, ok := got[k]
		if !ok {
			diffs = append(diffs, fmt.Sprintf("missing %s (%s)", k, w.Kind))
		} else if g != w {
			diffs = append(diffs, fmt.Sprintf("%s: got %+v want %+v", k, g, w))
		}
	}
	for k, g := range got {
		if _, ok := want[k]; !ok {
			diffs = append(diffs, fmt.Sprintf("extra %s (%s)", k, g.Kind))
		}
	}
	sort.Strings(diffs)
	return strings.Join(diffs, "; ")
}

// CacheNames lists the cache abstractly: relative names of all files under the
// workspace cache directory except temporary files.
func (b *Box) CacheNames() []string {
	var out []string
	base := b.CacheDir()
	filepath.WalkDir(base, func(p string, d fs.DirEntry, err error) error {
		if err != nil || d.IsDir() {
			return nil
		}
		if strings.HasPrefix(d.Name(), "tmp-") {
			return nil
		}
		r, _ := filepath.Rel(base, p)
		out = append(out, r)
		return nil
	})
	sort.Strings(out)
	return out
}

// OutputPaths returns the workspace-relative declared output paths of a target
// (file and dir outputs, bin_output).
func OutputPaths(t Target) []string {
	var out []string
	add := func(o string) {
		if o == "" {
			return
		}
		if i := strings.Index(o, "::"); i >= 0 {
			typ := o[:i]
			if typ != "dir" && typ != "file" {
				return
			}
			o = o[i+2:]
		}
		out = append(out, filepath.Clean(filepath.Join(t.Pkg, o)))
	}
	for _, o := range t.Outputs {
		add(o)
	}
	add(t.BinOutput)
	return out
}
