ENGINES = [
 {"name": "enumcheck", "path": "/verif/harness", "serves_properties": ["C09", "C17"], "kind_free_text": "bounded-exhaustive enumeration of inputs/programs through the real API (virtual test package inside module grog), compared with a reference model on every case"},
]
NOTES = "All checks are run by /verif/build/vcheck, rebuild from /repo's working tree via go -overlay, and write /verif/evidence/<id>.json themselves. known_findings.json lists genuine defects (open = reported as KNOWN-FINDING, fixed = suppresses nothing)."
NOT_APPLICABLE = {}

chk("C17", "enumcheck", "bounded-exhaustive enumeration of all token strings (<=5/6 tokens) through the real label API against a reference parser/matcher",
    "Every label/pattern string of up to 5 (quick) or 6 (thorough) tokens over a 9-token alphabet is parsed by the real API from every current package and matched against a 24-label universe; documented strings must agree exactly with a reference written from the documentation, all strings must satisfy the print/re-parse invariants and never panic. Exhaustive within that bound, which contains every shortcut visible in the parser (shorthand, relative, recursive with and without prefix, :all, :..., trailing and repeated slashes).",
    "Trusted: the reference parser (about 100 lines, written from docs/reference/labels.md). Strings outside the alphabet or longer than the bound are not covered.",
    "DESIGN.md 4 C17")

chk("C09", "enumcheck", "bounded-exhaustive enumeration of families of target states (all splits of strings <=3/4 chars across every component boundary, all permutations) through the real hashing API under xxh3 and sha256, all pairs compared via key/canonical-state grouping",
    "Every pair of states inside each family must satisfy key(s1)=key(s2) <=> canonical(s1)=canonical(s2). Families are built around each adjacency of the hashed byte stream, each list separator, each permutation, the workspace location, the platform, map iteration order, dependency digests reached directly or through aliases, and the output hash of result protos. Exhaustive over those families.",
    "Trusted: the canonical tuple (JSON encoding of the statement's components). Collisions are demanded to reproduce under both hash algorithms. Strings outside the 4-character alphabet {a , = :} and longer than the bound are not covered.",
    "DESIGN.md 4 C09")
