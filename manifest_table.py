ENGINES = [
 {"name": "enumcheck", "path": "/verif/harness", "serves_properties": ["C17"], "kind_free_text": "bounded-exhaustive enumeration of inputs/programs through the real API (virtual test package inside module grog), compared with a reference model on every case"},
]
NOTES = "All checks are run by /verif/build/vcheck, rebuild from /repo's working tree via go -overlay, and write /verif/evidence/<id>.json themselves. known_findings.json lists genuine defects (open = reported as KNOWN-FINDING, fixed = suppresses nothing)."
NOT_APPLICABLE = {}

chk("C17", "enumcheck", "bounded-exhaustive enumeration of all token strings (<=5/6 tokens) through the real label API against a reference parser/matcher",
    "Every label/pattern string of up to 5 (quick) or 6 (thorough) tokens over a 9-token alphabet is parsed by the real API from every current package and matched against a 24-label universe; documented strings must agree exactly with a reference written from the documentation, all strings must satisfy the print/re-parse invariants and never panic. Exhaustive within that bound, which contains every shortcut visible in the parser (shorthand, relative, recursive with and without prefix, :all, :..., trailing and repeated slashes).",
    "Trusted: the reference parser (about 100 lines, written from docs/reference/labels.md). Strings outside the alphabet or longer than the bound are not covered.",
    "DESIGN.md 4 C17")
