#!/usr/bin/env python3
"""Runs the repository's test suite (guard off: nothing from /verif is involved)
and compares with the stable_pass list of /root/.vp/BASELINE.json.
usage: tools_baseline.py [repo_dir]"""
import json, subprocess, sys, os, shutil
repo = sys.argv[1] if len(sys.argv) > 1 else '/repo'
mod = '/verif/build/mod-baseline-%d' % os.getpid()
os.makedirs(mod, exist_ok=True)
shutil.copy(os.path.join(repo, 'go.mod'), mod); shutil.copy(os.path.join(repo, 'go.sum'), mod)
env = dict(os.environ, GOFLAGS='-mod=mod', GOPROXY='off')
p = subprocess.run(['go', 'test', '-modfile=' + mod + '/go.mod', '-json', '-vet=off', '-count=1', '-timeout', '25m', './...'], cwd=repo, env=env, capture_output=True, text=True)
shutil.rmtree(mod, ignore_errors=True)
passed = set(); failed = set()
for line in p.stdout.splitlines():
    try: ev = json.loads(line)
    except Exception: continue
    if ev.get('Test') and ev.get('Action') in ('pass', 'fail'):
        name = ev['Package'] + '::' + ev['Test']
        (passed if ev['Action'] == 'pass' else failed).add(name)
base = set(json.load(open('/root/.vp/BASELINE.json'))['stable_pass'])
missing = sorted(base - passed)
print('passed', len(passed), 'failed', len(failed), 'baseline', len(base), 'baseline tests not passing:', len(missing))
for m in missing: print('  MISSING', m)
if not passed:
    print(p.stdout[-3000:]); print(p.stderr[-3000:])
sys.exit(1 if missing else 0)
